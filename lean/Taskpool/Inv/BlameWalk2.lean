import Taskpool.Inv.BlameWalk
/-! The blame walk, part 2: the wrapper of a pool task and the spawners.

A task that is stepped and has not finished has no outcome (`to`), so its record may be rewritten freely — `BL p t` —
until `completeTask` sets phase `finished` and the outcome at once; likewise a spawner that is not in frame `done`
(`BM p m`, `finishMeta`).  Non-final pieces keep `BL` / `BM`, final pieces re-establish `BlameX`. -/
namespace Taskpool
namespace Pool

theorem BL.bx {p : Pool} {t : Nat} (h : BL p t) : BlameX p := h.1
theorem BM.bx {p : Pool} {m : Nat} (h : BM p m) : BlameX p := h.1

theorem bx_of_bl (p : Pool) (t : Nat) (h : BL p t) : BlameX p := h.1
theorem bx_of_bm (p : Pool) (m : Nat) (h : BM p m) : BlameX p := h.1

/-! ### the record of the live task / spawner is rewritten -/

theorem bw_modify_other {α} (l : List α) (t i : Nat) (f : α → α) (x : α) (hx : l[i]? = some x) (hne : t ≠ i) :
    (l.modify t f)[i]? = some x := by
  rw [List.getElem?_modify, hx]; simp [hne]

theorem coL_modTask_live {ts : List PTask} {rs : List Req} {t : Nat} (f : PTask → PTask)
    (hl : ∀ k, ts[t]? = some k → k.outcome = none) {c : Child} {o : Outcome} (hc : coL ts rs c = some o) :
    coL (ts.modify t f) rs c = some o := by
  cases c with
  | task i =>
    simp only [coL] at hc ⊢
    cases hk : ts[i]? with
    | none => simp [hk] at hc
    | some k =>
      simp only [hk] at hc
      have hne : t ≠ i := by
        intro e; subst e
        rw [hl k hk] at hc; cases hc
      rw [bw_modify_other ts t i f k hk hne]; exact hc
  | spawner m => exact hc

theorem coL_modReq_live {ts : List PTask} {rs : List Req} {m : Nat} (f : Req → Req)
    (hl : ∀ r, rs[m]? = some r → r.outcome = none) {c : Child} {o : Outcome} (hc : coL ts rs c = some o) :
    coL ts (rs.modify m f) c = some o := by
  cases c with
  | task i => exact hc
  | spawner i =>
    simp only [coL] at hc ⊢
    cases hk : rs[i]? with
    | none => simp [hk] at hc
    | some r =>
      simp only [hk] at hc
      have hne : m ≠ i := by
        intro e; subst e
        rw [hl r hk] at hc; cases hc
      rw [bw_modify_other rs m i f r hk hne]; exact hc

/-- the record of a task that is not done is rewritten: either it stays so, or it is finished -/
theorem BlameX.modTask_live {p : Pool} {t : Nat} (h : BL p t) (f : PTask → PTask)
    (hf : ∀ k, p.tasks[t]? = some k → (f k).outcome.isSome = true → (f k).phase = .finished) : BlameX (p.modTask t f) := by
  obtain ⟨h, hl⟩ := h
  have keep : ∀ (i : Nat) (k : PTask) (o : Outcome), p.tasks[i]? = some k → k.outcome = some o →
      (p.tasks.modify t f)[i]? = some k := by
    intro i k o hk ho
    refine bw_modify_other _ t i f k hk ?_
    intro e; subst e
    rw [hl k hk] at ho; cases ho
  refine ⟨?_, ?_, ?_, ?_, ?_, h.ro, h.g2⟩
  · intro g G e hG ho
    obtain ⟨c, hc, hco⟩ := h.ge g G e hG ho
    exact ⟨c, hc, coL_modTask_live f hl hco⟩
  · intro g G hG ho
    obtain ⟨hre, c, hc, hco⟩ := h.gc g G hG ho
    exact ⟨hre, c, hc, coL_modTask_live f hl hco⟩
  · intro a A e hA ho
    rcases h.ae a A e hA ho with ⟨i, k, hk, hko⟩ | r
    · exact Or.inl ⟨i, k, keep i k _ hk hko, hko⟩
    · exact Or.inr r
  · intro a A hA ho
    obtain ⟨i, k, hk, hko⟩ := h.ac a A hA ho
    exact ⟨i, k, keep i k _ hk hko, hko⟩
  · intro i k' hk' ho
    obtain ⟨x, hx, e⟩ := getElem?_modify_some _ _ _ _ _ hk'
    subst e
    split at ho
    · rename_i e; subst e
      rw [if_pos rfl]; exact hf x hx ho
    · rename_i e
      rw [if_neg e]; exact h.to i x hx ho

theorem BlameX.modReq_live {p : Pool} {m : Nat} (h : BM p m) (f : Req → Req)
    (hf : ∀ r, p.reqs[m]? = some r → (f r).outcome.isSome = true → (f r).frame = .done) : BlameX (p.modReq m f) := by
  obtain ⟨h, hl⟩ := h
  have keep : ∀ (i : Nat) (r : Req) (o : Outcome), p.reqs[i]? = some r → r.outcome = some o →
      (p.reqs.modify m f)[i]? = some r := by
    intro i r o hk ho
    refine bw_modify_other _ m i f r hk ?_
    intro e; subst e
    rw [hl r hk] at ho; cases ho
  refine ⟨?_, ?_, ?_, h.ac, h.to, ?_, h.g2⟩
  · intro g G e hG ho
    obtain ⟨c, hc, hco⟩ := h.ge g G e hG ho
    exact ⟨c, hc, coL_modReq_live f hl hco⟩
  · intro g G hG ho
    obtain ⟨hre, c, hc, hco⟩ := h.gc g G hG ho
    exact ⟨hre, c, hc, coL_modReq_live f hl hco⟩
  · intro a A e hA ho
    rcases h.ae a A e hA ho with l | ⟨i, r, hk, hko⟩
    · exact Or.inl l
    · exact Or.inr ⟨i, r, keep i r _ hk hko, hko⟩
  · intro i r' hr' ho
    obtain ⟨x, hx, e⟩ := getElem?_modify_some _ _ _ _ _ hr'
    subst e
    split at ho
    · rename_i e; subst e
      rw [if_pos rfl]; exact hf x hx ho
    · rename_i e
      rw [if_neg e]; exact h.ro i x hx ho

theorem bl_modTask (p : Pool) (t : Nat) (f : PTask → PTask) (hf : ∀ k, (f k).outcome = k.outcome) (h : BL p t) :
    BL (p.modTask t f) t := by
  refine ⟨BlameX.modTask_live h f (fun k hk ho => ?_), fun k' hk' => ?_⟩
  · rw [hf k, h.2 k hk] at ho; cases ho
  · obtain ⟨x, hx, e⟩ := getElem?_modify_some _ _ _ _ _ hk'
    subst e
    rw [if_pos rfl, hf x]; exact h.2 x hx

theorem bm_modReq (p : Pool) (m : Nat) (f : Req → Req) (hf : ∀ r, (f r).outcome = r.outcome) (h : BM p m) :
    BM (p.modReq m f) m := by
  refine ⟨BlameX.modReq_live h f (fun r hr ho => ?_), fun r' hr' => ?_⟩
  · rw [hf r, h.2 r hr] at ho; cases ho
  · obtain ⟨x, hx, e⟩ := getElem?_modify_some _ _ _ _ _ hr'
    subst e
    rw [if_pos rfl, hf x]; exact h.2 x hx

/-! ### record updates of other fields -/

theorem bx_mk (x : Pool) (simple : Option SpawnSpec) (startCalls : Nat) (sem : Sem) (locked closed : Bool)
    (groups : List (String × List Nat)) (running cancelledR ended metaCancelled : List Nat)
    (closedWaiters : List Nat) (emit : List Ref) (log : List Ev)
    (names : List String) (orders : List (List Nat)) (ambiguous lost resized : Bool) :
    BlameX { simple := simple, startCalls := startCalls, sem := sem, locked := locked, closed := closed, tasks := x.tasks,
             reqs := x.reqs, groups := groups, running := running, cancelledR := cancelledR, ended := ended,
             metaCancelled := metaCancelled, apis := x.apis, gathers := x.gathers, closedWaiters := closedWaiters, emit := emit,
             log := log, names := names, orders := orders, ambiguous := ambiguous, lost := lost, resized := resized } ↔
    BlameX x := Iff.rfl

theorem bl_mk (t : Nat) (x : Pool) (simple : Option SpawnSpec) (startCalls : Nat) (sem : Sem) (locked closed : Bool)
    (groups : List (String × List Nat)) (running cancelledR ended metaCancelled : List Nat)
    (closedWaiters : List Nat) (emit : List Ref) (log : List Ev)
    (names : List String) (orders : List (List Nat)) (ambiguous lost resized : Bool) :
    BL { simple := simple, startCalls := startCalls, sem := sem, locked := locked, closed := closed, tasks := x.tasks,
         reqs := x.reqs, groups := groups, running := running, cancelledR := cancelledR, ended := ended,
         metaCancelled := metaCancelled, apis := x.apis, gathers := x.gathers, closedWaiters := closedWaiters, emit := emit,
         log := log, names := names, orders := orders, ambiguous := ambiguous, lost := lost, resized := resized } t ↔
    BL x t := Iff.rfl

theorem bm_mk (m : Nat) (x : Pool) (simple : Option SpawnSpec) (startCalls : Nat) (sem : Sem) (locked closed : Bool)
    (groups : List (String × List Nat)) (running cancelledR ended metaCancelled : List Nat)
    (closedWaiters : List Nat) (emit : List Ref) (log : List Ev)
    (names : List String) (orders : List (List Nat)) (ambiguous lost resized : Bool) :
    BM { simple := simple, startCalls := startCalls, sem := sem, locked := locked, closed := closed, tasks := x.tasks,
         reqs := x.reqs, groups := groups, running := running, cancelledR := cancelledR, ended := ended,
         metaCancelled := metaCancelled, apis := x.apis, gathers := x.gathers, closedWaiters := closedWaiters, emit := emit,
         log := log, names := names, orders := orders, ambiguous := ambiguous, lost := lost, resized := resized } m ↔
    BM x m := Iff.rfl

theorem BlameX.of_eq {p q : Pool} (h : BlameX p) (ht : q.tasks = p.tasks) (hr : q.reqs = p.reqs) (ha : q.apis = p.apis)
    (hg : q.gathers = p.gathers) : BlameX q := by
  unfold BlameX at h ⊢
  rw [ht, hr, ha, hg]; exact h

/-- side goals "`f` keeps the outcome" -/
macro "bl_keeps" : tactic =>
  `(tactic| first
    | exact fun _ => rfl
    | exact fun _ => trivial
    | (intro x; dsimp only; split <;> rfl))

open Lean in
/-- backward chaining through the given step lemmas, splitting `if` / `match` where stuck -/
macro "blw" "[" ls:term,* "]" : tactic => do
  let alts ← ls.getElems.mapM fun l => `(tactic| with_reducible apply $l)
  `(tactic| repeat' (first | with_reducible assumption $[| $alts:tactic]* | simp only [bx_mk, bl_mk, bm_mk] | bl_keeps | exact bx_of_bl _ _ (by assumption) | exact bx_of_bm _ _ (by assumption) | split | dsimp only | assumption))

/-! ### the frame functions under `BL` / `BM` -/

theorem bl_logEv (p : Pool) (t : Nat) (e : Ev) (h : BL p t) : BL (p.logEv e) t := h
theorem bl_emitRef (p : Pool) (t : Nat) (r : Ref) (h : BL p t) : BL (p.emitRef r) t := h
theorem bl_runHooks (p : Pool) (t ctx : Nat) (hs : List HookOp) (h : BL p t) : BL (p.runHooks ctx hs) t :=
  h.bfr (bfr_runHooks p ctx hs (Bfr.refl p))
theorem bl_releasePool (p : Pool) (t : Nat) (h : BL p t) : BL p.releasePool t := h.bfr (bfr_releasePool p (Bfr.refl p))
theorem bl_releaseMap (p : Pool) (t m : Nat) (h : BL p t) : BL (p.releaseMap m) t := h.bfr (bfr_releaseMap p m (Bfr.refl p))
theorem bl_schedTask (p : Pool) (t t' : Nat) (h : BL p t) : BL (p.schedTask t') t := h.bfr (bfr_schedTask p t' (Bfr.refl p))

theorem bm_logEv (p : Pool) (m : Nat) (e : Ev) (h : BM p m) : BM (p.logEv e) m := h
theorem bm_emitRef (p : Pool) (m : Nat) (r : Ref) (h : BM p m) : BM (p.emitRef r) m := h
theorem bm_runHooks (p : Pool) (m ctx : Nat) (hs : List HookOp) (h : BM p m) : BM (p.runHooks ctx hs) m :=
  h.bfr (bfr_runHooks p ctx hs (Bfr.refl p))
theorem bm_releasePool (p : Pool) (m : Nat) (h : BM p m) : BM p.releasePool m := h.bfr (bfr_releasePool p (Bfr.refl p))
theorem bm_releaseMap (p : Pool) (m m' : Nat) (h : BM p m) : BM (p.releaseMap m') m := h.bfr (bfr_releaseMap p m' (Bfr.refl p))
theorem bm_schedMeta (p : Pool) (m m' : Nat) (h : BM p m) : BM (p.schedMeta m') m := h.bfr (bfr_schedMeta p m' (Bfr.refl p))
theorem bm_schedOpt (p : Pool) (m : Nat) (o : Option Nat) (h : BM p m) : BM (p.schedOpt o) m :=
  h.bfr (bfr_schedOpt p o (Bfr.refl p))
theorem bm_createTask (p : Pool) (m m' : Nat) (isMap : Bool) (h : BM p m) : BM (p.createTask m' isMap) m :=
  h.bfr (bfr_createTask p m' isMap (Bfr.refl p))
theorem bm_takeSlotAndCreate (p : Pool) (m m' : Nat) (isMap : Bool) (h : BM p m) : BM (p.takeSlotAndCreate m' isMap) m :=
  h.bfr (bfr_takeSlotAndCreate p m' isMap (Bfr.refl p))

theorem bx_bm_modReq (p : Pool) (m : Nat) (f : Req → Req) (hf : ∀ r, (f r).outcome = r.outcome) (h : BM p m) :
    BlameX (p.modReq m f) := (bm_modReq p m f hf h).1
theorem bx_bm_schedOpt (p : Pool) (m : Nat) (o : Option Nat) (h : BM p m) : BlameX (p.schedOpt o) := (bm_schedOpt p m o h).1
theorem bx_bm_takeSlotAndCreate (p : Pool) (m m' : Nat) (isMap : Bool) (h : BM p m) : BlameX (p.takeSlotAndCreate m' isMap) :=
  (bm_takeSlotAndCreate p m m' isMap h).1

/-- the plumbing lemmas of the task walk, plus the ones given -/
macro "bl1" "[" ls:term,* "]" : tactic =>
  `(tactic| blw [bl_modTask, bl_logEv, bl_emitRef, bl_runHooks, bl_releasePool, bl_releaseMap, bl_schedTask, $ls,*])

/-- the plumbing lemmas of the spawner walk, plus the ones given -/
macro "bm1" "[" ls:term,* "]" : tactic =>
  `(tactic| blw [bm_modReq, bm_logEv, bm_emitRef, bm_runHooks, bm_releasePool, bm_releaseMap, bm_schedMeta, bm_schedOpt,
    bm_createTask, bm_takeSlotAndCreate, bx_bm_modReq, bx_bm_schedOpt, bx_bm_takeSlotAndCreate, $ls,*])

/-! ### the wrapper of a pool task -/

/-- the asyncio Task is done: phase `finished` and the outcome are set at once -/
theorem bx_completeTask (p : Pool) (t : Nat) (o : Outcome) (h : BL p t) : BlameX (p.completeTask t o) := by
  unfold completeTask
  split
  · exact h.1
  · exact (BlameX.modTask_live h _ (fun _ _ _ => rfl)).bfr (bfr_emitChildren _ _ (Bfr.refl _))

theorem bx_finishTask (p : Pool) (t : Nat) (h : BL p t) : BlameX (p.finishTask t) := by
  unfold finishTask
  split
  · exact h.1
  · exact bx_completeTask p t _ h

theorem bl_suspendTask (p : Pool) (t : Nat) (ph : Phase) (h : BL p t) : BL (p.suspendTask t ph) t := by
  unfold suspendTask
  bl1 []

theorem bx_suspendTask (p : Pool) (t : Nat) (ph : Phase) (h : BL p t) : BlameX (p.suspendTask t ph) :=
  (bl_suspendTask p t ph h).1

theorem bl_cbBegin (p : Pool) (t : Nat) (tk : PTask) (isEnd : Bool) (h : BL p t) : BL (p.cbBegin t tk isEnd) t := by
  unfold cbBegin
  dsimp only
  refine bl_runHooks _ _ _ _ (bl_logEv _ _ _ (bl_modTask p t _ ?_ h))
  intro k; unfold cbCount; split <;> rfl

theorem bl_runCb (p : Pool) (t : Nat) (tk : PTask) (isEnd : Bool) (h : BL p t) : BL (p.runCb t tk isEnd).1 t := by
  unfold runCb
  bl1 [bl_cbBegin, bl_suspendTask]

theorem bx_runCb (p : Pool) (t : Nat) (tk : PTask) (isEnd : Bool) (h : BL p t) : BlameX (p.runCb t tk isEnd).1 :=
  (bl_runCb p t tk isEnd h).1

theorem bl_moveToEnded (p : Pool) (t : Nat) (h : BL p t) (q : Pool) (e : p.moveToEnded t = some q) : BL q t := by
  unfold moveToEnded at e
  split at e
  · cases e; exact h
  · split at e
    · cases e; exact h
    · cases e

theorem bl_releaseMapSlot (p : Pool) (t : Nat) (tk : PTask) (h : BL p t) : BL (p.releaseMapSlot t tk) t := by
  unfold releaseMapSlot
  bl1 []

theorem bx_endCallback (p : Pool) (t : Nat) (tk : PTask) (h : BL p t) : BlameX (p.endCallback t tk) := by
  unfold endCallback
  bl1 [bx_runCb, bl_runCb, bl_releaseMapSlot, bx_finishTask]

theorem bx_endingTail (p : Pool) (t : Nat) (tk : PTask) (h : BL p t) : BlameX (p.endingTail t tk) := by
  unfold endingTail
  bl1 [bx_endCallback]

theorem bx_keyErrorFinish (p : Pool) (t : Nat) (h : BL p t) : BlameX (p.keyErrorFinish t) := by
  unfold keyErrorFinish
  bl1 [bx_finishTask]

theorem bx_taskEnding (p : Pool) (t : Nat) (h : BL p t) : BlameX (p.taskEnding t) := by
  unfold taskEnding
  split
  · exact h.1
  · split
    · exact bx_keyErrorFinish p t h
    · rename_i p1 e
      exact bx_endingTail p1 t _ (bl_moveToEnded p t h p1 e)

theorem bx_cancelCallback (p : Pool) (t : Nat) (tk : PTask) (h : BL p t) : BlameX (p.cancelCallback t tk) := by
  unfold cancelCallback
  bl1 [bx_runCb, bl_runCb, bx_taskEnding]

theorem bx_taskCancellation (p : Pool) (t : Nat) (tk : PTask) (h : BL p t) : BlameX (p.taskCancellation t tk) := by
  unfold taskCancellation
  bl1 [bx_cancelCallback, bx_taskEnding]

theorem bx_afterWorker (p : Pool) (t : Nat) (e : Option Err) (h : BL p t) : BlameX (p.afterWorker t e) := by
  unfold afterWorker
  bl1 [bx_taskEnding]

theorem bx_stepCreated (p : Pool) (t : Nat) (tk : PTask) (h : BL p t) : BlameX (p.stepCreated t tk) := by
  unfold stepCreated
  bl1 [bx_taskCancellation, bx_afterWorker, bx_suspendTask]

theorem bx_workerCancelled (p : Pool) (t : Nat) (tk : PTask) (h : BL p t) : BlameX (p.workerCancelled t tk) := by
  unfold workerCancelled
  bl1 [bx_taskCancellation, bx_afterWorker, bx_suspendTask]

theorem bx_workerNext (p : Pool) (t : Nat) (tk : PTask) (h : BL p t) : BlameX (p.workerNext t tk) := by
  unfold workerNext
  bl1 [bx_suspendTask]

theorem bx_stepInWorker (p : Pool) (t : Nat) (tk : PTask) (h : BL p t) : BlameX (p.stepInWorker t tk) := by
  unfold stepInWorker
  bl1 [bx_workerCancelled, bx_workerNext, bx_afterWorker]

theorem bx_stepInCancelCb (p : Pool) (t : Nat) (tk : PTask) (h : BL p t) : BlameX (p.stepInCancelCb t tk) := by
  unfold stepInCancelCb
  bl1 [bx_taskEnding]

theorem bx_stepInEndCb (p : Pool) (t : Nat) (tk : PTask) (h : BL p t) : BlameX (p.stepInEndCb t tk) := by
  unfold stepInEndCb
  bl1 [bx_finishTask]

/-- a task that is stepped and has not finished has no outcome: its wrapper runs on; a finished task is left alone -/
theorem bx_stepTask (p : Pool) (t : Nat) (h : BlameX p) : BlameX (p.stepTask t) := by
  unfold stepTask
  split
  · exact h
  · rename_i tk htk
    split
    · exact h
    · dsimp only
      have h1 : BlameX (p.modTask t fun k => { k with sched := false }) :=
        h.bfr (bfr_modTask p t _ (fun _ => ⟨rfl, rfl⟩) (Bfr.refl p))
      have hl : tk.phase ≠ .finished → BL (p.modTask t fun k => { k with sched := false }) t := by
        intro hne
        refine bl_modTask p t _ (fun _ => rfl) ⟨h, fun k hk => ?_⟩
        rw [htk] at hk; cases hk
        cases ho : tk.outcome with
        | none => rfl
        | some o => exact absurd (h.to t tk htk (by rw [ho]; rfl)) hne
      split
      · rename_i e; exact bx_stepCreated _ t tk (hl (by rw [e]; decide))
      · exact h1
      · rename_i e; exact bx_stepInWorker _ t tk (hl (by rw [e]; decide))
      · rename_i e; exact bx_stepInCancelCb _ t tk (hl (by rw [e]; decide))
      · rename_i e; exact bx_stepInEndCb _ t tk (hl (by rw [e]; decide))
      · exact h1

/-! ### spawners -/

/-- the spawner is done: frame `done` and the outcome are set at once -/
theorem bx_finishMeta (p : Pool) (m : Nat) (o : Outcome) (h : BM p m) : BlameX (p.finishMeta m o) := by
  unfold finishMeta
  split
  · exact h.1
  · exact (BlameX.modReq_live h _ (fun _ _ _ => rfl)).bfr (bfr_emitChildren _ _ (Bfr.refl _))

theorem bm_waitRoom (p : Pool) (m : Nat) (h : BM p m) : BM (p.waitRoom m) m := by
  unfold waitRoom
  bm1 []

theorem bx_waitRoom (p : Pool) (m : Nat) (h : BM p m) : BlameX (p.waitRoom m) := (bm_waitRoom p m h).1

theorem bm_waitMapSem (p : Pool) (m : Nat) (h : BM p m) : BM (p.waitMapSem m) m := by
  unfold waitMapSem
  bm1 []

theorem bx_applyLoop (m : Nat) (n : Nat) (p : Pool) (h : BM p m) : BlameX (applyLoop m n p) := by
  induction n generalizing p with
  | zero =>
    unfold applyLoop
    bm1 [bx_finishMeta]
  | succ n ih =>
    unfold applyLoop
    bm1 [bx_finishMeta, bx_waitRoom, ih]

theorem bx_mapStartTask (p : Pool) (m : Nat) (h : BM p m) : BlameX (p.mapStartTask m).1 := by
  unfold mapStartTask
  bm1 [bx_finishMeta, bx_waitRoom]

theorem bm_mapStartTask (p : Pool) (m : Nat) (h : BM p m) (e : (p.mapStartTask m).2 = true) : BM (p.mapStartTask m).1 m := by
  unfold mapStartTask at e ⊢
  split
  · rw [if_pos ‹_›] at e; cases e
  · split
    · rw [if_neg ‹_›, if_pos ‹_›] at e; cases e
    · exact bm_takeSlotAndCreate p m m true h

theorem bm_pullItem (p : Pool) (m : Nat) (rest : List Item) (h : BM p m) : BM (p.pullItem m rest) m := by
  unfold pullItem
  bm1 []

theorem bm_takeMapSlot (p : Pool) (m : Nat) (h : BM p m) : BM (p.takeMapSlot m) m := by
  unfold takeMapSlot
  bm1 []

theorem bx_mapLoop (m : Nat) (items : List Item) (p : Pool) (h : BM p m) : BlameX (mapLoop m items p) := by
  induction items generalizing p with
  | nil =>
    unfold mapLoop
    bm1 [bx_finishMeta]
  | cons it rest ih =>
    unfold mapLoop
    dsimp only
    have h1 := bm_pullItem p m rest h
    split
    · exact bx_finishMeta _ m _ h1
    · split
      · exact ih _ (bm_modReq _ m _ (fun _ => rfl) h1)
      · split
        · exact (bm_waitMapSem _ m h1).1
        · have h2 := bm_takeMapSlot _ m h1
          split
          · rename_i e
            exact ih _ (bm_mapStartTask _ m h2 e)
          · exact bx_mapStartTask _ m h2

theorem bx_continueSpawner (p : Pool) (m : Nat) (h : BM p m) : BlameX (p.continueSpawner m) := by
  unfold continueSpawner
  bm1 [bx_applyLoop, bx_mapLoop]

theorem bx_stepMetaNotStarted (p : Pool) (m : Nat) (r : Req) (h : BM p m) : BlameX (p.stepMetaNotStarted m r) := by
  unfold stepMetaNotStarted
  bm1 [bx_applyLoop, bx_mapLoop, bx_finishMeta]

theorem bx_roomWaitCancelled (p : Pool) (m : Nat) (r : Req) (st : Option WaitSt) (h : BM p m) :
    BlameX (p.roomWaitCancelled m r st) := by
  unfold roomWaitCancelled
  bm1 [bx_finishMeta]

theorem bx_roomGranted (p : Pool) (m : Nat) (r : Req) (h : BM p m) : BlameX (p.roomGranted m r) := by
  unfold roomGranted
  bm1 [bx_continueSpawner]

theorem bx_wakeWaitRoomCore (p : Pool) (m : Nat) (r : Req) (h : BM p m) : BlameX (p.wakeWaitRoomCore m r) := by
  unfold wakeWaitRoomCore
  bm1 [bx_roomWaitCancelled, bx_roomGranted]

theorem bx_wakeWaitRoom (p : Pool) (m : Nat) (r : Req) (h : BM p m) : BlameX (p.wakeWaitRoom m r) := by
  unfold wakeWaitRoom
  bm1 [bx_wakeWaitRoomCore]

theorem bx_mapSemGranted (p : Pool) (m : Nat) (r : Req) (h : BM p m) : BlameX (p.mapSemGranted m r) := by
  unfold mapSemGranted
  dsimp only
  have h1 : BM (p.modReq m fun x => { x with acquired := true, frame := .running }) m := bm_modReq p m _ (fun _ => rfl) h
  split
  · rename_i e
    exact bx_mapLoop m _ _ (bm_mapStartTask _ m h1 e)
  · exact bx_mapStartTask _ m h1

theorem bx_wakeWaitMapSemCore (p : Pool) (m : Nat) (r : Req) (h : BM p m) : BlameX (p.wakeWaitMapSemCore m r) := by
  unfold wakeWaitMapSemCore
  bm1 [bx_finishMeta, bx_mapSemGranted]

theorem bx_wakeWaitMapSem (p : Pool) (m : Nat) (r : Req) (h : BM p m) : BlameX (p.wakeWaitMapSem m r) := by
  unfold wakeWaitMapSem
  bm1 [bx_wakeWaitMapSemCore]

/-- a spawner that is stepped and is not in frame `done` has no outcome; one that is done is left alone -/
theorem bx_stepMeta (p : Pool) (m : Nat) (h : BlameX p) : BlameX (p.stepMeta m) := by
  unfold stepMeta
  split
  · exact h
  · rename_i r hr
    split
    · exact h
    · dsimp only
      have h1 : BlameX (p.modReq m fun x => { x with sched := false }) :=
        h.bfr (bfr_modReq p m _ (fun _ => ⟨rfl, rfl⟩) (Bfr.refl p))
      have hl : r.frame ≠ .done → BM (p.modReq m fun x => { x with sched := false }) m := by
        intro hne
        refine bm_modReq p m _ (fun _ => rfl) ⟨h, fun x hx => ?_⟩
        rw [hr] at hx; cases hx
        cases ho : r.outcome with
        | none => rfl
        | some o => exact absurd (h.ro m r hr (by rw [ho]; rfl)) hne
      split
      · exact h1
      · exact h1
      · rename_i e; exact bx_stepMetaNotStarted _ m r (hl (by rw [e]; decide))
      · rename_i e; exact bx_wakeWaitRoom _ m r (hl (by rw [e]; decide))
      · rename_i e; exact bx_wakeWaitMapSem _ m r (hl (by rw [e]; decide))

end Pool
end Taskpool
