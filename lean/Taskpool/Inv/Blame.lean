import Taskpool.Inv.Tame
/-! **What a `flush()` / `gather_and_close()` raises is the outcome of one of the pool's own tasks or spawners.**

`BlameOK p`: a gather whose outer future has failed with `e` (was cancelled) has a child that ended with `e` (cancelled);
a background call that has ended with an exception `e` ended so because a task or a spawner of the pool ended with `e`,
and one that has ended cancelled because a *task* of the pool ended cancelled (cancelled spawners are swallowed: the first
gather of `flush()` sits under `suppress(CancelledError)`, that of `gather_and_close()` collects and re-raises
`Exception`s only).  Contrapositive: **if no task or callback raised, the calls return normally.** -/
namespace Taskpool
namespace Pool

structure BlameOK (p : Pool) : Prop where
  ge : ∀ (g : Nat) (G : Gather) (e : Err), p.gathers[g]? = some G → G.outer = some (.exc e) →
         ∃ c ∈ G.children, p.childOutcome c = some (.exc e)
  gc : ∀ (g : Nat) (G : Gather), p.gathers[g]? = some G → G.outer = some .cancelled →
         G.retExc = false ∧ ∃ c ∈ G.children, p.childOutcome c = some .cancelled
  ae : ∀ (a : Nat) (A : Api) (e : Err), p.apis[a]? = some A → A.outcome = some (.exc e) →
         (∃ (t : Nat) (k : PTask), p.tasks[t]? = some k ∧ k.outcome = some (.exc e)) ∨
         (∃ (m : Nat) (r : Req), p.reqs[m]? = some r ∧ r.outcome = some (.exc e))
  ac : ∀ (a : Nat) (A : Api), p.apis[a]? = some A → A.outcome = some .cancelled →
         ∃ (t : Nat) (k : PTask), p.tasks[t]? = some k ∧ k.outcome = some .cancelled

def blameBit (p : Pool) : Bool :=
  (p.gathers.all fun G => match G.outer with
    | some (.exc e) => G.children.any fun c => p.childOutcome c == some (.exc e)
    | some .cancelled => !G.retExc && G.children.any fun c => p.childOutcome c == some .cancelled
    | _ => true) &&
  (p.apis.all fun A => match A.outcome with
    | some (.exc e) => (p.tasks.any fun k => k.outcome == some (.exc e)) || (p.reqs.any fun r => r.outcome == some (.exc e))
    | some .cancelled => p.tasks.any fun k => k.outcome == some .cancelled
    | _ => true)

end Pool
end Taskpool
