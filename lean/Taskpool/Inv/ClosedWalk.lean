import Taskpool.Inv.Tame
import Taskpool.Inv.ApiWantWalk
/-! **A pool is closed exactly when a `gather_and_close()` call has returned normally** — for every history.

`ClosedOK p`: only `until_closed()` calls wait for the closing event; a `gather_and_close()` that has returned normally
has closed the pool, and nothing else ever closes it; an `until_closed()` call that has returned has seen the pool closed.

The walking invariant `ClosedX` adds what makes this inductive for the total machine (`stepApi` runs for any call whose
flag is set):

* `ws` — a call suspended on the closing event is flagged only when the pool is closed (the closing step `gacAfter2`
  flags the waiters and sets `closed` at once);
* `od` — a call that has an outcome is in frame `done` (so that no later step overwrites the outcome of a
  `gather_and_close()` that has returned);
* `go` — the owner of every gather is an existing call that is not an `until_closed()` (`schedApi` is otherwise only
  used for gather owners: by `wk` they are never suspended on the closing event).

Everything that is not part of a background call satisfies the frame relation `Afr` of `ApiWantWalk.lean` (the list of
calls, `closed` and the owners of the gathers are untouched), so only the gather callback run from a handle, the stages
of `stepApi` and `addApi` are walked here. -/
namespace Taskpool
namespace Pool

structure ClosedOK (p : Pool) : Prop where
  /-- only `until_closed()` calls wait for the closing event -/
  wk : ∀ (a : Nat) (A : Api), p.apis[a]? = some A → A.frame = .waitClosed → A.kind = .untilClosed
  /-- a `gather_and_close()` that has returned normally has closed the pool -/
  gc : ∀ (a : Nat) (A : Api), p.apis[a]? = some A → A.kind.isGac = true → A.outcome = some .ok → p.closed = true
  /-- … and nothing else ever closes it -/
  cg : p.closed = true → ∃ (a : Nat) (A : Api), p.apis[a]? = some A ∧ A.kind.isGac = true ∧ A.outcome = some .ok
  /-- an `until_closed()` call that has returned has seen the pool closed -/
  uc : ∀ (a : Nat) (A : Api), p.apis[a]? = some A → A.kind = .untilClosed → A.outcome.isSome = true → p.closed = true

/-- the walking invariant: `ClosedOK` plus what makes it inductive -/
structure ClosedX (p : Pool) : Prop where
  wk : ∀ (a : Nat) (A : Api), p.apis[a]? = some A → A.frame = .waitClosed → A.kind = .untilClosed
  gc : ∀ (a : Nat) (A : Api), p.apis[a]? = some A → A.kind.isGac = true → A.outcome = some .ok → p.closed = true
  cg : p.closed = true → ∃ (a : Nat) (A : Api), p.apis[a]? = some A ∧ A.kind.isGac = true ∧ A.outcome = some .ok
  uc : ∀ (a : Nat) (A : Api), p.apis[a]? = some A → A.kind = .untilClosed → A.outcome.isSome = true → p.closed = true
  /-- a call suspended on the closing event is flagged only when the pool is closed -/
  ws : ∀ (a : Nat) (A : Api), p.apis[a]? = some A → A.frame = .waitClosed → A.sched = true → p.closed = true
  /-- a call that has an outcome is over -/
  od : ∀ (a : Nat) (A : Api), p.apis[a]? = some A → A.outcome.isSome = true → A.frame = .done
  /-- the owner of every gather is a `flush()` or a `gather_and_close()` call -/
  go : ∀ (g : Nat) (G : Gather), p.gathers[g]? = some G → ∃ A, p.apis[G.owner]? = some A ∧ A.kind ≠ .untilClosed

theorem ClosedX.ok {p : Pool} (h : ClosedX p) : ClosedOK p := ⟨h.wk, h.gc, h.cg, h.uc⟩

/-! ### transfer -/

/-- nothing the invariant reads has changed -/
theorem ClosedX.of_eq {p q : Pool} (h : ClosedX p) (ha : q.apis = p.apis) (hc : q.closed = p.closed)
    (hg : q.gathers = p.gathers) : ClosedX q := by
  refine ⟨?_, ?_, ?_, ?_, ?_, ?_, ?_⟩
  · rw [ha]; exact h.wk
  · rw [ha, hc]; exact h.gc
  · rw [ha, hc]; exact h.cg
  · rw [ha, hc]; exact h.uc
  · rw [ha, hc]; exact h.ws
  · rw [ha]; exact h.od
  · rw [ha, hg]; exact h.go

/-- every step that is not part of a background call -/
theorem ClosedX.afr {X : Nat → Prop} {p q : Pool} (h : ClosedX p) (hr : Afr X p q) : ClosedX q := by
  refine ⟨?_, ?_, ?_, ?_, ?_, ?_, ?_⟩
  · rw [hr.apis]; exact h.wk
  · rw [hr.apis, hr.closed]; exact h.gc
  · rw [hr.apis, hr.closed]; exact h.cg
  · rw [hr.apis, hr.closed]; exact h.uc
  · rw [hr.apis, hr.closed]; exact h.ws
  · rw [hr.apis]; exact h.od
  · intro g G' hG'
    rcases hr.ga g with ⟨_, b⟩ | ⟨G, G1, a', b', c', _⟩
    · rw [hG'] at b; cases b
    · rw [hG'] at b'; cases b'
      rw [c', hr.apis]; exact h.go g G a'

theorem ClosedX.afr0 {p q : Pool} (h : ClosedX p) (hr : Afr (fun _ => False) p q) : ClosedX q := h.afr hr

/-! ### one record is rewritten -/

theorem modApi_get {p : Pool} {a b : Nat} {f : Api → Api} {B : Api} (hB : (p.modApi a f).apis[b]? = some B) :
    (b = a ∧ ∃ x, p.apis[a]? = some x ∧ B = f x) ∨ (b ≠ a ∧ p.apis[b]? = some B) := by
  by_cases e : b = a
  · subst e; exact Or.inl ⟨rfl, getElem?_modify_self hB⟩
  · simp only [modApi, getElem?_modify_ne _ _ _ _ e] at hB; exact Or.inr ⟨e, hB⟩

theorem modApi_fw {p : Pool} {a b : Nat} (f : Api → Api) {B : Api} (hB : p.apis[b]? = some B) :
    (p.modApi a f).apis[b]? = some (if a = b then f B else B) := by
  show (p.apis.modify a f)[b]? = _
  rw [List.getElem?_modify, hB]
  simp

theorem ClosedX.modApi {p : Pool} (h : ClosedX p) (a : Nat) (f : Api → Api)
    (hf : ∀ x, p.apis[a]? = some x →
      (f x).kind = x.kind ∧
      ((f x).frame = .waitClosed → x.kind = .untilClosed ∧ ((f x).sched = true → p.closed = true)) ∧
      (x.kind.isGac = true → (f x).outcome = some .ok → p.closed = true) ∧
      (x.kind = .untilClosed → (f x).outcome.isSome = true → p.closed = true) ∧
      (x.outcome = some .ok → (f x).outcome = some .ok) ∧
      ((f x).outcome.isSome = true → (f x).frame = .done)) : ClosedX (p.modApi a f) := by
  refine ⟨?_, ?_, ?_, ?_, ?_, ?_, ?_⟩
  · intro b B hB hfr
    rcases modApi_get hB with ⟨rfl, x, hx, rfl⟩ | ⟨_, hB⟩
    · obtain ⟨k, w, _⟩ := hf x hx
      rw [k]; exact (w hfr).1
    · exact h.wk b B hB hfr
  · intro b B hB hk ho
    show p.closed = true
    rcases modApi_get hB with ⟨rfl, x, hx, rfl⟩ | ⟨_, hB⟩
    · obtain ⟨k, _, g, _⟩ := hf x hx
      exact g (k ▸ hk) ho
    · exact h.gc b B hB hk ho
  · intro hc
    obtain ⟨b, B, hB, hk, ho⟩ := h.cg hc
    refine ⟨b, _, modApi_fw f hB, ?_, ?_⟩
    · split
      · rename_i e; subst e
        rw [(hf B hB).1]; exact hk
      · exact hk
    · split
      · rename_i e; subst e
        exact (hf B hB).2.2.2.2.1 ho
      · exact ho
  · intro b B hB hk ho
    show p.closed = true
    rcases modApi_get hB with ⟨rfl, x, hx, rfl⟩ | ⟨_, hB⟩
    · obtain ⟨k, _, _, u, _⟩ := hf x hx
      exact u (k ▸ hk) ho
    · exact h.uc b B hB hk ho
  · intro b B hB hfr hs
    show p.closed = true
    rcases modApi_get hB with ⟨rfl, x, hx, rfl⟩ | ⟨_, hB⟩
    · exact ((hf x hx).2.1 hfr).2 hs
    · exact h.ws b B hB hfr hs
  · intro b B hB ho
    rcases modApi_get hB with ⟨rfl, x, hx, rfl⟩ | ⟨_, hB⟩
    · exact (hf x hx).2.2.2.2.2 ho
    · exact h.od b B hB ho
  · intro g G hG
    obtain ⟨A, hA, hk⟩ := h.go g G hG
    refine ⟨_, modApi_fw f hA, ?_⟩
    split
    · rename_i e; subst e
      rw [(hf A hA).1]; exact hk
    · exact hk

/-- a flag is cleared -/
theorem cx_unsched {p : Pool} (h : ClosedX p) (a : Nat) : ClosedX (p.modApi a fun x => { x with sched := false }) := by
  refine h.modApi a _ (fun x hx => ?_)
  exact ⟨rfl, fun hfr => ⟨h.wk a x hx hfr, fun hs => by cases hs⟩, fun hg ho => h.gc a x hx hg ho,
    fun hu ho => h.uc a x hx hu ho, id, fun ho => h.od a x hx ho⟩

/-- a call that is not an `until_closed()` is flagged -/
theorem cx_schedApi {p : Pool} (h : ClosedX p) (a : Nat) (hk : ∀ A, p.apis[a]? = some A → A.kind ≠ .untilClosed) :
    ClosedX (p.schedApi a) := by
  unfold schedApi
  refine ClosedX.of_eq (p := p.modApi a fun x => { x with sched := true }) ?_ rfl rfl rfl
  refine h.modApi a _ (fun x hx => ?_)
  exact ⟨rfl, fun hfr => absurd (h.wk a x hx hfr) (hk x hx), fun hg ho => h.gc a x hx hg ho,
    fun hu ho => h.uc a x hx hu ho, id, fun ho => h.od a x hx ho⟩

/-! ### gather -/

/-- the callback of a child: the owner of a gather that completes is flagged, and it is not an `until_closed()` -/
theorem cx_gatherChildDone {p : Pool} (h : ClosedX p) (g i : Nat) (v : Bool) : ClosedX (p.gatherChildDone g i v) := by
  unfold gatherChildDone
  split
  · exact h
  · rename_i G hG
    split
    · exact h
    · simp only
      have h1 : ClosedX (p.modGather g fun x => { x with nfinished := x.nfinished + 1 }) :=
        h.afr0 (afr_modGather p g _ (fun _ => rfl) (fun _ => rfl) (Or.inr fun _ => rfl))
      split
      · exact h1
      · split
        · exact h1
        · split
          · exact h1
          · rename_i o _ _
            have h2 : ClosedX ((p.modGather g fun x => { x with nfinished := x.nfinished + 1 }).modGather g
                fun x => { x with outer := some o }) :=
              h1.afr (X := (· = g)) (afr_modGather _ g _ (fun _ => rfl) (fun _ => rfl) (Or.inl rfl))
            split
            · refine cx_schedApi h2 G.owner (fun A' hA' => ?_)
              obtain ⟨A, hA, hne⟩ := h.go g G hG
              have hA'' : p.apis[G.owner]? = some A' := hA'
              rw [hA] at hA''; cases hA''
              exact hne
            · exact h2

theorem append_get {α} {l : List α} {a x : α} {i : Nat} (h : (l ++ [a])[i]? = some x) :
    l[i]? = some x ∨ (i = l.length ∧ x = a) := by
  rcases Nat.lt_or_ge i l.length with c | c
  · rw [List.getElem?_append_left c] at h; exact Or.inl h
  · rw [List.getElem?_append_right c] at h
    cases hi : i - l.length with
    | zero => rw [hi] at h; simp at h; exact Or.inr ⟨by omega, h.symm⟩
    | succ n => rw [hi] at h; simp at h

/-- the running call `a` exists, has no outcome yet and is of kind `k` -/
def COwn (p : Pool) (a : Nat) (k : ApiKind) : Prop := ∃ A, p.apis[a]? = some A ∧ A.outcome = none ∧ A.kind = k

theorem COwn.of_eq {p q : Pool} {a : Nat} {k : ApiKind} (h : COwn p a k) (he : q.apis = p.apis) : COwn q a k := by
  obtain ⟨A, hA, r⟩ := h
  exact ⟨A, by rw [he]; exact hA, r⟩

theorem cx_gatherStart_aux {p : Pool} (h : ClosedX p) (G0 : Gather) (amb : Bool) (cs : List Child)
    (hG0 : ∃ A, p.apis[G0.owner]? = some A ∧ A.kind ≠ .untilClosed) :
    ClosedX (gatherScan p.gathers.length cs 0 ({ p with gathers := p.gathers ++ [G0], ambiguous := amb } : Pool)) ∧
    (gatherScan p.gathers.length cs 0 ({ p with gathers := p.gathers ++ [G0], ambiguous := amb } : Pool)).apis = p.apis := by
  have h0 : ClosedX ({ p with gathers := p.gathers ++ [G0], ambiguous := amb } : Pool) := by
    refine ⟨h.wk, h.gc, h.cg, h.uc, h.ws, h.od, ?_⟩
    intro g G hG
    rcases append_get (l := p.gathers) hG with hG | ⟨_, rfl⟩
    · exact h.go g G hG
    · exact hG0
  have hs := afr_gatherScan p.gathers.length cs 0 ({ p with gathers := p.gathers ++ [G0], ambiguous := amb } : Pool)
  exact ⟨h0.afr hs, hs.apis⟩

/-- a new gather owned by the running call, which is a `flush()` or a `gather_and_close()` -/
theorem cx_gatherStart {p : Pool} {a : Nat} {k : ApiKind} (h : ClosedX p) (own : COwn p a k) (hk : k ≠ .untilClosed)
    (children : List Child) (re : Bool) (n : Nat) :
    ClosedX (p.gatherStart children re a n).1 ∧ COwn (p.gatherStart children re a n).1 a k := by
  unfold gatherStart
  simp only
  obtain ⟨A, hA, ho, hAk⟩ := own
  obtain ⟨h1, h2⟩ := cx_gatherStart_aux h
    ({ children := children, nfinished := 0, owner := a, retExc := re, outer := (if children.isEmpty then some .ok else none) } : Gather)
    (p.ambiguous || (!re && decide ((failKinds p (children.take n)).length > 1))) children ⟨A, hA, hAk ▸ hk⟩
  exact ⟨h1, COwn.of_eq ⟨A, hA, ho, hAk⟩ h2⟩

/-! ### the stages of a background call -/

/-- the record of the running call is rewritten; it stays pending, and is not put to wait for the closing event -/
theorem cx_modOwn {p : Pool} {a : Nat} {k : ApiKind} (h : ClosedX p) (own : COwn p a k) (f : Api → Api)
    (hf : ∀ x, (f x).kind = x.kind ∧ (f x).outcome = x.outcome ∧
      ((f x).frame = .waitClosed → x.frame = .waitClosed ∧ ((f x).sched = true → x.sched = true))) :
    ClosedX (p.modApi a f) ∧ COwn (p.modApi a f) a k := by
  obtain ⟨A, hA, ho, hk⟩ := own
  constructor
  · refine h.modApi a f (fun x hx => ?_)
    rw [hA] at hx; cases hx
    obtain ⟨e1, e2, e3⟩ := hf A
    refine ⟨e1, fun hfr => ⟨h.wk a A hA (e3 hfr).1, fun hs => h.ws a A hA (e3 hfr).1 ((e3 hfr).2 hs)⟩,
      fun _ h1 => ?_, fun _ h1 => ?_, fun h1 => ?_, fun h1 => ?_⟩
    · rw [e2, ho] at h1; cases h1
    · rw [e2, ho] at h1; cases h1
    · rw [ho] at h1; cases h1
    · rw [e2, ho] at h1; cases h1
  · refine ⟨f A, ?_, ?_, ?_⟩
    · rw [modApi_fw f hA, if_pos rfl]
    · rw [(hf A).2.1]; exact ho
    · rw [(hf A).1]; exact hk

/-- the running call suspends -/
theorem cx_setFrame {p : Pool} {a : Nat} {k : ApiKind} (h : ClosedX p) (own : COwn p a k) (fr : AFrame)
    (hfr : fr ≠ .waitClosed) : ClosedX (p.modApi a fun x => { x with frame := fr }) :=
  (cx_modOwn h own (fun x => { x with frame := fr }) (fun _ => ⟨rfl, rfl, fun e => absurd e hfr⟩)).1

/-- the running call returns -/
theorem cx_finishApi {p : Pool} {a : Nat} {k : ApiKind} (h : ClosedX p) (own : COwn p a k) (o : Outcome)
    (hg : k.isGac = true → o = .ok → p.closed = true) (hu : k = .untilClosed → p.closed = true) :
    ClosedX (p.finishApi a o) := by
  obtain ⟨A, hA, ho, hk⟩ := own
  unfold finishApi
  refine h.modApi a _ (fun x hx => ?_)
  rw [hA] at hx; cases hx
  refine ⟨rfl, fun hfr => (by cases hfr), fun hg' ho' => ?_, fun hu' _ => hu (hk ▸ hu'), fun h1 => ?_, fun _ => rfl⟩
  · simp only [Option.some.injEq] at ho'
    exact hg (hk ▸ hg') ho'
  · rw [ho] at h1; cases h1

theorem flush_isGac (re : Bool) : (ApiKind.flush re).isGac = false := rfl
theorem gac_isGac (re : Bool) : (ApiKind.gac re).isGac = true := rfl
theorem untilClosed_isGac : ApiKind.untilClosed.isGac = false := rfl

theorem cx_flushAfter2 {p : Pool} {a : Nat} {r : Bool} (h : ClosedX p) (own : COwn p a (.flush r)) (o : Outcome) :
    ClosedX (p.flushAfter2 a o) := by
  unfold flushAfter2
  split
  · simp only
    refine cx_finishApi (k := .flush r) ?_ ?_ _ (fun hh => ?_) (fun hh => ?_)
    · exact h.of_eq rfl rfl rfl
    · exact own.of_eq rfl
    · rw [flush_isGac] at hh; cases hh
    · cases hh
  · refine cx_finishApi h own _ (fun hh => ?_) (fun hh => ?_)
    · rw [flush_isGac] at hh; cases hh
    · cases hh

theorem cx_flushAfter1 {p : Pool} {a : Nat} {r : Bool} (h : ClosedX p) (own : COwn p a (.flush r)) (re : Bool) (o : Outcome) :
    ClosedX (p.flushAfter1 a re o) := by
  unfold flushAfter1
  split
  · refine cx_finishApi h own _ (fun hh => ?_) (fun hh => ?_)
    · rw [flush_isGac] at hh; cases hh
    · cases hh
  · simp only
    have h1 : ClosedX ({ p with metaCancelled := [], reqs := p.reqs.map fun (r : Req) => { r with inCancelled := false } } : Pool) :=
      h.of_eq rfl rfl rfl
    have H1 := cx_modOwn h1 (own.of_eq rfl) (fun x => { x with snapE := p.ended, snapC := p.cancelledR })
      (fun x => ⟨rfl, rfl, fun e => ⟨e, id⟩⟩)
    have H := cx_gatherStart H1.1 H1.2 (by intro e; cases e)
      (p.ended.map Child.task ++ p.cancelledR.map Child.task) re 0
    split
    · exact cx_flushAfter2 H.1 H.2 _
    · exact cx_setFrame H.1 H.2 _ (fun e => by cases e)

theorem cx_flushStage1 {p : Pool} {a : Nat} {r : Bool} (h : ClosedX p) (own : COwn p a (.flush r)) (re : Bool) :
    ClosedX (p.flushStage1 a re) := by
  unfold flushStage1
  simp only
  have h1 : ClosedX ({ p with reqs := p.reqs.map fun (r : Req) => if r.inRunning && r.outcome.isSome then { r with inRunning := false } else r } : Pool) :=
    h.of_eq rfl rfl rfl
  have H := cx_gatherStart h1 (own.of_eq rfl) (by intro e; cases e)
    (p.metaCancelled.map Child.spawner ++ (indicesWhere p.reqs fun r => r.inRunning && r.outcome.isSome).map Child.spawner) re
    (p.metaCancelled.map Child.spawner ++ (indicesWhere p.reqs fun r => r.inRunning && r.outcome.isSome).map Child.spawner).length
  split
  · exact cx_flushAfter1 H.1 H.2 _ _
  · exact cx_setFrame H.1 H.2 _ (fun e => by cases e)

/-- flagging calls changes neither kind, frame nor outcome of any record -/
theorem foldl_schedApi_fw (ws : List Nat) (p : Pool) (b : Nat) (A : Api) (hA : p.apis[b]? = some A) :
    ∃ B, (ws.foldl (fun p w => p.schedApi w) p).apis[b]? = some B ∧ B.kind = A.kind ∧ B.frame = A.frame ∧
      B.outcome = A.outcome := by
  induction ws generalizing p A with
  | nil => exact ⟨A, hA, rfl, rfl, rfl⟩
  | cons w ws ih =>
    have h1 : (p.schedApi w).apis[b]? = some (if w = b then { A with sched := true } else A) :=
      modApi_fw (fun x => { x with sched := true }) hA
    obtain ⟨B, hB, e1, e2, e3⟩ := ih (p.schedApi w) _ h1
    refine ⟨B, hB, ?_, ?_, ?_⟩
    · rw [e1]; split <;> rfl
    · rw [e2]; split <;> rfl
    · rw [e3]; split <;> rfl

/-- **the closing step**: the pool is closed, the waiters of the closing event are flagged, the `gather_and_close()`
returns normally -/
theorem cx_close {p : Pool} {a : Nat} {r : Bool} (h : ClosedX p) (own : COwn p a (.gac r)) (q0 : Pool)
    (h0a : q0.apis = p.apis) (h0c : q0.closed = true) (h0g : q0.gathers = p.gathers) (ws : List Nat) :
    ClosedX ((ws.foldl (fun p w => p.schedApi w) q0).finishApi a .ok) := by
  obtain ⟨e1, _, e3, _, _, _, _, _, _, hap⟩ := foldl_schedApi ws q0
  have hfw := foldl_schedApi_fw ws q0
  generalize ws.foldl (fun p w => p.schedApi w) q0 = q at e1 e3 hap hfw
  have hc : q.closed = true := e3.trans h0c
  obtain ⟨A, hA, hAo, hAk⟩ := own
  obtain ⟨Aq, hAq, k1, k2, k3⟩ := hfw a A (by rw [h0a]; exact hA)
  unfold finishApi
  refine ⟨?_, fun _ _ _ _ _ => hc, fun _ => ?_, fun _ _ _ _ _ => hc, fun _ _ _ _ _ => hc, ?_, ?_⟩
  · intro b B hB hfr
    rcases modApi_get hB with ⟨rfl, x, hx, rfl⟩ | ⟨_, hB⟩
    · cases hfr
    · obtain ⟨A', hA', k, f, _⟩ := hap b B hB
      rw [h0a] at hA'
      rw [k]; exact h.wk b A' hA' (f ▸ hfr)
  · refine ⟨a, _, modApi_fw _ hAq, ?_, ?_⟩
    · rw [if_pos rfl]
      show Aq.kind.isGac = true
      rw [k1, hAk]; rfl
    · rw [if_pos rfl]
  · intro b B hB ho
    rcases modApi_get hB with ⟨rfl, x, hx, rfl⟩ | ⟨_, hB⟩
    · rfl
    · obtain ⟨A', hA', _, f, o, _⟩ := hap b B hB
      rw [h0a] at hA'
      rw [f]; exact h.od b A' hA' (o ▸ ho)
  · intro g G hG
    have hG' : p.gathers[g]? = some G := by
      have : q.gathers[g]? = some G := hG
      rw [e1, h0g] at this; exact this
    obtain ⟨A', hA', hk'⟩ := h.go g G hG'
    obtain ⟨B, hB, kk, _, _⟩ := hfw G.owner A' (by rw [h0a]; exact hA')
    refine ⟨_, modApi_fw _ hB, ?_⟩
    split
    · show B.kind ≠ .untilClosed
      rw [kk]; exact hk'
    · rw [kk]; exact hk'

theorem cx_gacAfter2 {p : Pool} {a : Nat} {r : Bool} (h : ClosedX p) (own : COwn p a (.gac r)) (o : Outcome) :
    ClosedX (p.gacAfter2 a o) := by
  unfold gacAfter2
  split
  · simp only
    refine cx_close h own _ ?_ ?_ ?_ _ <;> rfl
  · rename_i hne
    refine cx_finishApi h own _ (fun _ ho => absurd ho (fun e => hne e)) (fun hh => ?_)
    cases hh

theorem cx_gacAfter1 {p : Pool} {a : Nat} {r : Bool} (h : ClosedX p) (own : COwn p a (.gac r)) (re : Bool) (g : Nat) :
    ClosedX (p.gacAfter1 a re g) := by
  unfold gacAfter1
  simp only
  split
  · refine cx_finishApi h own _ (fun _ ho => ?_) (fun hh => ?_)
    · cases ho
    · cases hh
  · have h1 : ClosedX ({ p with metaCancelled := [], reqs := p.reqs.map fun (r : Req) => { r with inCancelled := false, inRunning := false } } : Pool) :=
      h.of_eq rfl rfl rfl
    have H := cx_gatherStart h1 (own.of_eq rfl) (by intro e; cases e)
      (p.ended.map Child.task ++ p.cancelledR.map Child.task ++ p.running.map Child.task) re 0
    split
    · exact cx_gacAfter2 H.1 H.2 _
    · exact cx_setFrame H.1 H.2 _ (fun e => by cases e)

theorem cx_gacStage1 {p : Pool} {a : Nat} {r : Bool} (h : ClosedX p) (own : COwn p a (.gac r)) (re : Bool) :
    ClosedX (p.gacStage1 a re) := by
  unfold gacStage1
  simp only
  have h1 : ∀ amb : Bool, ClosedX ({ p with locked := true, ambiguous := amb } : Pool) := fun amb => h.of_eq rfl rfl rfl
  have H := fun amb => cx_gatherStart (h1 amb) (own.of_eq rfl) (by intro e; cases e)
    (p.metaCancelled.map Child.spawner ++ (indicesWhere p.reqs fun r => r.inRunning).map Child.spawner) true 0
  split
  · exact cx_gacAfter1 (H _).1 (H _).2 _ _
  · exact cx_setFrame (H _).1 (H _).2 _ (fun e => by cases e)

/-- `until_closed()` returns at once if the pool is closed; else it waits, unflagged -/
theorem cx_untilClosedStart {p : Pool} {a : Nat} (h : ClosedX p) (own : COwn p a .untilClosed)
    (hs : ∀ A, p.apis[a]? = some A → A.sched = false) : ClosedX (p.untilClosedStart a) := by
  unfold untilClosedStart
  split
  · rename_i hcl
    refine cx_finishApi h own _ (fun hh => ?_) (fun _ => hcl)
    rw [untilClosed_isGac] at hh; cases hh
  · have h1 : ClosedX ({ p with closedWaiters := p.closedWaiters ++ [a] } : Pool) := h.of_eq rfl rfl rfl
    refine h1.modApi a _ (fun x hx => ?_)
    obtain ⟨A, hA, ho, hk⟩ := own
    have hx' : p.apis[a]? = some x := hx
    rw [hA] at hx'; cases hx'
    refine ⟨rfl, fun _ => ⟨hk, fun hs' => ?_⟩, fun hg => ?_, fun _ ho' => ?_, fun h1 => ?_, fun ho' => ?_⟩
    · have h2 : x.sched = true := hs'
      rw [hs x hA] at h2; cases h2
    · rw [hk, untilClosed_isGac] at hg; cases hg
    · have h2 : x.outcome.isSome = true := ho'
      rw [ho] at h2; cases h2
    · rw [ho] at h1; cases h1
    · have h2 : x.outcome.isSome = true := ho'
      rw [ho] at h2; cases h2

/-! ### one step of a background call -/

/-- the remainder of a step of a background call, after its own flag was cleared (`A` is its record then) -/
theorem cx_stepApi_rest {p : Pool} {a : Nat} {A : Api} (h : ClosedX p) (hA : p.apis[a]? = some A)
    (hs : A.sched = false) (hw : A.frame = .waitClosed → p.closed = true) :
    ClosedX (match A.frame, A.kind with
      | .done, _ => p
      | .notStarted, .flush re => p.flushStage1 a re
      | .notStarted, .gac re => p.gacStage1 a re
      | .notStarted, .untilClosed => p.untilClosedStart a
      | .waitClosed, _ => p.finishApi a .ok
      | .gather1 g, .flush re => match p.gatherOuter g with | some o => p.flushAfter1 a re o | none => p
      | .gather1 g, .gac re => match p.gatherOuter g with | some _ => p.gacAfter1 a re g | none => p
      | .gather2 g, .flush _ => match p.gatherOuter g with | some o => p.flushAfter2 a o | none => p
      | .gather2 g, .gac _ => match p.gatherOuter g with | some o => p.gacAfter2 a o | none => p
      | _, _ => p) := by
  have own : A.frame ≠ .done → COwn p a A.kind := by
    intro hf
    refine ⟨A, hA, ?_, rfl⟩
    cases ho : A.outcome with
    | none => rfl
    | some o => exact absurd (h.od a A hA (by simp [ho])) hf
  split
  · exact h
  · rename_i re hf hk
    exact cx_flushStage1 (r := re) h (hk ▸ own (by rw [hf]; intro e; cases e)) re
  · rename_i re hf hk
    exact cx_gacStage1 (r := re) h (hk ▸ own (by rw [hf]; intro e; cases e)) re
  · rename_i hf hk
    exact cx_untilClosedStart h (hk ▸ own (by rw [hf]; intro e; cases e))
      (fun B hB => by rw [hA] at hB; cases hB; exact hs)
  · rename_i hf
    exact cx_finishApi h (own (by rw [hf]; intro e; cases e)) _ (fun _ _ => hw hf) (fun _ => hw hf)
  · rename_i g re hf hk
    split
    · exact cx_flushAfter1 (r := re) h (hk ▸ own (by rw [hf]; intro e; cases e)) re _
    · exact h
  · rename_i g re hf hk
    split
    · exact cx_gacAfter1 (r := re) h (hk ▸ own (by rw [hf]; intro e; cases e)) re _
    · exact h
  · rename_i g re hf hk
    split
    · exact cx_flushAfter2 (r := re) h (hk ▸ own (by rw [hf]; intro e; cases e)) _
    · exact h
  · rename_i g re hf hk
    split
    · exact cx_gacAfter2 (r := re) h (hk ▸ own (by rw [hf]; intro e; cases e)) _
    · exact h
  · exact h

theorem cx_stepApi {p : Pool} (h : ClosedX p) (a : Nat) : ClosedX (p.stepApi a) := by
  unfold stepApi
  split
  · exact h
  · rename_i A hA
    split
    · exact h
    · rename_i hs
      simp only
      have hsched : A.sched = true := by simpa using hs
      have h1 : ClosedX (p.modApi a fun x => { x with sched := false }) := cx_unsched h a
      have hA1 : (p.modApi a fun x => { x with sched := false }).apis[a]? = some { A with sched := false } := by
        simp [modApi, hA]
      exact cx_stepApi_rest (A := { A with sched := false }) h1 hA1 rfl (fun hf => h.ws a A hA hf hsched)

/-! ### every handle, every operation -/

theorem cx_runRef {p : Pool} (h : ClosedX p) (r : Ref) : ClosedX (p.runRef r) := by
  cases r with
  | task t => exact h.afr0 (afr_stepTask p t)
  | spawner m => exact h.afr0 (afr_stepMeta p m)
  | api a => exact cx_stepApi h a
  | gchild g i => exact cx_gatherChildDone h g i true

/-- a new background call: not started, no outcome -/
theorem cx_addApi {p : Pool} (h : ClosedX p) (k : ApiKind) : ClosedX (p.addApi k) := by
  unfold addApi
  simp only
  refine ClosedX.of_eq (p := ({ p with apis := p.apis ++ [{ kind := k, frame := .notStarted, sched := true, outcome := none }] } : Pool))
    ?_ rfl rfl rfl
  have fw : ∀ (b : Nat) (B : Api), p.apis[b]? = some B →
      (p.apis ++ [({ kind := k, frame := .notStarted, sched := true, outcome := none } : Api)])[b]? = some B := by
    intro b B hB
    rw [List.getElem?_append_left (List.getElem?_eq_some_iff.mp hB).1]; exact hB
  refine ⟨?_, ?_, ?_, ?_, ?_, ?_, ?_⟩
  · intro b B hB hf
    rcases append_get (l := p.apis) hB with hB | ⟨_, rfl⟩
    · exact h.wk b B hB hf
    · cases hf
  · intro b B hB hk ho
    rcases append_get (l := p.apis) hB with hB | ⟨_, rfl⟩
    · exact h.gc b B hB hk ho
    · cases ho
  · intro hc
    obtain ⟨b, B, hB, r⟩ := h.cg hc
    exact ⟨b, B, fw b B hB, r⟩
  · intro b B hB hk ho
    rcases append_get (l := p.apis) hB with hB | ⟨_, rfl⟩
    · exact h.uc b B hB hk ho
    · cases ho
  · intro b B hB hf hs
    rcases append_get (l := p.apis) hB with hB | ⟨_, rfl⟩
    · exact h.ws b B hB hf hs
    · cases hf
  · intro b B hB ho
    rcases append_get (l := p.apis) hB with hB | ⟨_, rfl⟩
    · exact h.od b B hB ho
    · cases ho
  · intro g G hG
    obtain ⟨A, hA, hk⟩ := h.go g G hG
    exact ⟨A, fw _ A hA, hk⟩

theorem cx_applyOp {p : Pool} (h : ClosedX p) (op : Op) : ClosedX (p.applyOp op).1 := by
  cases op <;> simp only [applyOp]
  · exact h.afr0 (afr_doApply p _ _ _)
  · exact h.afr0 (afr_doMap p _ _ _ _ _)
  · exact h.afr0 (afr_doStart p _)
  · exact h.afr0 (afr_doStop p _)
  · exact h.afr0 (afr_doStop p _)
  · exact h.afr0 (afr_doCancel p _)
  · exact h.afr0 (afr_doCancelGroup p _)
  · exact h.afr0 (afr_doCancelAll p)
  · exact h.afr0 (afr_doLock p)
  · exact h.afr0 (afr_doUnlock p)
  · exact h.afr0 (afr_doSetSize p _)
  · exact h
  · exact cx_addApi h _
  · exact cx_addApi h _
  · exact cx_addApi h _
  · exact h.afr0 (afr_doGate p _ _)

theorem cx_init (size : Cap) (simple : Option SpawnSpec) : ClosedX (Pool.init size simple) := by
  refine ⟨?_, ?_, ?_, ?_, ?_, ?_, ?_⟩ <;> simp [Pool.init]

/-- **a pool is closed exactly when a `gather_and_close()` call has returned normally** — the walking invariant
`ClosedX` (which implies `ClosedOK`: `ClosedX.ok`) is established by the constructor and preserved by every operation
and every handle -/
theorem closedInvariant : PoolInvariant (fun _ p => ClosedX p) allOps where
  init := fun c simple _ => cx_init c.size0 simple
  op := by
    intro c p orders o _ h
    exact cx_applyOp (h.of_eq (q := ({ p with orders := orders } : Pool)) rfl rfl rfl) o
  run := by
    intro c p orders r h
    exact cx_runRef (h.of_eq (q := ({ p with orders := orders } : Pool)) rfl rfl rfl) r
  drain := by
    intro c p h
    exact h.of_eq (q := ({ p with emit := [] } : Pool)) rfl rfl rfl

end Pool

/-- in every pool of every reachable world, after every history -/
theorem World.closedX_run (base : Nat) (h : History) (i : Nat) (c : Cfg) (p : Pool)
    (hc : ((World.init base).run h).cfgs[i]? = some c) (hp : ((World.init base).run h).pools[i]? = some p) : p.ClosedX :=
  (World.reachable Pool.closedInvariant base h (fun x _ => by cases x <;> rfl)).inv i c p hc hp

/-- **a pool is closed exactly when a `gather_and_close()` call has returned normally**, for every history -/
theorem World.closed_run (base : Nat) (h : History) (i : Nat) (c : Cfg) (p : Pool)
    (hc : ((World.init base).run h).cfgs[i]? = some c) (hp : ((World.init base).run h).pools[i]? = some p) : p.ClosedOK :=
  (World.closedX_run base h i c p hc hp).ok

end Taskpool
