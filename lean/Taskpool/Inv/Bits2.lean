import Taskpool.Inv.Tame
import Taskpool.Inv.Want
import Taskpool.Inv.Seal
import Taskpool.Inv.EndOK
import Taskpool.Inv.Emptied
import Taskpool.Inv.Elem
import Taskpool.Inv.Blame
import Taskpool.Model.Bits
/-! Boolean versions of the invariants of `Inv/Tame.lean`, evaluated by the driver on every model state the
implementation was just shown to agree with.  They restate the `Prop` definitions clause by clause; they are a
cross-check of the proved invariants against the states actually reached, not a proof obligation. -/
namespace Taskpool

def okB (lost : Bool) (s : SoftP) : Bool :=
  (s.released || s.nEC == 0) && s.nEC ≤ 1 && s.nCC ≤ 1 &&
  (!(s.phase == .created || s.phase == .inWorker) || (s.nCC == 0 && !s.wasCancelled)) &&
  (s.nCC != 1 || s.wasCancelled) &&
  (s.phase != .inCancelCb || (s.nCC == 1 && s.cancelCb == .coro)) &&
  (s.phase != .inEndCb || (s.nEC == 1 && s.endCb == .coro && s.released)) &&
  (!(s.nEC == 1 && s.wasCancelled && s.cancelCb != .none) || s.nCC == 1) &&
  (s.cancelCb != .none || s.nCC == 0) && (s.endCb != .none || s.nEC == 0) &&
  (!(s.phase == .finished && !lost) ||
    (s.released && s.nEC == (if s.endCb == .none then 0 else 1) &&
     (!s.wasCancelled || s.nCC == (if s.cancelCb == .none then 0 else 1)) && (s.wasCancelled || s.nCC == 0))) &&
  s.nSaw ≤ 1 && (!(s.phase == .created || s.phase == .inWorker) || s.nSaw == 0) &&
  (!(s.isMap && !s.released) || s.mapHeld)

def Pool.lifeBit (p : Pool) : Bool := p.tasks.all fun t => okB p.lost t.soft

def nodupB (l : List Nat) : Bool := l.eraseDups.length == l.length

def Pool.regBit (p : Pool) : Bool :=
  nodupB (p.running ++ p.cancelledR ++ p.ended) &&
  (p.running.all fun t => match p.tasks[t]? with | some tk => !tk.released | none => false) &&
  (p.cancelledR.all fun t => match p.tasks[t]? with
    | some tk => !tk.released && tk.phase != .created && tk.phase != .inWorker | none => false) &&
  (p.ended.all fun t => match p.tasks[t]? with | some tk => tk.released | none => false) &&
  (p.lost || p.tasks.zipIdx.all fun (tk, t) => tk.released || p.running.contains t || p.cancelledR.contains t)

def Pool.groupsBit (p : Pool) : Bool :=
  nodupB (flat p.groups) && (flat p.groups).all fun i => i < p.tasks.length

def Sem.wakeB (s : Sem) : Bool :=
  match s.value with
  | .fin v => v == 0 || grantsL s.waiters != 0 || s.waiters.all fun w => w.st != .pending
  | .inf => true

def Pool.mapBit (p : Pool) : Bool :=
  (p.tasks.all fun t => !t.mapHeld || t.req < p.reqs.length) &&
  p.reqs.zipIdx.all fun (r, m) =>
    (match r.mapSem.value with
     | .fin v => v + heldM p.tasks m + grantsL r.mapSem.waiters + r.pend ≤ r.nc &&
                 (r.outcome.isSome || v + heldM p.tasks m + grantsL r.mapSem.waiters + r.pend == r.nc)
     | .inf => false) &&
    r.mapSem.wakeB &&
    (!(r.kind == .map && r.frame == .waitRoom) || r.acquired)

def accReqB (c : Cnt) (fr : MFrame) : Bool :=
  (c.kind != .apply || (c.created + c.skipped + c.remaining == c.n0 && (fr != .waitRoom || 1 ≤ c.remaining) && fr != .waitMapSem)) &&
  (c.kind != .map || (c.pulled + c.left == c.n0 && c.created + c.skipped ≤ c.pulled && c.pulled ≤ c.created + c.skipped + 1 &&
     (!(fr == .waitRoom || fr == .waitMapSem) || c.pulled == c.created + c.skipped + 1) &&
     (fr != .notStarted || c.pulled == c.created + c.skipped)))

def Pool.accBit (p : Pool) : Bool :=
  (p.tasks.all fun t => t.req < p.reqs.length) &&
  p.reqs.zipIdx.all fun (r, m) => tasksOf p.tasks m == r.created && accReqB r.cnt r.frame

def Pool.flushBit (p : Pool) : Bool :=
  (p.gathers.all fun G => G.outer != some .ok || G.children.all fun c =>
      match c with
      | .task t => (match p.tasks[t]? with | some tk => tk.phase == .finished | none => false)
      | .spawner _ => true) &&
  (p.apis.all fun A => match A.frame with
    | .gather2 g => A.kind.isGac || (match p.gathers[g]? with
        | some G => A.snapC.all fun t => G.children.contains (.task t)
        | none => false)
    | _ => true)

def Pool.wakeBit (p : Pool) : Bool := p.resized || p.sem.wakeB

def ownCancelledB (m : Nat) (ws : List Waiter) : Bool := (removeWaiterL m ws).1 == some .cancelled

/-- `CancOK`: a spawner with a cancellation snapshot has not moved since and is over or doomed -/
def Pool.cancBit (p : Pool) : Bool :=
  p.reqs.zipIdx.all fun (r, m) =>
    match r.cancelSnap with
    | none => true
    | some (c, u) => r.created == c && r.pulled == u &&
        (r.frame == .done || r.mustCancel || (r.frame == .waitRoom && ownCancelledB m p.sem.waiters) ||
         (r.frame == .waitMapSem && ownCancelledB m r.mapSem.waiters))

/-- a snapshot, once taken, is never changed by the step `p → p'` -/
def snapKeptBit (p p' : Pool) : Bool :=
  p.reqs.zipIdx.all fun (r, m) =>
    r.cancelSnap.isNone || (match p'.reqs[m]? with | some r' => r'.cancelSnap == r.cancelSnap | none => false)

/-- a spawner that is filed as cancelled, has no outcome and is not inside its own handle has a snapshot — unless it
was cancelled from inside its own handle (frame `running` then), which the ghost does not record -/
def Pool.snapTakenBit (p p' : Pool) (fromCaller : Bool) : Bool :=
  p'.reqs.zipIdx.all fun (r', m) =>
    match p.reqs[m]? with
    | some r => !(r'.inCancelled && !r.inCancelled && r.outcome.isNone && r.frame != .running && r.frame != .done &&
                  (fromCaller || !r.sched)) ||
                r'.cancelSnap.isSome
    | none => true

/-- nine bits per pool, pools separated by `.`: slot, phase, not-lost, registries, life cycle + groups, map books,
accounting, flush, wake-up -/
def invBits2 (w : World) : String :=
  "v2:" ++ ".".intercalate (w.pools.zipIdx.map fun (p, i) =>
    let b (x : Bool) := if x then "1" else "0"
    b (p.slotBit ((w.cfgs[i]?.map (·.size0)).getD .inf)) ++ b p.phaseBit ++ b (!p.lost) ++ b p.regBit ++
    b (p.lifeBit && p.groupsBit) ++ b p.mapBit ++ b p.accBit ++ b p.flushBit ++ b p.wakeBit)

/-- `Pool.Want` (nobody exempt), clause by clause -/
def Pool.wantBit (p : Pool) : Bool :=
  (p.tasks.all fun k => (k.quiet || k.sched) && k.phase != .wrapUp && (k.phase != .finished || k.outcome.isSome)) &&
  (p.reqs.zipIdx.all fun (r, m) =>
    (r.outcome.isSome || ((r.frame != .notStarted || r.sched) && r.frame != .running && r.frame != .done)) &&
    (r.outcome.isNone || r.frame == .done) &&
    (!(r.outcome.isNone && r.frame == .waitRoom) || (owners p.sem.waiters).contains m) &&
    r.mapSem.waiters.length ≤ 1 &&
    (r.mapSem.waiters.all fun w => w.owner == m && r.frame == .waitMapSem && r.outcome.isNone && (w.st == .pending || r.sched)) &&
    (!(r.outcome.isNone && r.frame == .waitMapSem) || !r.mapSem.waiters.isEmpty)) &&
  nodupB (owners p.sem.waiters) &&
  (p.sem.waiters.all fun w => match p.reqs[w.owner]? with
    | some r => r.frame == .waitRoom && r.outcome.isNone && (w.st == .pending || r.sched)
    | none => false)

/-- `World.SchedOK` between two inputs: whoever is flagged has a handle in the loop's ready queue -/
def World.schedBit (w : World) (i : Nat) (p : Pool) : Bool :=
  (p.tasks.zipIdx.all fun (k, t) => !k.sched || w.ready.contains (i, .task t)) &&
  (p.reqs.zipIdx.all fun (r, m) => !r.sched || w.ready.contains (i, .spawner m)) &&
  (p.apis.zipIdx.all fun (a, j) => !a.sched || w.ready.contains (i, .api j))

/-- sixteen bits per pool (the last two: `Pool.Seal` and `Pool.EndFiled`, meaningful as long as nobody has called `unlock()`): the nine of `invBits2` on the state after the step, then: cancelled spawners stopped
(`CancOK`), no snapshot changed by this step, every spawner this step filed as cancelled (from outside its own handle)
has a snapshot (`fromCaller`: the step was a call from outside the loop, so no spawner was inside its own handle; otherwise
a spawner that was due to run is not examined); then `Want` and `SchedOK` (whoever has something to do is flagged,
whoever is flagged has a handle in the ready queue) -/
def invBits3 (w w' : World) (fromCaller : Bool) : String :=
  "v2:" ++ ".".intercalate (w'.pools.zipIdx.map fun (p', i) =>
    let b (x : Bool) := if x then "1" else "0"
    let p := w.pools[i]?.getD p'
    b (p'.slotBit ((w'.cfgs[i]?.map (·.size0)).getD .inf)) ++ b p'.phaseBit ++ b (!p'.lost) ++ b p'.regBit ++
    b (p'.lifeBit && p'.groupsBit) ++ b p'.mapBit ++ b p'.accBit ++ b p'.flushBit ++ b p'.wakeBit ++
    b p'.cancBit ++ b (snapKeptBit p p') ++ b (p.snapTakenBit p' fromCaller) ++ b p'.wantBit ++ b (w'.schedBit i p') ++
    b p'.sealBit ++ b p'.endBit ++ b p'.emptiedBit ++ b p'.elemBit ++ b p'.blameBit)

end Taskpool
