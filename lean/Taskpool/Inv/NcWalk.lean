import Taskpool.Inv.Lift
/-! `NcOK`: a map-style request was given `num_concurrent ≥ 1`.  Valid for ALL histories: `kind` and the ghost `nc` of a
request are written by `newReq` only (`doApply` / `doStart`: kind `apply`; `doMap`: rejects `nc < 1`), every other step
function rewrites requests through `modReq m f` / `reqs.map f` with record updates `f` of other fields (`KeepsNc f`), and
requests are only ever appended.  The walk shows `NcOK p → NcOK (step p)` for every model function, bottom-up. -/
namespace Taskpool
namespace Pool

/-- a map-style request was given `num_concurrent ≥ 1` (`map` rejects anything else) -/
def NcOK (p : Pool) : Prop := ∀ (m : Nat) (r : Req), p.reqs[m]? = some r → r.kind = .map → 1 ≤ r.nc

/-- a rewrite of a request that leaves `kind` and `nc` alone -/
def KeepsNc (f : Req → Req) : Prop := ∀ x, (f x).kind = x.kind ∧ (f x).nc = x.nc

theorem NcOK.of_reqs {p q : Pool} (h : NcOK p) (e : q.reqs = p.reqs) : NcOK q := by
  intro m r hr; rw [e] at hr; exact h m r hr

theorem nc_getElem?_modify_some {α} (l : List α) (t i : Nat) (f : α → α) (y : α) (h : (l.modify t f)[i]? = some y) :
    ∃ x, l[i]? = some x ∧ (y = f x ∨ y = x) := by
  rw [List.getElem?_modify] at h
  cases hx : l[i]? with
  | none => simp [hx] at h
  | some x =>
    simp [hx] at h
    refine ⟨x, rfl, ?_⟩
    split at h
    · exact Or.inl h.symm
    · exact Or.inr h.symm

theorem NcOK.of_modify {p q : Pool} (h : NcOK p) (m : Nat) (f : Req → Req) (e : q.reqs = p.reqs.modify m f)
    (hf : KeepsNc f) : NcOK q := by
  intro i r' hr hk
  rw [e] at hr
  obtain ⟨x, hx, e2 | e2⟩ := nc_getElem?_modify_some _ _ _ _ _ hr
  · subst e2
    rw [(hf x).2]
    exact h i x hx (by rw [← (hf x).1]; exact hk)
  · subst e2; exact h i r' hx hk

theorem NcOK.of_map {p q : Pool} (h : NcOK p) (f : Req → Req) (e : q.reqs = p.reqs.map f) (hf : KeepsNc f) : NcOK q := by
  intro i r' hr hk
  rw [e, List.getElem?_map] at hr
  cases hx : p.reqs[i]? with
  | none => simp [hx] at hr
  | some x =>
    simp [hx] at hr
    subst hr
    rw [(hf x).2]
    exact h i x hx (by rw [← (hf x).1]; exact hk)

theorem NcOK.of_append {p q : Pool} (h : NcOK p) (r : Req) (e : q.reqs = p.reqs ++ [r]) (hr : r.kind = .map → 1 ≤ r.nc) :
    NcOK q := by
  intro i r' hi hk
  rw [e, List.getElem?_append] at hi
  split at hi
  · exact h i r' hi hk
  · cases hj : i - p.reqs.length with
    | zero => rw [hj] at hi; simp at hi; subst hi; exact hr hk
    | succ j => rw [hj] at hi; simp at hi

theorem snapReq_keepsNc (x : Req) : (snapReq x).kind = x.kind ∧ (snapReq x).nc = x.nc := by
  unfold snapReq
  split <;> exact ⟨rfl, rfl⟩

/-- a record update that keeps `reqs`: `simp only [ncok_mk]` strips it (the lemma is keyed on the constructor, so it
fires on record updates only) -/
theorem ncok_mk (x : Pool) (simple : Option SpawnSpec) (startCalls : Nat) (sem : Sem) (locked closed : Bool)
    (tasks : List PTask) (groups : List (String × List Nat)) (running cancelledR ended metaCancelled : List Nat)
    (apis : List Api) (gathers : List Gather) (closedWaiters : List Nat) (emit : List Ref) (log : List Ev)
    (names : List String) (orders : List (List Nat)) (ambiguous lost resized : Bool) :
    NcOK { simple := simple, startCalls := startCalls, sem := sem, locked := locked, closed := closed, tasks := tasks,
           reqs := x.reqs, groups := groups, running := running, cancelledR := cancelledR, ended := ended,
           metaCancelled := metaCancelled, apis := apis, gathers := gathers, closedWaiters := closedWaiters, emit := emit,
           log := log, names := names, orders := orders, ambiguous := ambiguous, lost := lost, resized := resized } ↔
    NcOK x := Iff.rfl

/-- side goals `KeepsNc f` for the rewrites the model uses -/
macro "nc_keeps" : tactic =>
  `(tactic| first
    | exact fun _ => ⟨rfl, rfl⟩
    | exact fun _ => snapReq_keepsNc _
    | (intro x; dsimp only; split <;> exact ⟨rfl, rfl⟩))

open Lean in
/-- backward chaining through the given step lemmas, splitting `if` / `match` where stuck; struct updates of other fields
are closed by `assumption` up to unfolding -/
macro "ncw" "[" ls:term,* "]" : tactic => do
  let alts ← ls.getElems.mapM fun l => `(tactic| with_reducible apply $l)
  `(tactic| repeat' (first | with_reducible assumption $[| $alts:tactic]* | simp only [ncok_mk] | nc_keeps | split | dsimp only | assumption))

/-! ### plumbing -/

theorem ncok_modTask (p : Pool) (t : Nat) (f : PTask → PTask) (h : NcOK p) : NcOK (p.modTask t f) := h.of_reqs rfl
theorem ncok_modApi (p : Pool) (a : Nat) (f : Api → Api) (h : NcOK p) : NcOK (p.modApi a f) := h.of_reqs rfl
theorem ncok_modGather (p : Pool) (g : Nat) (f : Gather → Gather) (h : NcOK p) : NcOK (p.modGather g f) := h.of_reqs rfl
theorem ncok_emitRef (p : Pool) (r : Ref) (h : NcOK p) : NcOK (p.emitRef r) := h.of_reqs rfl
theorem ncok_logEv (p : Pool) (e : Ev) (h : NcOK p) : NcOK (p.logEv e) := h.of_reqs rfl

theorem ncok_modReq (p : Pool) (m : Nat) (f : Req → Req) (hf : KeepsNc f) (h : NcOK p) : NcOK (p.modReq m f) :=
  h.of_modify m f rfl hf

theorem ncok_foldl {α} (f : Pool → α → Pool) (hf : ∀ p a, NcOK p → NcOK (f p a)) (l : List α) (p : Pool) (h : NcOK p) :
    NcOK (l.foldl f p) := by
  induction l generalizing p with
  | nil => exact h
  | cons a as ih => exact ih _ (hf p a h)

theorem ncok_schedTask (p : Pool) (t : Nat) (h : NcOK p) : NcOK (p.schedTask t) := h.of_reqs rfl
theorem ncok_schedApi (p : Pool) (a : Nat) (h : NcOK p) : NcOK (p.schedApi a) := h.of_reqs rfl

theorem ncok_schedMeta (p : Pool) (m : Nat) (h : NcOK p) : NcOK (p.schedMeta m) := by
  unfold schedMeta
  ncw [ncok_emitRef, ncok_modReq]

theorem ncok_schedOpt (p : Pool) (o : Option Nat) (h : NcOK p) : NcOK (p.schedOpt o) := by
  unfold schedOpt
  ncw [ncok_schedMeta]

theorem ncok_emitChildren (p : Pool) (cbs : List (Nat × Nat)) (h : NcOK p) : NcOK (p.emitChildren cbs) :=
  ncok_foldl _ (fun p _ h => ncok_emitRef p _ h) cbs p h

theorem ncok_releasePool (p : Pool) (h : NcOK p) : NcOK p.releasePool := by
  unfold releasePool
  ncw [ncok_schedOpt]

theorem ncok_releaseMap (p : Pool) (m : Nat) (h : NcOK p) : NcOK (p.releaseMap m) := by
  unfold releaseMap
  ncw [ncok_schedOpt, ncok_modReq]

theorem ncok_taskCancel (p : Pool) (t : Nat) (h : NcOK p) : NcOK (p.taskCancel t) := by
  unfold taskCancel
  ncw [ncok_schedTask, ncok_modTask]

theorem ncok_cancelTask (p : Pool) (t : Nat) (h : NcOK p) : NcOK (p.cancelTask t) := by
  unfold cancelTask
  ncw [ncok_taskCancel, ncok_modTask]

theorem ncok_metaCancel (p : Pool) (m : Nat) (h : NcOK p) : NcOK (p.metaCancel m) := by
  unfold metaCancel
  ncw [ncok_schedMeta, ncok_modReq]

/-- the plumbing lemmas, plus the ones given -/
macro "nc1" "[" ls:term,* "]" : tactic =>
  `(tactic| ncw [ncok_modTask, ncok_modApi, ncok_modGather, ncok_emitRef, ncok_logEv, ncok_modReq, ncok_schedTask,
    ncok_schedApi, ncok_schedMeta, ncok_schedOpt, ncok_emitChildren, ncok_releasePool, ncok_releaseMap, ncok_taskCancel,
    ncok_cancelTask, ncok_metaCancel, $ls,*])

/-! ### synchronous API: the only place where `kind` / `nc` are written -/

theorem ncok_register (p : Pool) (r : Req) (hr : r.kind = .map → 1 ≤ r.nc) (h : NcOK p) : NcOK (p.register r) :=
  h.of_append r rfl hr

theorem ncok_doApply (p : Pool) (num : Int) (group : Option String) (sp : SpawnSpec) (h : NcOK p) :
    NcOK (p.doApply num group sp).1 := by
  unfold doApply
  nc1 [ncok_register]
  all_goals (intro e; cases e)

/-- `map` rejects `num_concurrent < 1` -/
theorem ncok_doMap (p : Pool) (stars : Nat) (items : List Item) (nc : Int) (group : Option String) (sp : SpawnSpec)
    (h : NcOK p) : NcOK (p.doMap stars items nc group sp).1 := by
  unfold doMap
  nc1 [ncok_register]
  all_goals (intro _; show 1 ≤ nc.toNat; omega)

theorem ncok_doStart (p : Pool) (num : Int) (h : NcOK p) : NcOK (p.doStart num).1 := by
  unfold doStart
  split
  · exact h
  · split
    · exact h
    · exact ncok_register _ _ (fun e => by cases e) (h.of_reqs rfl)

theorem ncok_doCancel (p : Pool) (ids : List Int) (h : NcOK p) : NcOK (p.doCancel ids).1 := by
  unfold doCancel
  split
  · exact h
  · exact ncok_foldl _ (fun p _ h => ncok_cancelTask p _ h) ids p h

theorem ncok_doStop (p : Pool) (n : Int) (h : NcOK p) : NcOK (p.doStop n).1 := by
  unfold doStop
  split
  · exact h
  · exact ncok_doCancel p _ h

theorem ncok_popOrder (p : Pool) (h : NcOK p) : NcOK p.popOrder.1 := by
  unfold popOrder
  split
  · exact h
  · exact h.of_reqs rfl

theorem ncok_cancelGroupMetas (p : Pool) (g : String) (h : NcOK p) : NcOK (p.cancelGroupMetas g) := by
  unfold cancelGroupMetas
  dsimp only
  refine NcOK.of_map (ncok_foldl _ (fun p m h => ncok_metaCancel p m h) _ p h) _ rfl ?_
  nc_keeps

theorem ncok_cancelGroupBody (p : Pool) (g : String) (ids order : List Nat) (h : NcOK p) (q : Pool)
    (e : p.cancelGroupBody g ids order = some q) : NcOK q := by
  unfold cancelGroupBody at e
  dsimp only at e
  split at e
  · cases e
  · cases e
    exact ncok_foldl _ (fun p t h => ncok_cancelTask p t h) _ _ (ncok_cancelGroupMetas p g h)

theorem ncok_doCancelGroup (p : Pool) (g : String) (h : NcOK p) : NcOK (p.doCancelGroup g).1 := by
  unfold doCancelGroup
  split
  · exact h
  · dsimp only
    split
    · exact h
    · rename_i p2 e
      refine ncok_cancelGroupBody _ g _ _ ?_ p2 e
      exact (ncok_popOrder p h).of_reqs rfl

theorem ncok_cancelAllLoop (gs : List (String × List Nat)) (order : List Nat) (p : Pool) (h : NcOK p) (q : Pool)
    (e : cancelAllLoop gs order p = some q) : NcOK q := by
  induction gs generalizing p with
  | nil => unfold cancelAllLoop at e; cases e; exact h
  | cons x xs ih =>
    obtain ⟨g, ids⟩ := x
    unfold cancelAllLoop at e
    split at e
    · cases e
    · rename_i p1 e1
      exact ih p1 (ncok_cancelGroupBody p g ids order h p1 e1) e

theorem ncok_doCancelAll (p : Pool) (h : NcOK p) : NcOK p.doCancelAll.1 := by
  unfold doCancelAll
  dsimp only
  split
  · exact h
  · rename_i p2 e
    refine ncok_cancelAllLoop _ _ _ ?_ p2 e
    exact (ncok_popOrder p h).of_reqs rfl

theorem ncok_doSetSize (p : Pool) (v : Int) (h : NcOK p) : NcOK (p.doSetSize v).1 := by
  unfold doSetSize
  split
  · exact h
  · exact h.of_reqs rfl

theorem ncok_doHook (p : Pool) (ctx : Nat) (o : HookOp) (h : NcOK p) : NcOK (p.doHook ctx o).1 := by
  unfold doHook
  nc1 [ncok_doCancel, ncok_doCancelGroup, ncok_doCancelAll, ncok_doStop, ncok_doApply]

theorem ncok_runHooks (p : Pool) (ctx : Nat) (hs : List HookOp) (h : NcOK p) : NcOK (p.runHooks ctx hs) :=
  ncok_foldl _ (fun p o h => ncok_logEv _ _ (ncok_doHook p ctx o h)) hs p h

/-- plumbing and the synchronous API, plus the lemmas given -/
macro "nc2" "[" ls:term,* "]" : tactic =>
  `(tactic| nc1 [ncok_doCancel, ncok_doCancelGroup, ncok_doCancelAll, ncok_doStop, ncok_doApply, ncok_doHook,
    ncok_runHooks, $ls,*])

/-! ### the wrapper of a pool task -/

theorem ncok_completeTask (p : Pool) (t : Nat) (o : Outcome) (h : NcOK p) : NcOK (p.completeTask t o) := by
  unfold completeTask
  nc2 []

theorem ncok_finishTask (p : Pool) (t : Nat) (h : NcOK p) : NcOK (p.finishTask t) := by
  unfold finishTask
  split
  · exact h
  · exact ncok_completeTask p t _ h

theorem ncok_suspendTask (p : Pool) (t : Nat) (ph : Phase) (h : NcOK p) : NcOK (p.suspendTask t ph) := by
  unfold suspendTask
  nc2 []

theorem ncok_cbBegin (p : Pool) (t : Nat) (tk : PTask) (isEnd : Bool) (h : NcOK p) : NcOK (p.cbBegin t tk isEnd) := by
  unfold cbBegin
  dsimp only
  exact ncok_runHooks _ _ _ (ncok_logEv _ _ (ncok_modTask p t _ h))

theorem ncok_runCb (p : Pool) (t : Nat) (tk : PTask) (isEnd : Bool) (h : NcOK p) : NcOK (p.runCb t tk isEnd).1 := by
  unfold runCb
  nc2 [ncok_cbBegin, ncok_suspendTask]

theorem ncok_moveToEnded (p : Pool) (t : Nat) (h : NcOK p) (q : Pool) (e : p.moveToEnded t = some q) : NcOK q := by
  unfold moveToEnded at e
  split at e
  · cases e; exact h.of_reqs rfl
  · split at e
    · cases e; exact h.of_reqs rfl
    · cases e

theorem ncok_releaseMapSlot (p : Pool) (t : Nat) (tk : PTask) (h : NcOK p) : NcOK (p.releaseMapSlot t tk) := by
  unfold releaseMapSlot
  nc2 []

theorem ncok_endCallback (p : Pool) (t : Nat) (tk : PTask) (h : NcOK p) : NcOK (p.endCallback t tk) := by
  unfold endCallback
  nc2 [ncok_runCb, ncok_releaseMapSlot, ncok_finishTask]

theorem ncok_endingTail (p : Pool) (t : Nat) (tk : PTask) (h : NcOK p) : NcOK (p.endingTail t tk) := by
  unfold endingTail
  nc2 [ncok_endCallback]

theorem ncok_keyErrorFinish (p : Pool) (t : Nat) (h : NcOK p) : NcOK (p.keyErrorFinish t) := by
  unfold keyErrorFinish
  nc2 [ncok_finishTask]

theorem ncok_taskEnding (p : Pool) (t : Nat) (h : NcOK p) : NcOK (p.taskEnding t) := by
  unfold taskEnding
  split
  · exact h
  · split
    · exact ncok_keyErrorFinish p t h
    · rename_i p1 e
      exact ncok_endingTail p1 t _ (ncok_moveToEnded p t h p1 e)

theorem ncok_cancelCallback (p : Pool) (t : Nat) (tk : PTask) (h : NcOK p) : NcOK (p.cancelCallback t tk) := by
  unfold cancelCallback
  nc2 [ncok_runCb, ncok_taskEnding]

theorem ncok_taskCancellation (p : Pool) (t : Nat) (tk : PTask) (h : NcOK p) : NcOK (p.taskCancellation t tk) := by
  unfold taskCancellation
  nc2 [ncok_cancelCallback, ncok_taskEnding]

theorem ncok_afterWorker (p : Pool) (t : Nat) (e : Option Err) (h : NcOK p) : NcOK (p.afterWorker t e) := by
  unfold afterWorker
  nc2 [ncok_taskEnding]

theorem ncok_stepCreated (p : Pool) (t : Nat) (tk : PTask) (h : NcOK p) : NcOK (p.stepCreated t tk) := by
  unfold stepCreated
  nc2 [ncok_taskCancellation, ncok_afterWorker, ncok_suspendTask]

theorem ncok_workerCancelled (p : Pool) (t : Nat) (tk : PTask) (h : NcOK p) : NcOK (p.workerCancelled t tk) := by
  unfold workerCancelled
  nc2 [ncok_taskCancellation, ncok_afterWorker, ncok_suspendTask]

theorem ncok_workerNext (p : Pool) (t : Nat) (tk : PTask) (h : NcOK p) : NcOK (p.workerNext t tk) := by
  unfold workerNext
  nc2 [ncok_suspendTask]

theorem ncok_stepInWorker (p : Pool) (t : Nat) (tk : PTask) (h : NcOK p) : NcOK (p.stepInWorker t tk) := by
  unfold stepInWorker
  nc2 [ncok_workerCancelled, ncok_workerNext, ncok_afterWorker]

theorem ncok_stepInCancelCb (p : Pool) (t : Nat) (tk : PTask) (h : NcOK p) : NcOK (p.stepInCancelCb t tk) := by
  unfold stepInCancelCb
  nc2 [ncok_taskEnding]

theorem ncok_stepInEndCb (p : Pool) (t : Nat) (tk : PTask) (h : NcOK p) : NcOK (p.stepInEndCb t tk) := by
  unfold stepInEndCb
  nc2 [ncok_finishTask]

theorem ncok_stepTask (p : Pool) (t : Nat) (h : NcOK p) : NcOK (p.stepTask t) := by
  unfold stepTask
  nc2 [ncok_stepCreated, ncok_stepInWorker, ncok_stepInCancelCb, ncok_stepInEndCb]

/-! ### spawners -/

theorem ncok_finishMeta (p : Pool) (m : Nat) (o : Outcome) (h : NcOK p) : NcOK (p.finishMeta m o) := by
  unfold finishMeta
  nc2 []

theorem ncok_createTask (p : Pool) (m : Nat) (isMap : Bool) (h : NcOK p) : NcOK (p.createTask m isMap) := by
  unfold createTask
  nc2 []

theorem ncok_takeSlotAndCreate (p : Pool) (m : Nat) (isMap : Bool) (h : NcOK p) : NcOK (p.takeSlotAndCreate m isMap) := by
  unfold takeSlotAndCreate
  nc2 [ncok_createTask]

theorem ncok_waitRoom (p : Pool) (m : Nat) (h : NcOK p) : NcOK (p.waitRoom m) := by
  unfold waitRoom
  nc2 []

theorem ncok_waitMapSem (p : Pool) (m : Nat) (h : NcOK p) : NcOK (p.waitMapSem m) := by
  unfold waitMapSem
  nc2 []

theorem ncok_applyLoop (m n : Nat) (p : Pool) (h : NcOK p) : NcOK (applyLoop m n p) := by
  induction n generalizing p with
  | zero =>
    unfold applyLoop
    nc2 [ncok_finishMeta]
  | succ n ih =>
    unfold applyLoop
    nc2 [ncok_finishMeta, ncok_waitRoom, ncok_takeSlotAndCreate, ih]

theorem ncok_mapStartTask (p : Pool) (m : Nat) (h : NcOK p) : NcOK (p.mapStartTask m).1 := by
  unfold mapStartTask
  nc2 [ncok_finishMeta, ncok_waitRoom, ncok_takeSlotAndCreate]

theorem ncok_pullItem (p : Pool) (m : Nat) (rest : List Item) (h : NcOK p) : NcOK (p.pullItem m rest) := by
  unfold pullItem
  nc2 []

theorem ncok_takeMapSlot (p : Pool) (m : Nat) (h : NcOK p) : NcOK (p.takeMapSlot m) := by
  unfold takeMapSlot
  nc2 []

theorem ncok_mapLoop (m : Nat) (items : List Item) (p : Pool) (h : NcOK p) : NcOK (mapLoop m items p) := by
  induction items generalizing p with
  | nil =>
    unfold mapLoop
    nc2 [ncok_finishMeta]
  | cons it rest ih =>
    unfold mapLoop
    nc2 [ncok_finishMeta, ncok_waitMapSem, ncok_mapStartTask, ncok_takeMapSlot, ncok_pullItem, ih]

theorem ncok_continueSpawner (p : Pool) (m : Nat) (h : NcOK p) : NcOK (p.continueSpawner m) := by
  unfold continueSpawner
  nc2 [ncok_applyLoop, ncok_mapLoop]

theorem ncok_stepMetaNotStarted (p : Pool) (m : Nat) (r : Req) (h : NcOK p) : NcOK (p.stepMetaNotStarted m r) := by
  unfold stepMetaNotStarted
  nc2 [ncok_finishMeta, ncok_applyLoop, ncok_mapLoop]

theorem ncok_roomWaitCancelled (p : Pool) (m : Nat) (r : Req) (st : Option WaitSt) (h : NcOK p) :
    NcOK (p.roomWaitCancelled m r st) := by
  unfold roomWaitCancelled
  nc2 [ncok_finishMeta]

theorem ncok_roomGranted (p : Pool) (m : Nat) (r : Req) (h : NcOK p) : NcOK (p.roomGranted m r) := by
  unfold roomGranted
  nc2 [ncok_continueSpawner, ncok_createTask]

theorem ncok_wakeWaitRoomCore (p : Pool) (m : Nat) (r : Req) (h : NcOK p) : NcOK (p.wakeWaitRoomCore m r) := by
  unfold wakeWaitRoomCore
  nc2 [ncok_roomWaitCancelled, ncok_roomGranted]

theorem ncok_wakeWaitRoom (p : Pool) (m : Nat) (r : Req) (h : NcOK p) : NcOK (p.wakeWaitRoom m r) := by
  unfold wakeWaitRoom
  nc2 [ncok_wakeWaitRoomCore]

theorem ncok_mapSemGranted (p : Pool) (m : Nat) (r : Req) (h : NcOK p) : NcOK (p.mapSemGranted m r) := by
  unfold mapSemGranted
  nc2 [ncok_mapLoop, ncok_mapStartTask]

theorem ncok_wakeWaitMapSemCore (p : Pool) (m : Nat) (r : Req) (h : NcOK p) : NcOK (p.wakeWaitMapSemCore m r) := by
  unfold wakeWaitMapSemCore
  dsimp only
  generalize (if ((removeWaiterL m r.mapSem.waiters).1 == some WaitSt.granted) = true then _ else _ : Sem × Option Nat) = s2
  nc2 [ncok_finishMeta, ncok_mapSemGranted]

theorem ncok_wakeWaitMapSem (p : Pool) (m : Nat) (r : Req) (h : NcOK p) : NcOK (p.wakeWaitMapSem m r) := by
  unfold wakeWaitMapSem
  nc2 [ncok_wakeWaitMapSemCore]

theorem ncok_stepMeta (p : Pool) (m : Nat) (h : NcOK p) : NcOK (p.stepMeta m) := by
  unfold stepMeta
  nc2 [ncok_stepMetaNotStarted, ncok_wakeWaitRoom, ncok_wakeWaitMapSem]

/-! ### gather -/

theorem ncok_gatherChildDone (p : Pool) (g i : Nat) (v : Bool) (h : NcOK p) : NcOK (p.gatherChildDone g i v) := by
  unfold gatherChildDone
  nc2 []

theorem ncok_registerChild (p : Pool) (c : Child) (g i : Nat) (h : NcOK p) : NcOK (p.registerChild c g i) := by
  unfold registerChild
  nc2 []

theorem ncok_gatherScan (g : Nat) (cs : List Child) (i : Nat) (p : Pool) (h : NcOK p) : NcOK (gatherScan g cs i p) := by
  induction cs generalizing i p with
  | nil => unfold gatherScan; exact h
  | cons c cs ih =>
    unfold gatherScan
    nc2 [ih, ncok_gatherChildDone, ncok_registerChild]

theorem ncok_gatherStart (p : Pool) (children : List Child) (re : Bool) (owner sp : Nat) (h : NcOK p) :
    NcOK (p.gatherStart children re owner sp).1 := by
  unfold gatherStart
  nc2 [ncok_gatherScan]

/-! ### flush / gather_and_close / until_closed -/

theorem ncok_finishApi (p : Pool) (a : Nat) (o : Outcome) (h : NcOK p) : NcOK (p.finishApi a o) := h.of_reqs rfl

/-- `reqs := reqs.map f` with a rewrite that keeps `kind` / `nc`, other fields arbitrary -/
theorem ncok_mapReqs (x : Pool) (f : Req → Req) (hf : KeepsNc f) (simple : Option SpawnSpec) (startCalls : Nat) (sem : Sem)
    (locked closed : Bool) (tasks : List PTask) (groups : List (String × List Nat))
    (running cancelledR ended metaCancelled : List Nat) (apis : List Api) (gathers : List Gather)
    (closedWaiters : List Nat) (emit : List Ref) (log : List Ev) (names : List String) (orders : List (List Nat))
    (ambiguous lost resized : Bool) (h : NcOK x) :
    NcOK { simple := simple, startCalls := startCalls, sem := sem, locked := locked, closed := closed, tasks := tasks,
           reqs := x.reqs.map f, groups := groups, running := running, cancelledR := cancelledR, ended := ended,
           metaCancelled := metaCancelled, apis := apis, gathers := gathers, closedWaiters := closedWaiters, emit := emit,
           log := log, names := names, orders := orders, ambiguous := ambiguous, lost := lost, resized := resized } :=
  h.of_map f rfl hf

theorem ncok_flushAfter2 (p : Pool) (a : Nat) (o : Outcome) (h : NcOK p) : NcOK (p.flushAfter2 a o) := by
  unfold flushAfter2
  nc2 [ncok_finishApi]

theorem ncok_flushAfter1 (p : Pool) (a : Nat) (re : Bool) (o : Outcome) (h : NcOK p) : NcOK (p.flushAfter1 a re o) := by
  unfold flushAfter1
  nc2 [ncok_finishApi, ncok_flushAfter2, ncok_gatherStart, ncok_mapReqs]

theorem ncok_flushStage1 (p : Pool) (a : Nat) (re : Bool) (h : NcOK p) : NcOK (p.flushStage1 a re) := by
  unfold flushStage1
  nc2 [ncok_flushAfter1, ncok_gatherStart, ncok_mapReqs]

theorem ncok_gacAfter2 (p : Pool) (a : Nat) (o : Outcome) (h : NcOK p) : NcOK (p.gacAfter2 a o) := by
  unfold gacAfter2
  split
  · dsimp only
    refine ncok_finishApi _ a _ (ncok_foldl _ (fun p w h => ncok_schedApi p w h) _ _ ?_)
    exact h.of_reqs rfl
  · exact ncok_finishApi p a _ h

theorem ncok_gacAfter1 (p : Pool) (a : Nat) (re : Bool) (g : Nat) (h : NcOK p) : NcOK (p.gacAfter1 a re g) := by
  unfold gacAfter1
  nc2 [ncok_finishApi, ncok_gacAfter2, ncok_gatherStart, ncok_mapReqs]

theorem ncok_gacStage1 (p : Pool) (a : Nat) (re : Bool) (h : NcOK p) : NcOK (p.gacStage1 a re) := by
  unfold gacStage1
  nc2 [ncok_gacAfter1, ncok_gatherStart]

theorem ncok_untilClosedStart (p : Pool) (a : Nat) (h : NcOK p) : NcOK (p.untilClosedStart a) := by
  unfold untilClosedStart
  nc2 [ncok_finishApi]

theorem ncok_stepApi (p : Pool) (a : Nat) (h : NcOK p) : NcOK (p.stepApi a) := by
  unfold stepApi
  nc2 [ncok_finishApi, ncok_flushStage1, ncok_gacStage1, ncok_untilClosedStart, ncok_flushAfter1, ncok_flushAfter2,
    ncok_gacAfter1, ncok_gacAfter2]

/-! ### every handle, every operation -/

theorem ncok_runRef (p : Pool) (r : Ref) (h : NcOK p) : NcOK (p.runRef r) := by
  cases r with
  | task t => exact ncok_stepTask p t h
  | spawner m => exact ncok_stepMeta p m h
  | api a => exact ncok_stepApi p a h
  | gchild g i => exact ncok_gatherChildDone p g i true h

theorem ncok_addApi (p : Pool) (k : ApiKind) (h : NcOK p) : NcOK (p.addApi k) := h.of_reqs rfl

theorem ncok_doGate (p : Pool) (t : Nat) (o : FutSt) (h : NcOK p) : NcOK (p.doGate t o).1 := by
  unfold doGate
  nc2 []

theorem ncok_applyOp (p : Pool) (op : Op) (h : NcOK p) : NcOK (p.applyOp op).1 := by
  unfold applyOp
  nc2 [ncok_doMap, ncok_doStart, ncok_doSetSize, ncok_addApi, ncok_doGate]

theorem ncok_init (size : Cap) (simple : Option SpawnSpec) : NcOK (Pool.init size simple) :=
  fun m r a => by simp [Pool.init] at a

/-- **`NcOK` holds in every pool of every reachable world**: established by the constructor, preserved by every
operation, every handle and the drain -/
theorem ncInvariant : PoolInvariant (fun _ p => NcOK p) allOps where
  init := fun c simple _ => ncok_init c.size0 simple
  op := fun _ _ _ o _ h => ncok_applyOp _ o (h.of_reqs rfl)
  run := fun _ _ _ r h => ncok_runRef _ r (h.of_reqs rfl)
  drain := fun _ _ h => h.of_reqs rfl

end Pool

/-- every pool of every reachable world, whatever the history -/
theorem World.nc_run (base : Nat) (h : History) (i : Nat) (c : Cfg) (p : Pool)
    (hc : ((World.init base).run h).cfgs[i]? = some c) (hp : ((World.init base).run h).pools[i]? = some p) : p.NcOK :=
  (World.reachable Pool.ncInvariant base h (fun x _ => by cases x <;> rfl)).inv i c p hc hp

end Taskpool
