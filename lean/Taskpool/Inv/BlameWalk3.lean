import Taskpool.Inv.BlameWalk2
/-! The blame walk, part 3: gathers, the stages of the background calls, every handle and every operation; the packaged
invariant `blameInvariant` and its lifting to every reachable world (`World.blame_run`). -/
namespace Taskpool
namespace Pool

/-! ### where an outcome comes from -/

/-- some task or spawner of the pool ended with `e` -/
def SrcE (p : Pool) (e : Err) : Prop :=
  (∃ (t : Nat) (k : PTask), p.tasks[t]? = some k ∧ k.outcome = some (.exc e)) ∨
  (∃ (m : Nat) (r : Req), p.reqs[m]? = some r ∧ r.outcome = some (.exc e))

/-- some task of the pool ended cancelled -/
def SrcC (p : Pool) : Prop := ∃ (t : Nat) (k : PTask), p.tasks[t]? = some k ∧ k.outcome = some .cancelled

/-- the outcome `o` of a background call is accounted for -/
def Src (p : Pool) : Outcome → Prop
  | .ok => True
  | .exc e => SrcE p e
  | .cancelled => SrcC p

/-- gather `g` exists and all its children are tasks -/
def TaskKids (p : Pool) (g : Nat) : Prop := ∃ G : Gather, p.gathers[g]? = some G ∧ ∀ c ∈ G.children, ∃ t : Nat, c = .task t

theorem srcE_of_coL {p : Pool} {c : Child} {e : Err} (h : coL p.tasks p.reqs c = some (.exc e)) : SrcE p e := by
  cases c with
  | task t =>
    simp only [coL] at h
    cases hk : p.tasks[t]? with
    | none => simp [hk] at h
    | some k => simp only [hk] at h; exact Or.inl ⟨t, k, hk, h⟩
  | spawner m =>
    simp only [coL] at h
    cases hk : p.reqs[m]? with
    | none => simp [hk] at h
    | some r => simp only [hk] at h; exact Or.inr ⟨m, r, hk, h⟩

theorem srcC_of_coL {p : Pool} {t : Nat} (h : coL p.tasks p.reqs (.task t) = some .cancelled) : SrcC p := by
  simp only [coL] at h
  cases hk : p.tasks[t]? with
  | none => simp [hk] at h
  | some k => simp only [hk] at h; exact ⟨t, k, hk, h⟩

theorem bw_gatherOuter_some {p : Pool} {g : Nat} {o : Outcome} (h : p.gatherOuter g = some o) :
    ∃ G, p.gathers[g]? = some G ∧ G.outer = some o := by
  unfold gatherOuter at h
  split at h
  · rename_i G hG; exact ⟨G, hG, h⟩
  · cases h

/-- the outer future of a gather has failed: one of its children has -/
theorem srcE_of_gatherOuter {p : Pool} {g : Nat} {e : Err} (h : BlameX p) (ho : p.gatherOuter g = some (.exc e)) :
    SrcE p e := by
  obtain ⟨G, hG, hGo⟩ := bw_gatherOuter_some ho
  obtain ⟨c, _, hco⟩ := h.ge g G e hG hGo
  exact srcE_of_coL hco

/-- the outer future of a gather over tasks is done: its outcome is accounted for -/
theorem src_of_gatherOuter {p : Pool} {g : Nat} {o : Outcome} (h : BlameX p) (ho : p.gatherOuter g = some o)
    (hk : TaskKids p g) : Src p o := by
  cases o with
  | ok => trivial
  | exc e => exact srcE_of_gatherOuter h ho
  | cancelled =>
    obtain ⟨G, hG, hGo⟩ := bw_gatherOuter_some ho
    obtain ⟨G', hG', hkids⟩ := hk
    rw [hG] at hG'; cases hG'
    obtain ⟨_, c, hc, hco⟩ := h.gc g G hG hGo
    obtain ⟨t, rfl⟩ := hkids c hc
    exact srcC_of_coL hco

/-! ### the record of a background call is rewritten -/

theorem bx_modApi (p : Pool) (a : Nat) (f : Api → Api) (h : BlameX p)
    (hf : ∀ x, p.apis[a]? = some x →
      (∀ e, (f x).outcome = some (.exc e) → SrcE p e) ∧ ((f x).outcome = some .cancelled → SrcC p) ∧
      (∀ g, (f x).frame = .gather2 g → TaskKids p g)) : BlameX (p.modApi a f) := by
  refine ⟨h.ge, h.gc, ?_, ?_, h.to, h.ro, ?_⟩
  · intro b B e hB ho
    obtain ⟨x, hx, eB⟩ := getElem?_modify_some _ _ _ _ _ hB
    subst eB
    split at ho
    · rename_i e'; subst e'; exact (hf x hx).1 e ho
    · exact h.ae b x e hx ho
  · intro b B hB ho
    obtain ⟨x, hx, eB⟩ := getElem?_modify_some _ _ _ _ _ hB
    subst eB
    split at ho
    · rename_i e'; subst e'; exact (hf x hx).2.1 ho
    · exact h.ac b x hx ho
  · intro b B g hB hfr
    obtain ⟨x, hx, eB⟩ := getElem?_modify_some _ _ _ _ _ hB
    subst eB
    split at hfr
    · rename_i e'; subst e'; exact (hf x hx).2.2 g hfr
    · exact h.g2 b x g hx hfr

/-- neither the outcome nor the frame changes -/
theorem bx_keepApi (p : Pool) (a : Nat) (f : Api → Api) (hf : ∀ x, (f x).outcome = x.outcome ∧ (f x).frame = x.frame)
    (h : BlameX p) : BlameX (p.modApi a f) := by
  refine bx_modApi p a f h (fun x hx => ⟨fun e ho => ?_, fun ho => ?_, fun g hfr => ?_⟩)
  · rw [(hf x).1] at ho; exact h.ae a x e hx ho
  · rw [(hf x).1] at ho; exact h.ac a x hx ho
  · rw [(hf x).2] at hfr; exact h.g2 a x g hx hfr

theorem bx_schedApi (p : Pool) (a : Nat) (h : BlameX p) : BlameX (p.schedApi a) := by
  unfold schedApi
  exact bx_keepApi p a _ (fun _ => ⟨rfl, rfl⟩) h

/-- the call returns with an outcome that is accounted for -/
theorem bx_finishApi (p : Pool) (a : Nat) (o : Outcome) (h : BlameX p) (hs : Src p o) : BlameX (p.finishApi a o) := by
  unfold finishApi
  refine bx_modApi p a _ h (fun x _ => ⟨fun e ho => ?_, fun ho => ?_, fun g hfr => ?_⟩)
  · simp only [Option.some.injEq] at ho; subst ho; exact hs
  · simp only [Option.some.injEq] at ho; subst ho; exact hs
  · cases hfr

/-- the call suspends -/
theorem bx_setFrame (p : Pool) (a : Nat) (fr : AFrame) (h : BlameX p) (hk : ∀ g, fr = .gather2 g → TaskKids p g) :
    BlameX (p.modApi a fun x => { x with frame := fr }) := by
  refine bx_modApi p a _ h (fun x hx => ⟨fun e ho => h.ae a x e hx ho, fun ho => h.ac a x hx ho, fun g hfr => hk g hfr⟩)

/-! ### gathers -/

/-- gathers are only appended and keep their children -/
def Gsh (p q : Pool) : Prop :=
  ∀ (g : Nat) (G : Gather), p.gathers[g]? = some G → ∃ G', q.gathers[g]? = some G' ∧ G'.children = G.children

theorem Gsh.refl (p : Pool) : Gsh p p := fun _ G h => ⟨G, h, rfl⟩

theorem Gsh.trans {p q r : Pool} (h1 : Gsh p q) (h2 : Gsh q r) : Gsh p r := by
  intro g G hG
  obtain ⟨G', hG', e⟩ := h1 g G hG
  obtain ⟨G'', hG'', e'⟩ := h2 g G' hG'
  exact ⟨G'', hG'', e'.trans e⟩

theorem Gsh.of_eq {p q : Pool} (h : q.gathers = p.gathers) : Gsh p q := fun _ G hG => ⟨G, by rw [h]; exact hG, rfl⟩

theorem gsh_modGather (p : Pool) (g : Nat) (f : Gather → Gather) (hf : ∀ G, (f G).children = G.children) :
    Gsh p (p.modGather g f) := by
  intro j G hG
  show ∃ G', (p.gathers.modify g f)[j]? = some G' ∧ G'.children = G.children
  rw [List.getElem?_modify, hG]
  by_cases e : g = j
  · exact ⟨f G, by simp [e], hf G⟩
  · exact ⟨G, by simp [e], rfl⟩

theorem bx_modGather (p : Pool) (g : Nat) (f : Gather → Gather) (h : BlameX p)
    (hf : ∀ G, p.gathers[g]? = some G → (f G).children = G.children ∧ (f G).retExc = G.retExc ∧
      (∀ e, (f G).outer = some (.exc e) → ∃ c ∈ G.children, coL p.tasks p.reqs c = some (.exc e)) ∧
      ((f G).outer = some .cancelled → G.retExc = false ∧ ∃ c ∈ G.children, coL p.tasks p.reqs c = some .cancelled)) :
    BlameX (p.modGather g f) := by
  refine ⟨?_, ?_, h.ae, h.ac, h.to, h.ro, ?_⟩
  · intro j G' e hG' ho
    obtain ⟨x, hx, eG⟩ := getElem?_modify_some _ _ _ _ _ hG'
    subst eG
    split at ho
    · rename_i e'; subst e'
      obtain ⟨c1, _, c3, _⟩ := hf x hx
      rw [if_pos rfl, c1]; exact c3 e ho
    · rename_i e'
      rw [if_neg e']; exact h.ge j x e hx ho
  · intro j G' hG' ho
    obtain ⟨x, hx, eG⟩ := getElem?_modify_some _ _ _ _ _ hG'
    subst eG
    split at ho
    · rename_i e'; subst e'
      obtain ⟨c1, c2, _, c4⟩ := hf x hx
      rw [if_pos rfl, c1, c2]; exact c4 ho
    · rename_i e'
      rw [if_neg e']; exact h.gc j x hx ho
  · intro a A j hA hfr
    obtain ⟨G, hG, hk⟩ := h.g2 a A j hA hfr
    refine ⟨if g = j then f G else G, ?_, ?_⟩
    · show (p.gathers.modify g f)[j]? = _
      rw [List.getElem?_modify, hG]; rfl
    · split
      · rename_i e'; subst e'
        rw [(hf G hG).1]; exact hk
      · exact hk

/-- what `_done_callback` decides: an exception is the child's -/
theorem gatherVerdict_exc {G : Gather} {co : Option Outcome} {e : Err} (h : gatherVerdict G co = some (.exc e)) :
    co = some (.exc e) := by
  unfold gatherVerdict at h
  split at h
  · cases h
  · split at h
    · simp only [Option.some.injEq, Outcome.exc.injEq] at h
      subst h
      rename_i heq
      simp only [Prod.mk.injEq] at heq
      exact heq.2
    · split at h <;> cases h

/-- what `_done_callback` decides: a cancellation is the child's, and the gather does not collect -/
theorem gatherVerdict_cancelled {G : Gather} {co : Option Outcome} (h : gatherVerdict G co = some .cancelled) :
    G.retExc = false ∧ co = some .cancelled := by
  unfold gatherVerdict at h
  split at h
  · rename_i c
    simp only [Bool.and_eq_true, Bool.not_eq_true', beq_iff_eq] at c
    exact c
  · split at h
    · cases h
    · split at h <;> cases h

theorem bw_mem_of_getElem? {α} {l : List α} {i : Nat} {x : α} (h : l[i]? = some x) : x ∈ l :=
  List.mem_of_getElem? h

theorem bx_gatherChildDone (p : Pool) (g i : Nat) (v : Bool) (h : BlameX p) : BlameX (p.gatherChildDone g i v) := by
  unfold gatherChildDone
  split
  · exact h
  · rename_i G hG
    split
    · exact h
    · rename_i c hc
      dsimp only
      have h1 : BlameX (p.modGather g fun x => { x with nfinished := x.nfinished + 1 }) :=
        bx_modGather p g _ h (fun G0 hG0 => ⟨rfl, rfl, fun e ho => h.ge g G0 e hG0 ho, fun ho => h.gc g G0 hG0 ho⟩)
      split
      · exact h1
      · split
        · exact h1
        · rename_i o ho
          split
          · exact h1
          · have h2 : BlameX ((p.modGather g fun x => { x with nfinished := x.nfinished + 1 }).modGather g
                fun x => { x with outer := some o }) := by
              refine bx_modGather _ g _ h1 (fun G1 hG1 => ?_)
              obtain ⟨x, hx, eG⟩ := getElem?_modify_some _ _ _ _ _ hG1
              rw [hG] at hx; cases hx
              rw [if_pos rfl] at eG
              subst eG
              have hmem : c ∈ G.children := bw_mem_of_getElem? hc
              refine ⟨rfl, rfl, fun e he => ?_, fun he => ?_⟩
              · simp only [Option.some.injEq] at he
                subst he
                have := gatherVerdict_exc ho
                rw [childOutcome_coL] at this
                exact ⟨c, hmem, this⟩
              · simp only [Option.some.injEq] at he
                subst he
                obtain ⟨a1, a2⟩ := gatherVerdict_cancelled ho
                rw [childOutcome_coL] at a2
                exact ⟨a1, c, hmem, a2⟩
            split
            · exact bx_schedApi _ _ h2
            · exact h2

theorem gsh_schedApi (p : Pool) (a : Nat) : Gsh p (p.schedApi a) := Gsh.of_eq rfl

theorem gsh_gatherChildDone (p : Pool) (g i : Nat) (v : Bool) : Gsh p (p.gatherChildDone g i v) := by
  unfold gatherChildDone
  split
  · exact Gsh.refl p
  · split
    · exact Gsh.refl p
    · dsimp only
      have h1 : Gsh p (p.modGather g fun x => { x with nfinished := x.nfinished + 1 }) := gsh_modGather p g _ (fun _ => rfl)
      split
      · exact h1
      · split
        · exact h1
        · rename_i o _
          split
          · exact h1
          · have h2 := h1.trans (gsh_modGather _ g (fun x => { x with outer := some o }) (fun _ => rfl))
            split
            · exact h2.trans (gsh_schedApi _ _)
            · exact h2

theorem gsh_registerChild (p : Pool) (c : Child) (g i : Nat) : Gsh p (p.registerChild c g i) := by
  unfold registerChild
  split <;> exact Gsh.of_eq rfl

theorem bx_registerChild (p : Pool) (c : Child) (g i : Nat) (h : BlameX p) : BlameX (p.registerChild c g i) :=
  h.bfr (bfr_registerChild p c g i (Bfr.refl p))

theorem bx_gatherScan (g : Nat) (cs : List Child) (i : Nat) (p : Pool) (h : BlameX p) :
    BlameX (gatherScan g cs i p) ∧ Gsh p (gatherScan g cs i p) := by
  induction cs generalizing i p with
  | nil => unfold gatherScan; exact ⟨h, Gsh.refl p⟩
  | cons c cs ih =>
    unfold gatherScan
    split
    · obtain ⟨a, b⟩ := ih (i + 1) _ (bx_gatherChildDone p g i false h)
      exact ⟨a, (gsh_gatherChildDone p g i false).trans b⟩
    · obtain ⟨a, b⟩ := ih (i + 1) _ (bx_registerChild p c g i h)
      exact ⟨a, (gsh_registerChild p c g i).trans b⟩

/-- a new gather: its outer future is pending, or done normally at once (no children) -/
theorem bx_gatherStart (p : Pool) (children : List Child) (re : Bool) (owner n : Nat) (h : BlameX p) :
    BlameX (p.gatherStart children re owner n).1 ∧
    ∃ G, (p.gatherStart children re owner n).1.gathers[(p.gatherStart children re owner n).2]? = some G ∧
      G.children = children := by
  unfold gatherStart
  dsimp only
  generalize hG0 : (Gather.mk children 0 (if children.isEmpty then some .ok else none) owner re) = G0
  generalize (p.ambiguous || (!re && decide ((failKinds p (children.take n)).length > 1))) = amb
  have ho : G0.outer = some .ok ∨ G0.outer = none := by
    subst hG0
    dsimp only
    split
    · exact Or.inl rfl
    · exact Or.inr rfl
  have hch : G0.children = children := by subst hG0; rfl
  have h0 : BlameX ({ p with gathers := p.gathers ++ [G0], ambiguous := amb } : Pool) := by
    refine ⟨?_, ?_, h.ae, h.ac, h.to, h.ro, ?_⟩
    · intro j G e hG hGo
      rcases bw_append_get (l := p.gathers) hG with hG | ⟨_, rfl⟩
      · exact h.ge j G e hG hGo
      · rcases ho with ho | ho <;> rw [ho] at hGo <;> cases hGo
    · intro j G hG hGo
      rcases bw_append_get (l := p.gathers) hG with hG | ⟨_, rfl⟩
      · exact h.gc j G hG hGo
      · rcases ho with ho | ho <;> rw [ho] at hGo <;> cases hGo
    · intro a A j hA hfr
      obtain ⟨G, hG, hk⟩ := h.g2 a A j hA hfr
      refine ⟨G, ?_, hk⟩
      show (p.gathers ++ [G0])[j]? = some G
      rw [List.getElem?_append_left (bw_lt_of_some hG)]; exact hG
  obtain ⟨a, b⟩ := bx_gatherScan p.gathers.length children 0 _ h0
  refine ⟨a, ?_⟩
  have hnew : ({ p with gathers := p.gathers ++ [G0], ambiguous := amb } : Pool).gathers[p.gathers.length]? = some G0 := by
    show (p.gathers ++ [G0])[p.gathers.length]? = some G0
    simp
  obtain ⟨G', hG', e⟩ := b _ G0 hnew
  exact ⟨G', hG', e.trans hch⟩

/-! ### the stages of a background call -/

theorem allTasks_map (l : List Nat) : ∀ c ∈ l.map Child.task, ∃ t : Nat, c = .task t := by
  intro c hc
  obtain ⟨t, _, e⟩ := List.mem_map.mp hc
  exact ⟨t, e.symm⟩

theorem allTasks_append {l1 l2 : List Child} (h1 : ∀ c ∈ l1, ∃ t : Nat, c = .task t) (h2 : ∀ c ∈ l2, ∃ t : Nat, c = .task t) :
    ∀ c ∈ l1 ++ l2, ∃ t : Nat, c = .task t := by
  intro c hc
  rcases List.mem_append.mp hc with hc | hc
  · exact h1 c hc
  · exact h2 c hc

/-- the result of `bx_gatherStart` for a gather over tasks -/
theorem taskKids_of_start {q : Pool} {g : Nat} {children : List Child}
    (h : ∃ G, q.gathers[g]? = some G ∧ G.children = children) (hk : ∀ c ∈ children, ∃ t : Nat, c = .task t) :
    TaskKids q g := by
  obtain ⟨G, hG, e⟩ := h
  exact ⟨G, hG, by rw [e]; exact hk⟩

theorem bx_flushAfter2 (p : Pool) (a : Nat) (o : Outcome) (h : BlameX p) (hs : Src p o) : BlameX (p.flushAfter2 a o) := by
  unfold flushAfter2
  split
  · dsimp only
    exact bx_finishApi _ a .ok (h.of_eq rfl rfl rfl rfl) trivial
  · exact bx_finishApi p a _ h hs

theorem bx_flushAfter1 (p : Pool) (a : Nat) (re : Bool) (o : Outcome) (h : BlameX p)
    (hs : ∀ e, o = .exc e → SrcE p e) : BlameX (p.flushAfter1 a re o) := by
  unfold flushAfter1
  split
  · rename_i e
    exact bx_finishApi p a _ h (hs e rfl)
  · dsimp only
    have h1 : BlameX ({ p with metaCancelled := [], reqs := p.reqs.map fun (r : Req) => { r with inCancelled := false } } : Pool) :=
      h.bfr (Bfr.mapReqs (Bfr.refl p) (fun (r : Req) => { r with inCancelled := false }) (fun _ => ⟨rfl, rfl⟩) rfl rfl rfl rfl)
    have h2 := bx_keepApi _ a (fun x => { x with snapE := p.ended, snapC := p.cancelledR }) (fun _ => ⟨rfl, rfl⟩) h1
    obtain ⟨H1, H2⟩ := bx_gatherStart _ (p.ended.map Child.task ++ p.cancelledR.map Child.task) re a 0 h2
    have hk := taskKids_of_start H2 (allTasks_append (allTasks_map _) (allTasks_map _))
    split
    · rename_i o' ho'
      exact bx_flushAfter2 _ a o' H1 (src_of_gatherOuter H1 ho' hk)
    · exact bx_setFrame _ a _ H1 (fun g e => by cases e; exact hk)

theorem bx_flushStage1 (p : Pool) (a : Nat) (re : Bool) (h : BlameX p) : BlameX (p.flushStage1 a re) := by
  unfold flushStage1
  dsimp only
  have h1 : BlameX ({ p with reqs := p.reqs.map fun (r : Req) =>
      if r.inRunning && r.outcome.isSome then { r with inRunning := false } else r } : Pool) :=
    h.bfr (Bfr.mapReqs (Bfr.refl p) (fun (r : Req) => if r.inRunning && r.outcome.isSome then { r with inRunning := false } else r)
      (fun r => by split <;> exact ⟨rfl, rfl⟩) rfl rfl rfl rfl)
  obtain ⟨H1, _⟩ := bx_gatherStart _
    (p.metaCancelled.map Child.spawner ++ (indicesWhere p.reqs fun r => r.inRunning && r.outcome.isSome).map Child.spawner) re a
    (p.metaCancelled.map Child.spawner ++ (indicesWhere p.reqs fun r => r.inRunning && r.outcome.isSome).map Child.spawner).length h1
  split
  · rename_i o' ho'
    exact bx_flushAfter1 _ a re o' H1 (fun e he => by subst he; exact srcE_of_gatherOuter H1 ho')
  · exact bx_setFrame _ a _ H1 (fun g e => by cases e)

theorem bx_foldl_schedApi (ws : List Nat) (p : Pool) (h : BlameX p) : BlameX (ws.foldl (fun p w => p.schedApi w) p) := by
  induction ws generalizing p with
  | nil => exact h
  | cons w ws ih => exact ih _ (bx_schedApi p w h)

theorem bx_gacAfter2 (p : Pool) (a : Nat) (o : Outcome) (h : BlameX p) (hs : Src p o) : BlameX (p.gacAfter2 a o) := by
  unfold gacAfter2
  split
  · dsimp only
    exact bx_finishApi _ a .ok (bx_foldl_schedApi _ _ (h.of_eq rfl rfl rfl rfl)) trivial
  · exact bx_finishApi p a _ h hs

theorem firstExc_some (p : Pool) (cs : List Child) (e : Err) (h : p.firstExc cs = some e) :
    ∃ c, p.childOutcome c = some (.exc e) := by
  induction cs with
  | nil => unfold firstExc at h; cases h
  | cons c cs ih =>
    unfold firstExc at h
    split at h
    · rename_i e' hc
      simp only [Option.some.injEq] at h
      subst h
      exact ⟨c, hc⟩
    · exact ih h

theorem bx_gacAfter1 (p : Pool) (a : Nat) (re : Bool) (g : Nat) (h : BlameX p) : BlameX (p.gacAfter1 a re g) := by
  unfold gacAfter1
  dsimp only
  split
  · rename_i e he
    refine bx_finishApi p a _ h ?_
    split at he
    · cases he
    · obtain ⟨c, hc⟩ := firstExc_some p _ e he
      rw [childOutcome_coL] at hc
      exact srcE_of_coL hc
  · have h1 : BlameX ({ p with metaCancelled := [], reqs := p.reqs.map fun (r : Req) =>
        { r with inCancelled := false, inRunning := false } } : Pool) :=
      h.bfr (Bfr.mapReqs (Bfr.refl p) (fun (r : Req) => { r with inCancelled := false, inRunning := false })
        (fun _ => ⟨rfl, rfl⟩) rfl rfl rfl rfl)
    obtain ⟨H1, H2⟩ := bx_gatherStart _
      (p.ended.map Child.task ++ p.cancelledR.map Child.task ++ p.running.map Child.task) re a 0 h1
    have hk := taskKids_of_start H2 (allTasks_append (allTasks_append (allTasks_map _) (allTasks_map _)) (allTasks_map _))
    split
    · rename_i o' ho'
      exact bx_gacAfter2 _ a o' H1 (src_of_gatherOuter H1 ho' hk)
    · exact bx_setFrame _ a _ H1 (fun g e => by cases e; exact hk)

theorem bx_gacStage1 (p : Pool) (a : Nat) (re : Bool) (h : BlameX p) : BlameX (p.gacStage1 a re) := by
  unfold gacStage1
  dsimp only
  have h1 : ∀ amb : Bool, BlameX ({ p with locked := true, ambiguous := amb } : Pool) := fun amb => h.of_eq rfl rfl rfl rfl
  have H := fun amb => bx_gatherStart _
    (p.metaCancelled.map Child.spawner ++ (indicesWhere p.reqs fun r => r.inRunning).map Child.spawner) true a 0 (h1 amb)
  split
  · exact bx_gacAfter1 _ a re _ (H _).1
  · exact bx_setFrame _ a _ (H _).1 (fun g e => by cases e)

theorem bx_untilClosedStart (p : Pool) (a : Nat) (h : BlameX p) : BlameX (p.untilClosedStart a) := by
  unfold untilClosedStart
  split
  · exact bx_finishApi p a .ok h trivial
  · exact bx_setFrame _ a _ (h.of_eq rfl rfl rfl rfl) (fun g e => by cases e)

/-! ### one step of a background call -/

theorem bx_stepApi (p : Pool) (a : Nat) (h : BlameX p) : BlameX (p.stepApi a) := by
  unfold stepApi
  split
  · exact h
  · rename_i A hA
    split
    · exact h
    · dsimp only
      have h1 : BlameX (p.modApi a fun x => { x with sched := false }) := bx_keepApi p a _ (fun _ => ⟨rfl, rfl⟩) h
      have hA1 : (p.modApi a fun x => { x with sched := false }).apis[a]? = some { A with sched := false } := by
        simp [modApi, hA]
      generalize (p.modApi a fun x => { x with sched := false }) = q at h1 hA1
      split
      · exact h1
      · exact bx_flushStage1 q a _ h1
      · exact bx_gacStage1 q a _ h1
      · exact bx_untilClosedStart q a h1
      · exact bx_finishApi q a .ok h1 trivial
      · split
        · rename_i o ho
          exact bx_flushAfter1 q a _ o h1 (fun e he => by subst he; exact srcE_of_gatherOuter h1 ho)
        · exact h1
      · split
        · exact bx_gacAfter1 q a _ _ h1
        · exact h1
      · rename_i g _ hf _
        split
        · rename_i o ho
          exact bx_flushAfter2 q a o h1 (src_of_gatherOuter h1 ho (h1.g2 a _ g hA1 hf))
        · exact h1
      · rename_i g _ hf _
        split
        · rename_i o ho
          exact bx_gacAfter2 q a o h1 (src_of_gatherOuter h1 ho (h1.g2 a _ g hA1 hf))
        · exact h1
      · exact h1

/-! ### every handle, every operation -/

theorem bx_runRef (p : Pool) (r : Ref) (h : BlameX p) : BlameX (p.runRef r) := by
  cases r with
  | task t => exact bx_stepTask p t h
  | spawner m => exact bx_stepMeta p m h
  | api a => exact bx_stepApi p a h
  | gchild g i => exact bx_gatherChildDone p g i true h

/-- a new background call: not started, no outcome -/
theorem bx_addApi (p : Pool) (k : ApiKind) (h : BlameX p) : BlameX (p.addApi k) := by
  unfold addApi
  dsimp only
  refine BlameX.of_eq (p := ({ p with apis := p.apis ++ [{ kind := k, frame := .notStarted, sched := true, outcome := none }] } : Pool))
    ?_ rfl rfl rfl rfl
  refine ⟨h.ge, h.gc, ?_, ?_, h.to, h.ro, ?_⟩
  · intro b B e hB ho
    rcases bw_append_get (l := p.apis) hB with hB | ⟨_, rfl⟩
    · exact h.ae b B e hB ho
    · cases ho
  · intro b B hB ho
    rcases bw_append_get (l := p.apis) hB with hB | ⟨_, rfl⟩
    · exact h.ac b B hB ho
    · cases ho
  · intro b B g hB hfr
    rcases bw_append_get (l := p.apis) hB with hB | ⟨_, rfl⟩
    · exact h.g2 b B g hB hfr
    · cases hfr

theorem bx_applyOp (p : Pool) (op : Op) (h : BlameX p) : BlameX (p.applyOp op).1 := by
  cases op <;> simp only [applyOp]
  · exact h.bfr (bfr_doApply p _ _ _ (Bfr.refl p))
  · exact h.bfr (bfr_doMap p _ _ _ _ _ (Bfr.refl p))
  · exact h.bfr (bfr_doStart p _ (Bfr.refl p))
  · exact h.bfr (bfr_doStop p _ (Bfr.refl p))
  · exact h.bfr (bfr_doStop p _ (Bfr.refl p))
  · exact h.bfr (bfr_doCancel p _ (Bfr.refl p))
  · exact h.bfr (bfr_doCancelGroup p _ (Bfr.refl p))
  · exact h.bfr (bfr_doCancelAll p (Bfr.refl p))
  · exact h.of_eq rfl rfl rfl rfl
  · exact h.of_eq rfl rfl rfl rfl
  · exact h.bfr (bfr_doSetSize p _ (Bfr.refl p))
  · exact h
  · exact bx_addApi p _ h
  · exact bx_addApi p _ h
  · exact bx_addApi p _ h
  · exact h.bfr (bfr_doGate p _ _ (Bfr.refl p))

theorem bx_init (size : Cap) (simple : Option SpawnSpec) : BlameX (Pool.init size simple) := by
  refine ⟨?_, ?_, ?_, ?_, ?_, ?_, ?_⟩ <;> simp [Pool.init]

/-- **what a `flush()` / `gather_and_close()` raises is the outcome of a task or spawner of the pool** — the walking
invariant `BlameX` (which implies `BlameOK`: `BlameX.ok`) is established by the constructor and preserved by every
operation and every handle -/
theorem blameInvariant : PoolInvariant (fun _ p => BlameX p) allOps where
  init := fun c simple _ => bx_init c.size0 simple
  op := by
    intro c p orders o _ h
    exact bx_applyOp _ o (h.of_eq (q := ({ p with orders := orders } : Pool)) rfl rfl rfl rfl)
  run := by
    intro c p orders r h
    exact bx_runRef _ r (h.of_eq (q := ({ p with orders := orders } : Pool)) rfl rfl rfl rfl)
  drain := by
    intro c p h
    exact h.of_eq (q := ({ p with emit := [] } : Pool)) rfl rfl rfl rfl

end Pool

/-- in every pool of every reachable world, after every history: the walking invariant -/
theorem World.blameX_run (base : Nat) (h : History) (i : Nat) (c : Cfg) (p : Pool)
    (hc : ((World.init base).run h).cfgs[i]? = some c) (hp : ((World.init base).run h).pools[i]? = some p) : p.BlameX :=
  (World.reachable Pool.blameInvariant base h (fun x _ => by cases x <;> rfl)).inv i c p hc hp

/-- every pool of every reachable world, whatever the history -/
theorem World.blame_run (base : Nat) (h : History) (i : Nat) (c : Cfg) (p : Pool)
    (hc : ((World.init base).run h).cfgs[i]? = some c) (hp : ((World.init base).run h).pools[i]? = some p) : p.BlameOK :=
  (World.blameX_run base h i c p hc hp).ok

end Taskpool
