import Taskpool.Inv.MapHeld
import Taskpool.Inv.Mono
import Taskpool.Inv.Lift
/-! `MHOK` (`Inv/MapHeld.lean`) is preserved by every step of the pool machine.  The walk follows `Inv/Mono.lean`:
everything that keeps the phase, the `isMap` flag of every task, never sets `mapHeld` and never resets `lost` (`Keep`:
every `Tame0` step, releases, registry moves, `lost := true`) preserves `MHOK` for free; what is left is the wrapper of a
pool task (phase changes: `inEndCb` and `finished` are reached only after `releaseMapSlot`, or with `lost`) and task
creation. -/
namespace Taskpool
namespace Pool

/-- `q` is `p` up to changes that keep the phase and the `isMap` flag of every task, hand map slots back at most, and
never reset `lost` -/
structure Keep (p q : Pool) : Prop where
  lost : q.lost = false → p.lost = false
  pt : ∀ (t : Nat) (k' : PTask), q.tasks[t]? = some k' → ∃ k : PTask, p.tasks[t]? = some k ∧
        k'.phase = k.phase ∧ k'.isMap = k.isMap ∧ (k.mapHeld = false → k'.mapHeld = false)

/-- task `t` (if there is one) holds no map slot -/
def MF (p : Pool) (t : Nat) : Prop := ∀ k : PTask, p.tasks[t]? = some k → k.mapHeld = false

/-- the record `tk` read at the start of the step agrees with task `t` on `isMap` -/
def IM (p : Pool) (t : Nat) (tk : PTask) : Prop := ∀ k : PTask, p.tasks[t]? = some k → k.isMap = tk.isMap

theorem Keep.refl (p : Pool) : Keep p p := ⟨fun h => h, fun _ k' h => ⟨k', h, rfl, rfl, fun x => x⟩⟩

theorem Keep.trans {p q r : Pool} (h1 : Keep p q) (h2 : Keep q r) : Keep p r := by
  refine ⟨fun h => h1.lost (h2.lost h), ?_⟩
  intro t k'' h
  obtain ⟨k', a', b1, b2, b3⟩ := h2.pt t k'' h
  obtain ⟨k, a, c1, c2, c3⟩ := h1.pt t k' a'
  exact ⟨k, a, b1.trans c1, b2.trans c2, fun x => b3 (c3 x)⟩

theorem _root_.Taskpool.Tame0.keep {p q : Pool} (h : Tame0 p q) : Keep p q := by
  refine ⟨fun x => by rw [← h.lost]; exact x, ?_⟩
  intro t k' a
  obtain ⟨k, b, e⟩ := h.soft t k' a
  exact ⟨k, b, congrArg SoftP.phase e, congrArg SoftP.isMap e, fun x => by
    rw [show k'.mapHeld = k.mapHeld from congrArg SoftP.mapHeld e]; exact x⟩

theorem _root_.Taskpool.Tame.keep {p q : Pool} (h : Tame p q) : Keep p q := h.toTame0.keep

theorem MHOK.keep {p q : Pool} (h : MHOK p) (k : Keep p q) : MHOK q := by
  refine ⟨?_, ?_, ?_⟩
  · intro t k' a hm
    obtain ⟨x, b, _, e2, e3⟩ := k.pt t k' a
    exact e3 (h.nm t x b (by rw [← e2]; exact hm))
  · intro t k' a hp
    obtain ⟨x, b, e1, _, e3⟩ := k.pt t k' a
    exact e3 (h.ec t x b (by rw [← e1]; exact hp))
  · intro t k' a hp hl
    obtain ⟨x, b, e1, _, e3⟩ := k.pt t k' a
    exact e3 (h.fin t x b (by rw [← e1]; exact hp) (k.lost hl))

/-- **every `Tame0` step preserves `MHOK`** -/
theorem MHOK.tame0 {p q : Pool} (h : MHOK p) (k : Tame0 p q) : MHOK q := h.keep k.keep
theorem MHOK.tame {p q : Pool} (h : MHOK p) (k : Tame p q) : MHOK q := h.keep k.keep

theorem MF.keep {p q : Pool} {t : Nat} (h : MF p t) (k : Keep p q) : MF q t := by
  intro k' a
  obtain ⟨x, b, _, _, e3⟩ := k.pt t k' a
  exact e3 (h x b)

theorem IM.keep {p q : Pool} {t : Nat} {tk : PTask} (h : IM p t tk) (k : Keep p q) : IM q t tk := by
  intro k' a
  obtain ⟨x, b, _, e2, _⟩ := k.pt t k' a
  exact e2.trans (h x b)

/-- tasks untouched, `lost` not reset -/
theorem keep_of_eq (p q : Pool) (ht : q.tasks = p.tasks) (hl : q.lost = false → p.lost = false) : Keep p q :=
  ⟨hl, fun t k' a => ⟨k', by rw [ht] at a; exact a, rfl, rfl, fun x => x⟩⟩

theorem MHOK.eq {p : Pool} (h : MHOK p) (q : Pool) (ht : q.tasks = p.tasks := by rfl)
    (hl : q.lost = false → p.lost = false := by exact fun x => x) : MHOK q := h.keep (keep_of_eq p q ht hl)

theorem keep_modTask (p : Pool) (t : Nat) (f : PTask → PTask)
    (hf : ∀ k, (f k).phase = k.phase ∧ (f k).isMap = k.isMap ∧ (k.mapHeld = false → (f k).mapHeld = false) := by
      exact fun _ => ⟨rfl, rfl, fun x => x⟩) :
    Keep p (p.modTask t f) := by
  refine ⟨fun x => x, ?_⟩
  intro i k' a
  obtain ⟨x, hx, rfl⟩ := getElem?_modify_some p.tasks t i f k' a
  refine ⟨x, hx, ?_⟩
  split
  · exact hf x
  · exact ⟨rfl, rfl, fun x => x⟩

/-- a rewrite of task `t` for which the three clauses are shown directly -/
theorem mhok_modTask {p : Pool} (h : MHOK p) (t : Nat) (f : PTask → PTask)
    (hf : ∀ k, p.tasks[t]? = some k → (f k).isMap = k.isMap ∧ (k.mapHeld = false → (f k).mapHeld = false) ∧
      ((f k).phase = .inEndCb → (f k).mapHeld = false) ∧
      ((f k).phase = .finished → p.lost = false → (f k).mapHeld = false)) :
    MHOK (p.modTask t f) := by
  have key : ∀ (i : Nat) (k' : PTask), (p.modTask t f).tasks[i]? = some k' →
      (i = t ∧ ∃ x, p.tasks[t]? = some x ∧ k' = f x) ∨ p.tasks[i]? = some k' := by
    intro i k' a
    obtain ⟨x, hx, e⟩ := getElem?_modify_some p.tasks t i f k' a
    by_cases c : t = i
    · subst c; rw [if_pos rfl] at e; exact Or.inl ⟨rfl, x, hx, e⟩
    · rw [if_neg c] at e; subst e; exact Or.inr hx
  refine ⟨?_, ?_, ?_⟩
  · intro i k' a hm
    rcases key i k' a with ⟨rfl, x, hx, rfl⟩ | b
    · obtain ⟨e1, e2, _, _⟩ := hf x hx
      exact e2 (h.nm _ x hx (by rw [← e1]; exact hm))
    · exact h.nm i k' b hm
  · intro i k' a hp
    rcases key i k' a with ⟨rfl, x, hx, rfl⟩ | b
    · exact (hf x hx).2.2.1 hp
    · exact h.ec i k' b hp
  · intro i k' a hp hl
    rcases key i k' a with ⟨rfl, x, hx, rfl⟩ | b
    · exact (hf x hx).2.2.2 hp hl
    · exact h.fin i k' b hp hl

/-- the phase of task `t` moves to one the invariant says nothing about -/
theorem mhok_modTask_ph {p : Pool} (h : MHOK p) (t : Nat) (f : PTask → PTask)
    (hf : ∀ k, (f k).isMap = k.isMap ∧ (k.mapHeld = false → (f k).mapHeld = false) ∧
      (f k).phase ≠ .inEndCb ∧ (f k).phase ≠ .finished := by
        exact fun _ => ⟨rfl, fun x => x, fun x => (by cases x), fun x => by cases x⟩) :
    MHOK (p.modTask t f) :=
  mhok_modTask h t f (fun k _ => ⟨(hf k).1, (hf k).2.1, fun x => absurd x (hf k).2.2.1, fun x => absurd x (hf k).2.2.2⟩)

theorem keep_releasePool (p : Pool) : Keep p p.releasePool := by
  unfold releasePool
  exact (keep_of_eq p ({ p with sem := p.sem.release.1 } : Pool) rfl (fun x => x)).trans (tame_schedOpt _ _).keep

theorem keep_releaseMap (p : Pool) (m : Nat) : Keep p (p.releaseMap m) := (tame0_releaseMap p m).keep

/-! ### the wrapper of a pool task -/

theorem mhok_completeTask (p : Pool) (t : Nat) (o : Outcome) (h : MHOK p) (hx : p.lost = true ∨ MF p t) :
    MHOK (p.completeTask t o) := by
  unfold completeTask
  split
  · exact h
  · refine MHOK.tame ?_ (tame_emitChildren _ _)
    refine mhok_modTask h t _ (fun k hk => ⟨rfl, fun x => x, fun x => (by cases x), fun _ hl => ?_⟩)
    rcases hx with e | e
    · rw [e] at hl; cases hl
    · exact e k hk

theorem mhok_finishTask (p : Pool) (t : Nat) (h : MHOK p) (hx : p.lost = true ∨ MF p t) : MHOK (p.finishTask t) := by
  unfold finishTask
  split
  · exact h
  · exact mhok_completeTask p t _ h hx

theorem mhok_suspendTask (p : Pool) (t : Nat) (ph : Phase) (h : MHOK p) (h1 : ph ≠ .finished)
    (h2 : ph = .inEndCb → MF p t) : MHOK (p.suspendTask t ph) := by
  unfold suspendTask
  split
  · exact h
  · split
    · refine MHOK.tame ?_ (tame_schedTask _ _)
      exact mhok_modTask h t _ (fun k hk => ⟨rfl, fun x => x, fun x => h2 x k hk, fun x => absurd x h1⟩)
    · exact mhok_modTask h t _ (fun k hk => ⟨rfl, fun x => x, fun x => h2 x k hk, fun x => absurd x h1⟩)

theorem keep_cbBegin (p : Pool) (t : Nat) (tk : PTask) (isEnd : Bool) : Keep p (p.cbBegin t tk isEnd) := by
  unfold cbBegin
  simp only
  refine ((Keep.trans ?_ (tame_logEv _ _).keep)).trans (tame_runHooks _ _ _).keep
  refine keep_modTask p t _ (fun k => ?_)
  unfold cbCount
  split <;> exact ⟨rfl, rfl, fun x => x⟩

/-- a callback that does not leave the wrapper suspended changes nothing the invariant reads -/
theorem keep_runCb (p : Pool) (t : Nat) (tk : PTask) (isEnd : Bool) (h2 : (p.runCb t tk isEnd).2 = false) :
    Keep p (p.runCb t tk isEnd).1 := by
  unfold runCb at h2 ⊢
  split
  · exact Keep.refl p
  · exact (keep_cbBegin p t tk isEnd).trans (tame_logEv _ _).keep
  · exact ((keep_cbBegin p t tk isEnd).trans (tame_logEv _ _).keep).trans (keep_modTask _ t _)
  · rename_i e; rw [e] at h2; cases h2

theorem mhok_runCb (p : Pool) (t : Nat) (tk : PTask) (isEnd : Bool) (h : MHOK p) (hm : isEnd = true → MF p t) :
    MHOK (p.runCb t tk isEnd).1 := by
  unfold runCb
  split
  · exact h
  · exact h.keep ((keep_cbBegin p t tk isEnd).trans (tame_logEv _ _).keep)
  · exact h.keep (((keep_cbBegin p t tk isEnd).trans (tame_logEv _ _).keep).trans (keep_modTask _ t _))
  · refine mhok_suspendTask _ t _ (h.keep (keep_cbBegin p t tk isEnd)) ?_ ?_
    · split <;> exact fun x => by cases x
    · intro e
      cases isEnd with
      | true => exact (hm rfl).keep (keep_cbBegin p t tk true)
      | false => cases e

theorem keep_releaseMapSlot (p : Pool) (t : Nat) (tk : PTask) : Keep p (p.releaseMapSlot t tk) := by
  unfold releaseMapSlot
  split
  · exact (keep_releaseMap p tk.req).trans (keep_modTask _ t _ (fun _ => ⟨rfl, rfl, fun _ => rfl⟩))
  · exact Keep.refl p

/-- after `releaseMapSlot` the task holds no map slot: released just now, or never had one -/
theorem mf_releaseMapSlot (p : Pool) (t : Nat) (tk : PTask) (h : MHOK p) (hi : IM p t tk) :
    MF (p.releaseMapSlot t tk) t := by
  unfold releaseMapSlot
  split
  · intro k a
    obtain ⟨x, _, rfl⟩ := getElem?_modify_some _ t t _ k a
    simp
  · rename_i hm
    intro k a
    exact h.nm t k a (by rw [hi k a]; simpa using hm)

theorem mhok_endCallback (p : Pool) (t : Nat) (tk : PTask) (h : MHOK p) (hi : IM p t tk) :
    MHOK (p.endCallback t tk) := by
  unfold endCallback
  simp only
  have h1 : MHOK (p.releaseMapSlot t tk) := h.keep (keep_releaseMapSlot p t tk)
  have m1 := mf_releaseMapSlot p t tk h hi
  have h2 := mhok_runCb _ t tk true h1 (fun _ => m1)
  split
  · exact h2
  · rename_i hr
    exact mhok_finishTask _ t h2 (Or.inr (m1.keep (keep_runCb _ t tk true (by simpa using hr))))

theorem mhok_endingTail (p : Pool) (t : Nat) (tk : PTask) (h : MHOK p) (hi : IM p t tk) : MHOK (p.endingTail t tk) := by
  unfold endingTail
  have k := (keep_releasePool p).trans (keep_modTask _ t (fun k => { k with released := true }))
  exact mhok_endCallback _ t tk (h.keep k) (hi.keep k)

theorem mhok_keyErrorFinish (p : Pool) (t : Nat) (h : MHOK p) : MHOK (p.keyErrorFinish t) := by
  unfold keyErrorFinish
  refine mhok_finishTask _ t ?_ (Or.inl rfl)
  exact h.keep ((keep_of_eq p ({ p with lost := true } : Pool) rfl (fun x => by cases x)).trans (keep_modTask _ t _))

theorem mhok_taskEnding (p : Pool) (t : Nat) (h : MHOK p) : MHOK (p.taskEnding t) := by
  unfold taskEnding
  split
  · exact h
  · rename_i tk htk
    split
    · exact mhok_keyErrorFinish p t h
    · rename_i p1 hm
      have f := moveToEnded_frame p p1 t hm
      refine mhok_endingTail p1 t tk (h.eq p1 f.2 (by rw [moveToEnded_lost p p1 t hm]; exact fun x => x)) ?_
      intro k a
      rw [f.2, htk] at a; cases a; rfl

theorem mhok_cancelCallback (p : Pool) (t : Nat) (tk : PTask) (h : MHOK p) : MHOK (p.cancelCallback t tk) := by
  unfold cancelCallback
  simp only
  have h1 := mhok_runCb p t tk false h (fun x => by cases x)
  split
  · exact h1
  · exact mhok_taskEnding _ t h1

theorem mhok_taskCancellation (p : Pool) (t : Nat) (tk : PTask) (h : MHOK p) : MHOK (p.taskCancellation t tk) := by
  unfold taskCancellation
  split
  · refine mhok_cancelCallback _ t tk ?_
    exact (h.eq ({ p with running := p.running.erase t, cancelledR := p.cancelledR ++ [t] } : Pool)).keep (keep_modTask _ t _)
  · refine mhok_taskEnding _ t ?_
    exact (h.eq ({ p with lost := true } : Pool) rfl (fun x => by cases x)).keep (keep_modTask _ t _)

theorem mhok_afterWorker (p : Pool) (t : Nat) (e : Option Err) (h : MHOK p) : MHOK (p.afterWorker t e) := by
  unfold afterWorker
  split
  · exact mhok_taskEnding _ t (mhok_modTask_ph (h.tame (tame_logEv p _)) t _)
  · exact mhok_taskEnding _ t (mhok_modTask_ph (h.tame (tame_logEv p _)) t _)

theorem mhok_stepCreated (p : Pool) (t : Nat) (tk : PTask) (h : MHOK p) : MHOK (p.stepCreated t tk) := by
  unfold stepCreated
  split
  · exact mhok_taskCancellation _ t tk (mhok_modTask_ph h t _)
  · simp only
    have h0 : MHOK (((p.logEv (.started t tk.arg)).modTask t fun k => { k with phase := .inWorker, fut := .ok, unstarted := false }).runHooks tk.req (p.reqOf tk).hooks.start) :=
      (mhok_modTask_ph (h.tame (tame_logEv p _)) t _).tame (tame_runHooks _ _ _)
    split
    · exact mhok_afterWorker _ t _ h0
    · exact mhok_afterWorker _ t _ h0
    · exact mhok_suspendTask _ t _ (h0.keep (keep_modTask _ t _)) (fun x => by cases x) (fun x => by cases x)

theorem mhok_workerNext (p : Pool) (t : Nat) (tk : PTask) (h : MHOK p) : MHOK (p.workerNext t tk) := by
  unfold workerNext
  exact mhok_suspendTask _ t _ (((h.tame (tame_logEv p _)).keep (keep_modTask _ t _)).tame (tame_runHooks _ _ _))
    (fun x => by cases x) (fun x => by cases x)

theorem mhok_workerCancelled (p : Pool) (t : Nat) (tk : PTask) (h : MHOK p) : MHOK (p.workerCancelled t tk) := by
  unfold workerCancelled
  split
  · exact mhok_suspendTask _ t _ ((h.tame (tame_logEv p _)).keep (keep_modTask _ t _)) (fun x => by cases x) (fun x => by cases x)
  · simp only
    have h0 : MHOK ((p.logEv (.sawCancel t)).modTask t fun k => { k with sawCancel := true, phase := .wrapUp, nSaw := k.nSaw + 1 }) :=
      mhok_modTask_ph (h.tame (tame_logEv p _)) t _
    split
    · exact mhok_afterWorker _ t _ h0
    · exact mhok_taskCancellation _ t tk h0

theorem mhok_stepInWorker (p : Pool) (t : Nat) (tk : PTask) (h : MHOK p) : MHOK (p.stepInWorker t tk) := by
  unfold stepInWorker
  split
  · exact mhok_workerCancelled _ t tk (h.keep (keep_modTask p t _))
  · split
    · split
      · exact mhok_workerNext p t tk h
      · exact mhok_afterWorker p t _ h
    · exact mhok_afterWorker p t _ h
    · exact h

theorem mhok_stepInCancelCb (p : Pool) (t : Nat) (tk : PTask) (h : MHOK p) : MHOK (p.stepInCancelCb t tk) := by
  unfold stepInCancelCb
  split
  · exact mhok_taskEnding _ t (mhok_modTask_ph (h.tame (tame_logEv p _)) t _)
  · exact mhok_taskEnding _ t (mhok_modTask_ph (h.tame (tame_logEv p _)) t _)
  · exact mhok_taskEnding _ t (mhok_modTask_ph (h.tame (tame_logEv p _)) t _)
  · exact h

/-- the coroutine end callback is over: the map slot was handed back before it began (clause `ec`) -/
theorem mhok_stepInEndCb (p : Pool) (t : Nat) (tk : PTask) (h : MHOK p) (hm : MF p t) : MHOK (p.stepInEndCb t tk) := by
  unfold stepInEndCb
  split
  · exact mhok_finishTask _ t (h.tame (tame_logEv p _)) (Or.inr (hm.keep (tame_logEv p _).keep))
  · rename_i e _
    have k := (tame_logEv p (.endCbRaised t)).keep.trans (keep_modTask _ t (fun k => { k with pendingExc := some e }))
    exact mhok_finishTask _ t (h.keep k) (Or.inr (hm.keep k))
  · have k := (tame_logEv p (.endCbKilled t)).keep.trans (keep_modTask _ t (fun k => { k with pendingExc := some .cancelledError }))
    exact mhok_finishTask _ t (h.keep k) (Or.inr (hm.keep k))
  · exact h

theorem mhok_stepTask (p : Pool) (t : Nat) (h : MHOK p) : MHOK (p.stepTask t) := by
  unfold stepTask
  split
  · exact h
  · rename_i tk htk
    split
    · exact h
    · simp only
      have k0 : Keep p (p.modTask t fun k => { k with sched := false }) := keep_modTask p t _
      have h0 := h.keep k0
      split
      · exact mhok_stepCreated _ t tk h0
      · exact h0
      · exact mhok_stepInWorker _ t tk h0
      · exact mhok_stepInCancelCb _ t tk h0
      · rename_i hph
        refine mhok_stepInEndCb _ t tk h0 ?_
        intro k' a
        obtain ⟨x, b, e1, _, e3⟩ := k0.pt t k' a
        rw [htk] at b; cases b
        exact e3 (h.ec t tk htk hph)
      · exact h0

/-! ### spawners: tasks are only appended, and a new task is `created` with `mapHeld = isMap` -/

theorem mhok_waitRoom (p : Pool) (m : Nat) (h : MHOK p) : MHOK (p.waitRoom m) := by
  unfold waitRoom
  simp only
  split
  · exact (h.eq _).tame (tame_schedMeta _ m)
  · exact h.eq _

theorem mhok_waitMapSem (p : Pool) (m : Nat) (h : MHOK p) : MHOK (p.waitMapSem m) := by
  unfold waitMapSem
  simp only
  split
  · exact (h.eq _).tame (tame_schedMeta _ m)
  · exact h.eq _

theorem mhok_createTask (p : Pool) (m : Nat) (isMap : Bool) (h : MHOK p) : MHOK (p.createTask m isMap) := by
  unfold createTask
  simp only [emitRef, modReq]
  have key : ∀ (i : Nat) (k : PTask) (n : PTask), (p.tasks ++ [n])[i]? = some k → p.tasks[i]? = some k ∨ k = n := by
    intro i k n a
    rw [List.getElem?_append] at a
    split at a
    · exact Or.inl a
    · right
      cases hi : i - p.tasks.length with
      | zero => rw [hi] at a; simp at a; exact a.symm
      | succ j => rw [hi] at a; simp at a
  refine ⟨?_, ?_, ?_⟩
  · intro i k a hm
    rcases key i k _ a with b | rfl
    · exact h.nm i k b hm
    · exact hm
  · intro i k a hp
    rcases key i k _ a with b | rfl
    · exact h.ec i k b hp
    · cases hp
  · intro i k a hp hl
    rcases key i k _ a with b | rfl
    · exact h.fin i k b hp hl
    · cases hp

theorem mhok_takeSlotAndCreate (p : Pool) (m : Nat) (isMap : Bool) (h : MHOK p) : MHOK (p.takeSlotAndCreate m isMap) := by
  unfold takeSlotAndCreate
  exact mhok_createTask _ m isMap (h.eq _)

theorem mhok_applyLoop (m n : Nat) (p : Pool) (h : MHOK p) : MHOK (applyLoop m n p) := by
  induction n generalizing p with
  | zero =>
    unfold applyLoop
    exact (h.eq _).tame (tame_finishMeta _ m _)
  | succ n ih =>
    unfold applyLoop
    simp only
    have h0 : MHOK (p.modReq m fun x => { x with remaining := n + 1 }) := h.eq _
    split
    · exact ih _ (h0.eq _)
    · split
      · exact h0.tame (tame_finishMeta _ m _)
      · split
        · exact h0.tame (tame_finishMeta _ m _)
        · split
          · exact mhok_waitRoom _ m h0
          · exact ih _ (mhok_takeSlotAndCreate _ m false h0)

theorem mhok_pullItem (p : Pool) (m : Nat) (rest : List Item) (h : MHOK p) : MHOK (p.pullItem m rest) := by
  unfold pullItem
  simp only
  exact ((h.eq _).tame (tame_logEv _ _)).tame (tame_runHooks _ m _)

theorem mhok_takeMapSlot (p : Pool) (m : Nat) (h : MHOK p) : MHOK (p.takeMapSlot m) := by
  unfold takeMapSlot
  exact h.eq _

theorem mhok_mapStartTask (p : Pool) (m : Nat) (h : MHOK p) : MHOK (p.mapStartTask m).1 := by
  unfold mapStartTask
  split
  · exact h.tame (tame_finishMeta p m _)
  · split
    · exact mhok_waitRoom p m h
    · exact mhok_takeSlotAndCreate p m true h

theorem mhok_mapLoop (m : Nat) (items : List Item) (p : Pool) (h : MHOK p) : MHOK (mapLoop m items p) := by
  induction items generalizing p with
  | nil =>
    unfold mapLoop
    exact (h.eq _).tame (tame_finishMeta _ m _)
  | cons it rest ih =>
    unfold mapLoop
    simp only
    have h0 := mhok_pullItem p m rest h
    split
    · exact h0.tame (tame_finishMeta _ m _)
    · split
      · exact ih _ (h0.eq _)
      · split
        · exact mhok_waitMapSem _ m h0
        · have h1 := mhok_mapStartTask _ m (mhok_takeMapSlot _ m h0)
          split
          · exact ih _ h1
          · exact h1

theorem mhok_continueSpawner (p : Pool) (m : Nat) (h : MHOK p) : MHOK (p.continueSpawner m) := by
  unfold continueSpawner
  simp only
  split
  · exact mhok_applyLoop m _ p h
  · exact mhok_mapLoop m _ p h

theorem mhok_roomWaitCancelled (p : Pool) (m : Nat) (r : Req) (st : Option WaitSt) (h : MHOK p) :
    MHOK (p.roomWaitCancelled m r st) := by
  unfold roomWaitCancelled
  simp only
  refine MHOK.tame ?_ (tame_finishMeta _ m _)
  have h1 : MHOK (if (st == some WaitSt.granted) = true then p.releasePool else p) := by
    split
    · exact h.keep (keep_releasePool p)
    · exact h
  generalize (if (st == some WaitSt.granted) = true then p.releasePool else p) = q at h1 ⊢
  split
  · exact h1.keep (keep_releaseMap q m)
  · exact h1

theorem mhok_roomGranted (p : Pool) (m : Nat) (r : Req) (h : MHOK p) : MHOK (p.roomGranted m r) := by
  unfold roomGranted
  simp only
  refine mhok_continueSpawner _ m (mhok_createTask _ m _ ?_)
  have h0 : MHOK (p.modReq m fun x => { x with frame := MFrame.running }) := h.eq _
  split
  · exact (h0.eq _).tame (tame_schedOpt _ _)
  · exact h0

theorem mhok_wakeWaitRoomCore (p : Pool) (m : Nat) (r : Req) (h : MHOK p) : MHOK (p.wakeWaitRoomCore m r) := by
  unfold wakeWaitRoomCore
  simp only
  have h0 : MHOK (({ p with sem := { p.sem with waiters := (removeWaiterL m p.sem.waiters).2 } } : Pool).modReq m
      fun x => { x with mustCancel := false }) := h.eq _
  split
  · exact mhok_roomWaitCancelled _ m r _ h0
  · split
    · exact mhok_roomGranted _ m r h0
    · exact h0

theorem mhok_wakeWaitRoom (p : Pool) (m : Nat) (r : Req) (h : MHOK p) : MHOK (p.wakeWaitRoom m r) := by
  unfold wakeWaitRoom
  split
  · exact mhok_wakeWaitRoomCore p m r h
  · exact h

theorem mhok_mapSemGranted (p : Pool) (m : Nat) (r : Req) (h : MHOK p) : MHOK (p.mapSemGranted m r) := by
  unfold mapSemGranted
  simp only
  have h1 := mhok_mapStartTask _ m (h.eq (p.modReq m fun x => { x with acquired := true, frame := MFrame.running }))
  split
  · exact mhok_mapLoop m _ _ h1
  · exact h1

theorem mhok_wakeWaitMapSemCore (p : Pool) (m : Nat) (r : Req) (h : MHOK p) : MHOK (p.wakeWaitMapSemCore m r) := by
  unfold wakeWaitMapSemCore
  simp only
  generalize (if ((removeWaiterL m r.mapSem.waiters).1 == some WaitSt.granted) = true then _ else _ : Sem × Option Nat) = s2
  have h0 : MHOK ((p.modReq m fun x => { x with mapSem := s2.1, mustCancel := false }).schedOpt s2.2) :=
    (h.eq _).tame (tame_schedOpt _ _)
  split
  · exact h0.tame (tame_finishMeta _ m _)
  · split
    · exact mhok_mapSemGranted _ m r h0
    · exact h0

theorem mhok_wakeWaitMapSem (p : Pool) (m : Nat) (r : Req) (h : MHOK p) : MHOK (p.wakeWaitMapSem m r) := by
  unfold wakeWaitMapSem
  split
  · exact mhok_wakeWaitMapSemCore p m r h
  · exact h

theorem mhok_stepMeta (p : Pool) (m : Nat) (h : MHOK p) : MHOK (p.stepMeta m) := by
  unfold stepMeta
  split
  · exact h
  · split
    · exact h
    · simp only
      have h0 : MHOK (p.modReq m fun x => { x with sched := false }) := h.eq _
      split
      · exact h0
      · exact h0
      · unfold stepMetaNotStarted
        split
        · exact h0.tame (tame_finishMeta _ m _)
        · split
          · exact mhok_applyLoop m _ _ h0
          · exact mhok_mapLoop m _ _ h0
      · exact mhok_wakeWaitRoom _ m _ h0
      · exact mhok_wakeWaitMapSem _ m _ h0

/-! ### flush / gather_and_close / until_closed: `lost` may be set, never reset; tasks untouched -/

theorem mhok_modApi (p : Pool) (a : Nat) (f : Api → Api) (h : MHOK p) : MHOK (p.modApi a f) := h.eq _

theorem mhok_flushAfter2 (p : Pool) (a : Nat) (o : Outcome) (h : MHOK p) : MHOK (p.flushAfter2 a o) := by
  unfold flushAfter2
  split
  · simp only
    refine MHOK.tame ?_ (tame_finishApi _ a _)
    exact h.eq _ rfl (fun x => (Bool.or_eq_false_iff.mp x).1)
  · exact h.tame (tame_finishApi p a _)

theorem mhok_flushAfter1 (p : Pool) (a : Nat) (re : Bool) (o : Outcome) (h : MHOK p) : MHOK (p.flushAfter1 a re o) := by
  unfold flushAfter1
  split
  · exact h.tame (tame_finishApi p a _)
  · simp only
    have h1 : MHOK ({ p with metaCancelled := [], reqs := p.reqs.map fun (r : Req) => { r with inCancelled := false } } : Pool) :=
      h.eq _
    split
    · exact mhok_flushAfter2 _ a _ ((h1.eq _).tame (tame_gatherStart _ _ _ _ _))
    · exact mhok_modApi _ a _ ((h1.eq _).tame (tame_gatherStart _ _ _ _ _))

theorem mhok_flushStage1 (p : Pool) (a : Nat) (re : Bool) (h : MHOK p) : MHOK (p.flushStage1 a re) := by
  unfold flushStage1
  simp only
  have h1 : MHOK ({ p with reqs := p.reqs.map fun (r : Req) => if r.inRunning && r.outcome.isSome then { r with inRunning := false } else r } : Pool) :=
    h.eq _
  split
  · exact mhok_flushAfter1 _ a re _ (h1.tame (tame_gatherStart _ _ _ _ _))
  · exact mhok_modApi _ a _ (h1.tame (tame_gatherStart _ _ _ _ _))

theorem mhok_gacAfter2 (p : Pool) (a : Nat) (o : Outcome) (h : MHOK p) : MHOK (p.gacAfter2 a o) := by
  unfold gacAfter2
  split
  · simp only
    refine MHOK.tame ?_ (tame_finishApi _ a _)
    refine MHOK.tame ?_ (tame_foldl _ _ (fun p w => tame_schedApi p w) _)
    exact h.eq _ rfl (fun x => (Bool.or_eq_false_iff.mp x).1)
  · exact h.tame (tame_finishApi p a _)

theorem mhok_gacAfter1 (p : Pool) (a : Nat) (re : Bool) (g : Nat) (h : MHOK p) : MHOK (p.gacAfter1 a re g) := by
  unfold gacAfter1
  simp only
  split
  · exact h.tame (tame_finishApi p a _)
  · have h1 : MHOK ({ p with metaCancelled := [], reqs := p.reqs.map fun (r : Req) => { r with inCancelled := false, inRunning := false } } : Pool) :=
      h.eq _
    split
    · exact mhok_gacAfter2 _ a _ (h1.tame (tame_gatherStart _ _ _ _ _))
    · exact mhok_modApi _ a _ (h1.tame (tame_gatherStart _ _ _ _ _))

theorem mhok_gacStage1 (p : Pool) (a : Nat) (re : Bool) (h : MHOK p) : MHOK (p.gacStage1 a re) := by
  unfold gacStage1
  simp only
  split
  · exact mhok_gacAfter1 _ a re _ ((h.eq _).tame (tame_gatherStart _ _ true a 0))
  · exact mhok_modApi _ a _ ((h.eq _).tame (tame_gatherStart _ _ true a 0))

theorem mhok_stepApi (p : Pool) (a : Nat) (h : MHOK p) : MHOK (p.stepApi a) := by
  unfold stepApi
  split
  · exact h
  · split
    · exact h
    · simp only
      have h0 : MHOK (p.modApi a fun x => { x with sched := false }) := h.eq _
      split
      · exact h0
      · exact mhok_flushStage1 _ a _ h0
      · exact mhok_gacStage1 _ a _ h0
      · unfold untilClosedStart
        split
        · exact h0.tame (tame_finishApi _ a _)
        · exact h0.eq _
      · exact h0.tame (tame_finishApi _ a _)
      · split
        · exact mhok_flushAfter1 _ a _ _ h0
        · exact h0
      · split
        · exact mhok_gacAfter1 _ a _ _ h0
        · exact h0
      · split
        · exact mhok_flushAfter2 _ a _ h0
        · exact h0
      · split
        · exact mhok_gacAfter2 _ a _ h0
        · exact h0
      · exact h0

/-! ### every handle, every operation -/

theorem mhok_runRef (p : Pool) (r : Ref) (h : MHOK p) : MHOK (p.runRef r) := by
  cases r with
  | task t => exact mhok_stepTask p t h
  | spawner m => exact mhok_stepMeta p m h
  | api a => exact mhok_stepApi p a h
  | gchild g i => exact h.tame (tame_gatherChildDone p g i true)

theorem mhok_addApi (p : Pool) (k : ApiKind) (h : MHOK p) : MHOK (p.addApi k) := by
  unfold addApi
  simp only
  exact (h.eq _).tame (tame_emitRef _ _)

theorem mhok_applyOp (p : Pool) (op : Op) (h : MHOK p) : MHOK (p.applyOp op).1 := by
  by_cases hs : op.isSetSize = true
  · cases op with
    | setSize v =>
      show MHOK (p.doSetSize v).1
      unfold doSetSize
      split
      · exact h
      · exact h.eq _
    | _ => simp [Op.isSetSize] at hs
  · by_cases ha : op.isAsync = true
    · cases op with
      | flush re => exact mhok_addApi p _ h
      | gac re => exact mhok_addApi p _ h
      | untilClosed => exact mhok_addApi p _ h
      | _ => simp [Op.isAsync] at ha
    · exact h.tame (tame_applyOp p op (by simpa using hs) (by simpa using ha))

theorem mhok_init (size : Cap) (simple : Option SpawnSpec) : MHOK (Pool.init size simple) :=
  ⟨fun t k a => by simp [Pool.init] at a, fun t k a => by simp [Pool.init] at a, fun t k a => by simp [Pool.init] at a⟩

end Pool

/-- **`MHOK` holds in every pool of every reachable world**: established by the constructor, preserved by every
operation, every handle and the drain -/
theorem mhInvariant : PoolInvariant (fun _ p => Pool.MHOK p) allOps where
  init := fun c simple _ => Pool.mhok_init c.size0 simple
  op := fun _ p orders o _ h => Pool.mhok_applyOp _ o (h.tame (Pool.tame_setOrders p orders))
  run := fun _ p orders r h => Pool.mhok_runRef _ r (h.tame (Pool.tame_setOrders p orders))
  drain := fun _ p h => h.eq _

end Taskpool
