import Taskpool.Inv.NonInt
/-! **Noninterference (C12), the walk — part 2: the wrapper of a pool task respects the erasure.**

The functions of the wrapper write the erased fields (`pendingExc`, the outcome, the awaited future) and log how the
task ended, so they do not commute with the erasure; they *respect* it:
`er t p = er t q → er t (f p) = er t (f q)` (`…_R`), proved through the one-pool form
`er t (f p) = er t (f (er t p))` (`…_fac`) where `f` reads the pool.

The two places where the runs actually differ — the worker (a callback) ended by returning in one and by raising in
the other — are `afterWorker_R` (`e` vs `e'` on task `t`) and the `.ok` / `.exc` branches of `stepInWorker`,
`stepInCancelCb`, `stepInEndCb`. -/
namespace Taskpool
namespace Pool

variable {t : Nat}

/-! ### tools -/

theorem R_comm {f : Pool → Pool} (hf : ∀ p, f (er t p) = er t (f p)) {p q : Pool} (h : er t p = er t q) :
    er t (f p) = er t (f q) := by rw [← hf, ← hf, h]

theorem R_fac {f : Pool → Pool} (hf : ∀ p, er t (f p) = er t (f (er t p))) {p q : Pool} (h : er t p = er t q) :
    er t (f p) = er t (f q) := by rw [hf p, hf q, h]

theorem er_logEv (p : Pool) (e : Ev) : er t (p.logEv e) = (er t p).logEv (erEv t e) := by
  simp only [logEv, er, List.map_append, List.map_cons, List.map_nil]

theorem logEv_R {p q : Pool} (h : er t p = er t q) (e e' : Ev) (he : erEv t e = erEv t e') :
    er t (p.logEv e) = er t (q.logEv e') := by
  rw [er_logEv, er_logEv, h, he]

/-- a change of a task record, possibly a different one on the two sides -/
theorem modTask_fac (p : Pool) (t' : Nat) (f g : PTask → PTask)
    (hfg : ∀ k, erAt t t' (f k) = erAt t t' (g (erAt t t' k))) :
    er t (p.modTask t' f) = er t ((er t p).modTask t' g) := by
  simp only [modTask, er, List.map_map]
  congr 1
  · apply List.ext_getElem?
    intro j
    simp only [List.getElem?_modify]
    cases p.tasks[j]? with
    | none => rfl
    | some k =>
      have h1 := hfg k
      simp only [erAt] at h1
      by_cases h2 : t = j <;> by_cases h3 : t' = j
      · subst h2; subst h3; simpa using h1
      · simp [h2, h3]
      · subst h3; simpa [h2] using h1
      · simp [h2, h3]
  · apply List.map_congr_left; intro e _; simp

theorem modTask_R {p q : Pool} (h : er t p = er t q) (t' : Nat) (f g : PTask → PTask)
    (hfg : ∀ k, erAt t t' (f k) = erAt t t' (g (erAt t t' k)))
    (hg : ∀ k, erAt t t' (g k) = erAt t t' (g (erAt t t' k))) :
    er t (p.modTask t' f) = er t (q.modTask t' g) := by
  rw [modTask_fac p t' f g hfg, modTask_fac q t' g g hg, h]

/-- discharges `∀ k, erAt t t' (f k) = erAt t t' (g (erAt t t' k))` for record updates `f`, `g` -/
macro "ertac2" : tactic =>
  `(tactic| (intro k; unfold erAt; split <;>
      first
      | rfl
      | (cases k; simp only [erTask, PTask.mk.injEq, true_and, and_true]; (repeat' split) <;> simp_all [Function.comp_def])))

/-- the same change on both sides -/
theorem modTask_R' {p q : Pool} (h : er t p = er t q) (t' : Nat) (f : PTask → PTask)
    (hf : ∀ k, erAt t t' (f k) = erAt t t' (f (erAt t t' k))) :
    er t (p.modTask t' f) = er t (q.modTask t' f) := modTask_R h t' f f hf hf

theorem emitChildren_R {p q : Pool} (h : er t p = er t q) (cbs : List (Nat × Nat)) :
    er t (p.emitChildren cbs) = er t (q.emitChildren cbs) := R_comm (f := fun x => x.emitChildren cbs) (fun x => emitChildren_er x _) h
theorem releasePool_R {p q : Pool} (h : er t p = er t q) : er t p.releasePool = er t q.releasePool :=
  R_comm (f := fun x => x.releasePool) releasePool_er h
theorem runHooks_R {p q : Pool} (h : er t p = er t q) (ctx : Nat) (hs : List HookOp) :
    er t (p.runHooks ctx hs) = er t (q.runHooks ctx hs) := R_comm (f := fun x => x.runHooks ctx hs) (fun x => runHooks_er x _ _) h
theorem schedTask_R {p q : Pool} (h : er t p = er t q) (t' : Nat) : er t (p.schedTask t') = er t (q.schedTask t') :=
  R_comm (f := fun x => x.schedTask t') (fun x => schedTask_er x _) h

/-! ### the end of the wrapper -/

/-- the asyncio Task of `t'` is done; on task `t` itself the outcome may differ -/
theorem completeTask_fac (p : Pool) (t' : Nat) (o o' : Outcome) (ho : t ≠ t' → o = o') :
    er t (p.completeTask t' o) = er t ((er t p).completeTask t' o') := by
  unfold completeTask
  simp only [er_tasks_get]
  cases p.tasks[t']? with
  | none => simp
  | some tk =>
    simp only [Option.map_some, erAt_outcome_isSome, erAt_doneCbs]
    refine emitChildren_R ?_ _
    refine modTask_fac _ _ _ _ ?_
    intro k
    unfold erAt
    split
    · cases k; simp only [erTask, PTask.mk.injEq, true_and, and_true]; (repeat' split) <;> simp_all
    · rename_i h; rw [ho h]

theorem completeTask_R {p q : Pool} (h : er t p = er t q) (t' : Nat) (o o' : Outcome) (ho : t ≠ t' → o = o') :
    er t (p.completeTask t' o) = er t (q.completeTask t' o') := by
  rw [completeTask_fac p t' o o' ho, completeTask_fac q t' o' o' (fun _ => rfl), h]

theorem finishTask_fac (p : Pool) (t' : Nat) : er t (p.finishTask t') = er t ((er t p).finishTask t') := by
  unfold finishTask
  simp only [er_tasks_get]
  cases p.tasks[t']? with
  | none => simp
  | some tk =>
    simp only [Option.map_some]
    refine completeTask_fac _ _ _ _ ?_
    intro h; simp [erAt, h]

theorem finishTask_R {p q : Pool} (h : er t p = er t q) (t' : Nat) : er t (p.finishTask t') = er t (q.finishTask t') :=
  R_fac (fun x => finishTask_fac x t') h

@[simp] theorem suspendTask_er (p : Pool) (t' : Nat) (ph : Phase) : (er t p).suspendTask t' ph = er t (p.suspendTask t' ph) := by
  unfold suspendTask
  simp only [er_tasks_get]
  cases p.tasks[t']? with
  | none => rfl
  | some tk =>
    simp only [Option.map_some, erAt_mustCancel]
    split
    · rw [modTask_er _ _ _ (by ertac)]; simp
    · rw [modTask_er _ _ _ (by ertac)]

@[simp] theorem reqOf_er (p : Pool) (tk : PTask) : (er t p).reqOf tk = p.reqOf tk := rfl

@[simp] theorem cbBegin_er (p : Pool) (t' : Nat) (tk : PTask) (isEnd : Bool) :
    (er t p).cbBegin t' tk isEnd = er t (p.cbBegin t' tk isEnd) := by
  unfold cbBegin
  simp only [reqOf_er, counters_er, lookupRunning_er]
  cases isEnd
  · rw [modTask_er _ _ _ (by ertac), logEv_er _ _ (by rfl)]; simp
  · rw [modTask_er _ _ _ (by ertac), logEv_er _ _ (by rfl)]; simp

theorem suspendTask_R {p q : Pool} (h : er t p = er t q) (t' : Nat) (ph : Phase) :
    er t (p.suspendTask t' ph) = er t (q.suspendTask t' ph) := R_comm (f := fun x => x.suspendTask t' ph) (fun x => suspendTask_er x _ _) h
theorem cbBegin_R {p q : Pool} (h : er t p = er t q) (t' : Nat) (tk : PTask) (isEnd : Bool) :
    er t (p.cbBegin t' tk isEnd) = er t (q.cbBegin t' tk isEnd) :=
  R_comm (f := fun x => x.cbBegin t' tk isEnd) (fun x => cbBegin_er x _ _ _) h

/-- a user callback: a raising one sets `pendingExc` — in both runs alike -/
theorem runCb_R {p q : Pool} (h : er t p = er t q) (t' : Nat) (tk : PTask) (isEnd : Bool) :
    er t (p.runCb t' tk isEnd).1 = er t (q.runCb t' tk isEnd).1 ∧ (p.runCb t' tk isEnd).2 = (q.runCb t' tk isEnd).2 := by
  have hb : er t (p.cbBegin t' tk isEnd) = er t (q.cbBegin t' tk isEnd) := cbBegin_R h _ _ _
  unfold runCb
  split
  · exact ⟨h, rfl⟩
  · exact ⟨logEv_R hb _ _ rfl, rfl⟩
  · exact ⟨modTask_R' (logEv_R hb _ _ rfl) _ _ (by ertac2), rfl⟩
  · exact ⟨suspendTask_R hb _ _, rfl⟩

@[simp] theorem moveToEnded_er (p : Pool) (j : Nat) : (er t p).moveToEnded j = (p.moveToEnded j).map (er t) := by
  unfold moveToEnded; simp only [er_running, er_cancelledR, er_ended]; splits

@[simp] theorem releaseMapSlot_er (p : Pool) (t' : Nat) (tk : PTask) :
    (er t p).releaseMapSlot t' tk = er t (p.releaseMapSlot t' tk) := by
  unfold releaseMapSlot
  split
  · rw [releaseMap_er, modTask_er _ _ _ (by ertac)]
  · rfl

theorem releaseMapSlot_R {p q : Pool} (h : er t p = er t q) (t' : Nat) (tk : PTask) :
    er t (p.releaseMapSlot t' tk) = er t (q.releaseMapSlot t' tk) :=
  R_comm (f := fun x => x.releaseMapSlot t' tk) (fun x => releaseMapSlot_er x _ _) h

theorem endCallback_R {p q : Pool} (h : er t p = er t q) (t' : Nat) (tk : PTask) :
    er t (p.endCallback t' tk) = er t (q.endCallback t' tk) := by
  have h1 := runCb_R (releaseMapSlot_R h t' tk) t' tk true
  unfold endCallback
  simp only [h1.2]
  split
  · exact h1.1
  · exact finishTask_R h1.1 _

theorem endingTail_R {p q : Pool} (h : er t p = er t q) (t' : Nat) (tk : PTask) :
    er t (p.endingTail t' tk) = er t (q.endingTail t' tk) := by
  unfold endingTail
  refine endCallback_R ?_ _ _
  refine modTask_R' ?_ _ _ (by ertac2)
  exact releasePool_R h

theorem keyErrorFinish_R {p q : Pool} (h : er t p = er t q) (t' : Nat) :
    er t (p.keyErrorFinish t') = er t (q.keyErrorFinish t') := by
  unfold keyErrorFinish
  refine finishTask_R ?_ _
  refine modTask_R' ?_ _ _ (by ertac2)
  exact congrArg (fun x : Pool => ({ x with lost := true } : Pool)) h

theorem endingTail_tk (p : Pool) (t' : Nat) (tk : PTask) : p.endingTail t' (erAt t t' tk) = p.endingTail t' tk := by
  unfold erAt; split <;> rfl

theorem taskEnding_fac (p : Pool) (t' : Nat) : er t (p.taskEnding t') = er t ((er t p).taskEnding t') := by
  unfold taskEnding
  simp only [er_tasks_get, moveToEnded_er]
  cases p.tasks[t']? with
  | none => simp
  | some tk =>
    simp only [Option.map_some]
    cases p.moveToEnded t' with
    | none => exact keyErrorFinish_R (er_er p).symm _
    | some p1 =>
      simp only [Option.map_some, endingTail_tk]
      exact endingTail_R (er_er p1).symm _ _

theorem taskEnding_R {p q : Pool} (h : er t p = er t q) (t' : Nat) : er t (p.taskEnding t') = er t (q.taskEnding t') :=
  R_fac (fun x => taskEnding_fac x t') h

theorem cancelCallback_R {p q : Pool} (h : er t p = er t q) (t' : Nat) (tk : PTask) :
    er t (p.cancelCallback t' tk) = er t (q.cancelCallback t' tk) := by
  have h1 := runCb_R h t' tk false
  unfold cancelCallback
  simp only [h1.2]
  split
  · exact h1.1
  · exact taskEnding_R h1.1 _

theorem taskCancellation_fac (p : Pool) (t' : Nat) (tk : PTask) :
    er t (p.taskCancellation t' tk) = er t ((er t p).taskCancellation t' tk) := by
  unfold taskCancellation
  simp only [er_running]
  by_cases hr : p.running.contains t' = true <;> simp only [hr, ↓reduceIte, Bool.false_eq_true]
  · refine cancelCallback_R ?_ _ _
    refine modTask_R' ?_ _ _ (by ertac2)
    exact (er_er _).symm
  · refine taskEnding_R ?_ _
    refine modTask_R' ?_ _ _ (by ertac2)
    exact (er_er _).symm

theorem taskCancellation_R {p q : Pool} (h : er t p = er t q) (t' : Nat) (tk : PTask) :
    er t (p.taskCancellation t' tk) = er t (q.taskCancellation t' tk) :=
  R_fac (fun x => taskCancellation_fac x t' tk) h

/-! ### the worker -/

/-- **the worker of task `t` returned in one run and raised in the other**: what is left of the difference —
`returned t` / `raised t` in the log, `pendingExc` — is erased; for every other task the outcomes agree -/
theorem afterWorker_R {p q : Pool} (h : er t p = er t q) (t' : Nat) (e e' : Option Err) (he : t ≠ t' → e = e') :
    er t (p.afterWorker t' e) = er t (q.afterWorker t' e') := by
  by_cases htt : t = t'
  · subst htt
    unfold afterWorker
    cases e <;> cases e' <;> simp only <;> refine taskEnding_R ?_ _
    · exact modTask_R' (logEv_R h _ _ rfl) _ _ (by ertac2)
    · exact modTask_R (logEv_R h _ _ (by simp [erEv])) _ _ _ (by ertac2) (by ertac2)
    · exact modTask_R (logEv_R h _ _ (by simp [erEv])) _ _ _ (by ertac2) (by ertac2)
    · exact modTask_R (logEv_R h _ _ rfl) _ _ _ (by ertac2) (by ertac2)
  · rw [← he htt]
    unfold afterWorker
    cases e <;> simp only <;> refine taskEnding_R ?_ _
    · exact modTask_R' (logEv_R h _ _ rfl) _ _ (by ertac2)
    · exact modTask_R' (logEv_R h _ _ rfl) _ _ (by ertac2)

theorem modTask_none (p : Pool) (t' : Nat) (f : PTask → PTask) (h : p.tasks[t']? = none) : p.modTask t' f = p := by
  have : p.tasks.modify t' f = p.tasks := by
    apply List.ext_getElem?
    intro j
    simp only [List.getElem?_modify]
    by_cases hj : t' = j
    · subst hj; rw [h]; rfl
    · cases p.tasks[j]? <;> simp [hj]
  simp only [modTask, this]

theorem modTask_id (p : Pool) (t' : Nat) : p.modTask t' id = p := by
  simp only [modTask, List.modify_id]

theorem modTask_modTask (p : Pool) (t' : Nat) (f g : PTask → PTask) :
    (p.modTask t' f).modTask t' g = p.modTask t' (g ∘ f) := by
  simp only [modTask, modify_modify_same]

theorem modTask_get_self (p : Pool) (t' : Nat) (f : PTask → PTask) : (p.modTask t' f).tasks[t']? = (p.tasks[t']?).map f := by
  simp only [modTask, List.getElem?_modify]
  cases p.tasks[t']? <;> simp

/-- the worker reaches its first suspension point: `awaitsLeft` is set and the awaited future is a fresh one -/
theorem setAwaits_suspend_fac (p : Pool) (t' a : Nat) :
    er t ((p.modTask t' fun k => { k with awaitsLeft := a }).suspendTask t' .inWorker) =
      er t (((er t p).modTask t' fun k => { k with awaitsLeft := a }).suspendTask t' .inWorker) := by
  unfold suspendTask
  simp only [modTask_get_self, er_tasks_get]
  cases hk : p.tasks[t']? with
  | none =>
    simp only [Option.map_none]
    rw [modTask_none _ _ _ hk, modTask_none _ _ _ (by simp [hk])]
    simp
  | some k =>
    simp only [Option.map_some, erAt_mustCancel]
    split
    · refine schedTask_R ?_ _
      rw [modTask_modTask, modTask_modTask]
      exact modTask_fac _ _ _ _ (by ertac2)
    · rw [modTask_modTask, modTask_modTask]
      exact modTask_fac _ _ _ _ (by ertac2)

theorem setAwaits_suspend_R {p q : Pool} (h : er t p = er t q) (t' a : Nat) :
    er t ((p.modTask t' fun k => { k with awaitsLeft := a }).suspendTask t' .inWorker) =
      er t ((q.modTask t' fun k => { k with awaitsLeft := a }).suspendTask t' .inWorker) :=
  R_fac (f := fun x => (x.modTask t' fun k => { k with awaitsLeft := a }).suspendTask t' .inWorker)
    (fun x => setAwaits_suspend_fac x t' a) h

theorem stepCreated_fac (p : Pool) (t' : Nat) (tk : PTask) :
    er t (p.stepCreated t' tk) = er t ((er t p).stepCreated t' tk) := by
  unfold stepCreated
  split
  · refine taskCancellation_R ?_ _ _; exact modTask_R' (er_er p).symm _ _ (by ertac2)
  · simp only [reqOf_er]
    have h0 : er t (((p.logEv (.started t' tk.arg)).modTask t' fun k => { k with phase := .inWorker, fut := .ok, unstarted := false }).runHooks
          tk.req (p.reqOf tk).hooks.start) =
        er t ((((er t p).logEv (.started t' tk.arg)).modTask t' fun k => { k with phase := .inWorker, fut := .ok, unstarted := false }).runHooks
          tk.req (p.reqOf tk).hooks.start) :=
      by refine runHooks_R ?_ _ _; exact modTask_R' (logEv_R (er_er p).symm _ _ rfl) _ _ (by ertac2)
    split
    · exact afterWorker_R h0 _ _ _ (fun _ => rfl)
    · exact afterWorker_R h0 _ _ _ (fun _ => rfl)
    · exact setAwaits_suspend_R h0 _ _

theorem stepCreated_R {p q : Pool} (h : er t p = er t q) (t' : Nat) (tk : PTask) :
    er t (p.stepCreated t' tk) = er t (q.stepCreated t' tk) :=
  R_fac (fun x => stepCreated_fac x t' tk) h

theorem workerCancelled_fac (p : Pool) (t' : Nat) (tk : PTask) :
    er t (p.workerCancelled t' tk) = er t ((er t p).workerCancelled t' tk) := by
  unfold workerCancelled
  simp only [reqOf_er]
  by_cases hres : ((p.reqOf tk).wspec.resume && !tk.sawCancel) = true <;> simp only [hres, ↓reduceIte, Bool.false_eq_true]
  · refine suspendTask_R ?_ _ _; exact modTask_R' (logEv_R (er_er p).symm _ _ rfl) _ _ (by ertac2)
  · have h0 : er t ((p.logEv (.sawCancel t')).modTask t' fun k => { k with sawCancel := true, phase := .wrapUp, nSaw := k.nSaw + 1 }) =
        er t (((er t p).logEv (.sawCancel t')).modTask t' fun k => { k with sawCancel := true, phase := .wrapUp, nSaw := k.nSaw + 1 }) :=
      modTask_R' (logEv_R (er_er p).symm _ _ rfl) _ _ (by ertac2)
    have hr : ∀ x : Pool, ((x.logEv (.sawCancel t')).modTask t' fun k => { k with sawCancel := true, phase := .wrapUp, nSaw := k.nSaw + 1 }).reqOf tk
        = x.reqOf tk := fun _ => rfl
    simp only [hr, reqOf_er]
    by_cases hsw : (p.reqOf tk).wspec.swallow = true <;> simp only [hsw, ↓reduceIte, Bool.false_eq_true]
    · exact afterWorker_R h0 _ _ _ (fun _ => rfl)
    · exact taskCancellation_R h0 _ _

theorem workerCancelled_R {p q : Pool} (h : er t p = er t q) (t' : Nat) (tk : PTask) :
    er t (p.workerCancelled t' tk) = er t (q.workerCancelled t' tk) :=
  R_fac (fun x => workerCancelled_fac x t' tk) h

theorem workerNext_fac (p : Pool) (t' : Nat) (tk : PTask) :
    er t (p.workerNext t' tk) = er t ((er t p).workerNext t' tk) := by
  unfold workerNext
  simp only [reqOf_er]
  refine suspendTask_R ?_ _ _
  refine runHooks_R ?_ _ _
  exact modTask_R' (logEv_R (er_er p).symm _ _ rfl) _ _ (by ertac2)

theorem workerNext_R {p q : Pool} (h : er t p = er t q) (t' : Nat) (tk : PTask) :
    er t (p.workerNext t' tk) = er t (q.workerNext t' tk) :=
  R_fac (fun x => workerNext_fac x t' tk) h

theorem workerNext_tk (p : Pool) (t' : Nat) (tk : PTask) : p.workerNext t' (erAt t t' tk) = p.workerNext t' tk := by
  unfold erAt; split <;> rfl

theorem workerCancelled_tk (p : Pool) (t' : Nat) (tk : PTask) : p.workerCancelled t' (erAt t t' tk) = p.workerCancelled t' tk := by
  unfold erAt; split <;> rfl

/-- **the worker of task `t` wakes up**: the future it awaited completed with an exception in one run and normally in the
other.  At its *last* await (`awaitsLeft = 0`) both end the worker; while a further await is ahead the state of the
future is not erased, so the two sides agree on it -/
theorem stepInWorker_fac (p : Pool) (t' : Nat) (tk : PTask) (hph : tk.phase = .inWorker) :
    er t (p.stepInWorker t' tk) = er t ((er t p).stepInWorker t' (erAt t t' tk)) := by
  unfold stepInWorker
  simp only [erAt_fut_cancelled, erAt_mustCancel, erAt_awaitsLeft, workerCancelled_tk, workerNext_tk]
  split
  · refine workerCancelled_R ?_ _ _; exact modTask_R' (er_er p).symm _ _ (by ertac2)
  · by_cases htt : t = t'
    · simp only [erAt, htt, ↓reduceIte, erTask, hph, true_and]
      by_cases ha : tk.awaitsLeft = 0
      · simp only [ha, ne_eq, not_true_eq_false, ↓reduceIte, Nat.lt_irrefl, gt_iff_lt]
        cases tk.fut with
        | pending => simp
        | ok => exact afterWorker_R (er_er p).symm _ _ _ (fun _ => rfl)
        | exc e => exact afterWorker_R (er_er p).symm _ _ _ (fun h => absurd rfl h)
        | cancelled => simp
      · simp only [ne_eq, ha, not_false_eq_true, ↓reduceIte]
        split
        · split
          · exact workerNext_R (er_er p).symm _ _
          · exact afterWorker_R (er_er p).symm _ _ _ (fun _ => rfl)
        · exact afterWorker_R (er_er p).symm _ _ _ (fun _ => rfl)
        · simp
    · simp only [erAt, htt, ↓reduceIte]
      split
      · split
        · exact workerNext_R (er_er p).symm _ _
        · exact afterWorker_R (er_er p).symm _ _ _ (fun _ => rfl)
      · exact afterWorker_R (er_er p).symm _ _ _ (fun _ => rfl)
      · simp

/-- a coroutine cancel callback of task `t` raised in one run and returned in the other -/
theorem stepInCancelCb_fac (p : Pool) (t' : Nat) (tk : PTask) (hph : tk.phase ≠ .inWorker) :
    er t (p.stepInCancelCb t' tk) = er t ((er t p).stepInCancelCb t' (erAt t t' tk)) := by
  unfold stepInCancelCb
  by_cases htt : t = t'
  · subst htt
    simp only [erAt, ↓reduceIte, erTask, hph, false_and]
    cases tk.fut with
    | pending => simp
    | ok => refine taskEnding_R ?_ _; exact modTask_R' (logEv_R (er_er p).symm _ _ rfl) _ _ (by ertac2)
    | exc e => refine taskEnding_R ?_ _; exact modTask_R (logEv_R (er_er p).symm _ _ (by simp [erEv])) _ _ _ (by ertac2) (by ertac2)
    | cancelled => refine taskEnding_R ?_ _; exact modTask_R' (logEv_R (er_er p).symm _ _ rfl) _ _ (by ertac2)
  · simp only [erAt, htt, ↓reduceIte]
    split
    · refine taskEnding_R ?_ _; exact modTask_R' (logEv_R (er_er p).symm _ _ rfl) _ _ (by ertac2)
    · refine taskEnding_R ?_ _; exact modTask_R' (logEv_R (er_er p).symm _ _ rfl) _ _ (by ertac2)
    · refine taskEnding_R ?_ _; exact modTask_R' (logEv_R (er_er p).symm _ _ rfl) _ _ (by ertac2)
    · simp

theorem endCbRaised_R (p : Pool) (t' : Nat) (e : Err) (htt : t = t') :
    er t ((p.logEv (.endCbRaised t')).modTask t' fun k => { k with pendingExc := some e }) = er t ((er t p).logEv (.endCbDone t')) := by
  subst htt
  have h1 : er t (p.logEv (.endCbRaised t)) = er t ((er t p).logEv (.endCbDone t)) := logEv_R (er_er p).symm _ _ (by simp [erEv])
  rw [← h1]
  have h2 := modTask_fac (t := t) (p.logEv (.endCbRaised t)) t (fun k => { k with pendingExc := some e }) id (by ertac2)
  rw [h2, modTask_id]
  exact er_er _

/-- a coroutine end callback of task `t` raised in one run and returned in the other -/
theorem stepInEndCb_fac (p : Pool) (t' : Nat) (tk : PTask) (hph : tk.phase ≠ .inWorker) :
    er t (p.stepInEndCb t' tk) = er t ((er t p).stepInEndCb t' (erAt t t' tk)) := by
  unfold stepInEndCb
  by_cases htt : t = t'
  · subst htt
    simp only [erAt, ↓reduceIte, erTask, hph, false_and]
    cases tk.fut with
    | pending => simp
    | ok => exact finishTask_R (logEv_R (er_er p).symm _ _ rfl) _
    | exc e => refine finishTask_R ?_ _; exact endCbRaised_R p t e rfl
    | cancelled => refine finishTask_R ?_ _; exact modTask_R' (logEv_R (er_er p).symm _ _ rfl) _ _ (by ertac2)
  · simp only [erAt, htt, ↓reduceIte]
    split
    · exact finishTask_R (logEv_R (er_er p).symm _ _ rfl) _
    · refine finishTask_R ?_ _; exact modTask_R' (logEv_R (er_er p).symm _ _ rfl) _ _ (by ertac2)
    · refine finishTask_R ?_ _; exact modTask_R' (logEv_R (er_er p).symm _ _ rfl) _ _ (by ertac2)
    · simp

theorem stepInWorker_R {p q : Pool} (h : er t p = er t q) (t' : Nat) (tk : PTask) (hph : tk.phase = .inWorker) :
    er t (p.stepInWorker t' tk) = er t (q.stepInWorker t' tk) := by
  rw [stepInWorker_fac p t' tk hph, stepInWorker_fac q t' tk hph, h]

theorem stepInCancelCb_R {p q : Pool} (h : er t p = er t q) (t' : Nat) (tk : PTask) (hph : tk.phase ≠ .inWorker) :
    er t (p.stepInCancelCb t' tk) = er t (q.stepInCancelCb t' tk) := by
  rw [stepInCancelCb_fac p t' tk hph, stepInCancelCb_fac q t' tk hph, h]

theorem stepInEndCb_R {p q : Pool} (h : er t p = er t q) (t' : Nat) (tk : PTask) (hph : tk.phase ≠ .inWorker) :
    er t (p.stepInEndCb t' tk) = er t (q.stepInEndCb t' tk) := by
  rw [stepInEndCb_fac p t' tk hph, stepInEndCb_fac q t' tk hph, h]

theorem stepCreated_tk (p : Pool) (t' : Nat) (tk : PTask) : p.stepCreated t' (erAt t t' tk) = p.stepCreated t' tk := by
  unfold erAt; split <;> rfl

/-- **a handle of a pool task** -/
theorem stepTask_fac (p : Pool) (t' : Nat) : er t (p.stepTask t') = er t ((er t p).stepTask t') := by
  unfold stepTask
  simp only [er_tasks_get]
  cases p.tasks[t']? with
  | none => simp
  | some tk =>
    simp only [Option.map_some, erAt_sched, erAt_phase]
    by_cases hs : (!tk.sched) = true <;> simp only [hs, ↓reduceIte, Bool.false_eq_true]
    · simp
    · have h0 : er t (p.modTask t' fun k => { k with sched := false }) = er t ((er t p).modTask t' fun k => { k with sched := false }) :=
        modTask_R' (er_er p).symm _ _ (by ertac2)
      cases hph : tk.phase <;> simp only
      · rw [stepCreated_tk]; exact stepCreated_R h0 _ _
      · exact (stepInWorker_fac _ _ _ hph).trans
          (stepInWorker_R ((er_er _).trans h0) _ _ (by rw [erAt_phase]; exact hph))
      · exact h0
      · exact (stepInCancelCb_fac _ _ _ (by rw [hph]; intro h; cases h)).trans
          (stepInCancelCb_R ((er_er _).trans h0) _ _ (by rw [erAt_phase, hph]; intro h; cases h))
      · exact (stepInEndCb_fac _ _ _ (by rw [hph]; intro h; cases h)).trans
          (stepInEndCb_R ((er_er _).trans h0) _ _ (by rw [erAt_phase, hph]; intro h; cases h))
      · exact h0

theorem stepTask_R {p q : Pool} (h : er t p = er t q) (t' : Nat) : er t (p.stepTask t') = er t (q.stepTask t') :=
  R_fac (fun x => stepTask_fac x t') h

/-! ### the handles and the external operations -/

/-- every gather and every background call of the pool collects exceptions -/
structure AllColl (p : Pool) : Prop where
  gathers : Coll p
  apis : ∀ (a : Nat) (A : Api), p.apis[a]? = some A → A.kind.coll = true

/-- **every handle respects the erasure** (in a pool whose gathers and background calls all collect) -/
theorem runRef_R {p q : Pool} (h : er t p = er t q) (hp : AllColl p) (hq : AllColl q) (r : Ref) :
    er t (p.runRef r) = er t (q.runRef r) := by
  cases r with
  | task t' => exact stepTask_R h t'
  | spawner m => exact R_comm (f := fun x => x.stepMeta m) (fun x => stepMeta_er x m) h
  | api a =>
    simp only [runRef]
    rw [← (stepApi_er p a hp.gathers (hp.apis a)).1, ← (stepApi_er q a hq.gathers (hq.apis a)).1, h]
  | gchild g i =>
    simp only [runRef]
    rw [← gatherChildDone_er p g i true hp.gathers, ← gatherChildDone_er q g i true hq.gathers, h]

theorem wakesOnCancel_R {p q : Pool} (h : er t p = er t q) : p.wakesOnCancel = q.wakesOnCancel := by
  rw [← wakesOnCancel_er (t := t) p, ← wakesOnCancel_er (t := t) q, h]

/-- the environment completes the future of a task — the same way in both runs -/
theorem doGate_R {p q : Pool} (h : er t p = er t q) (t' : Nat) (o : FutSt) :
    er t (p.doGate t' o).1 = er t (q.doGate t' o).1 := by
  unfold doGate
  rw [wakesOnCancel_R h]
  split
  · refine schedTask_R ?_ _
    exact modTask_R' h _ _ (by ertac2)
  · exact h

/-- two changes of the record of task `t` that differ only in what the erasure forgets -/
theorem er_modTask_congr (p : Pool) (f g : PTask → PTask) (h : ∀ k, p.tasks[t]? = some k → erTask (f k) = erTask (g k)) :
    er t (p.modTask t f) = er t (p.modTask t g) := by
  simp only [er, modTask, modify_modify_same]
  congr 1
  apply List.ext_getElem?
  intro j
  simp only [List.getElem?_modify]
  cases hj : p.tasks[j]? with
  | none => rfl
  | some k =>
    by_cases e : t = j
    · subst e; simp [h k hj]
    · simp [e]

/-- **the differing input**: the future task `t` awaits completes with an exception in one run and normally in the
other — at the worker's last await, or inside a coroutine callback -/
theorem doGate_diff {p q : Pool} (h : er t p = er t q) (e : Err)
    (hlast : ∀ tk, p.tasks[t]? = some tk → tk.phase = .inWorker → tk.awaitsLeft = 0) :
    er t (p.doGate t (.exc e)).1 = er t (q.doGate t .ok).1 := by
  refine Eq.trans ?_ (doGate_R h t .ok)
  unfold doGate
  split
  · refine schedTask_R ?_ _
    apply er_modTask_congr
    intro k hk
    have := hlast k hk
    cases k
    simp only [erTask, PTask.mk.injEq, true_and, and_true] at this ⊢
    (repeat' split) <;> simp_all
  · rfl

theorem R_commR {f : Pool → Pool × Res} (hf : ∀ x, f (er t x) = erR t (f x)) {p q : Pool} (h : er t p = er t q) :
    er t (f p).1 = er t (f q).1 ∧ (f p).2 = (f q).2 := by
  have h1 := congrArg (fun x => (f x).1) h
  have h2 := congrArg (fun x => (f x).2) h
  simp only [hf, erR_fst, erR_snd] at h1 h2
  exact ⟨h1, h2⟩

@[simp] theorem getGroupIds_er (p : Pool) (names : List String) : (er t p).getGroupIds names = p.getGroupIds names := by
  induction names with
  | nil => rfl
  | cons n rest ih => simp only [getGroupIds, groupIds_er, ih]

/-- **every external operation respects the erasure** (the same operation in both runs); the result is the same -/
theorem applyOp_R {p q : Pool} (h : er t p = er t q) (op : Op) :
    er t (p.applyOp op).1 = er t (q.applyOp op).1 ∧ (p.applyOp op).2 = (q.applyOp op).2 := by
  cases op with
  | apply num group sp => exact R_commR (f := fun x => x.doApply num group sp) (fun x => doApply_er x _ _ _) h
  | map stars items nc group sp => exact R_commR (f := fun x => x.doMap stars items nc group sp) (fun x => doMap_er x _ _ _ _ _) h
  | start num => exact R_commR (f := fun x => x.doStart num) (fun x => doStart_er x _) h
  | stop n => exact R_commR (f := fun x => x.doStop n) (fun x => doStop_er x _) h
  | stopAll => exact R_commR (f := fun x => x.doStop x.running.length) (fun x => by simp) h
  | cancel ids => exact R_commR (f := fun x => x.doCancel ids) (fun x => doCancel_er x _) h
  | cancelGroup g => exact R_commR (f := fun x => x.doCancelGroup g) (fun x => doCancelGroup_er x _) h
  | cancelAll => exact R_commR (f := fun x => x.doCancelAll) (fun x => doCancelAll_er x) h
  | lock => exact R_commR (f := fun x => (x.doLock, Res.none)) (fun x => rfl) h
  | unlock => exact R_commR (f := fun x => (x.doUnlock, Res.none)) (fun x => rfl) h
  | setSize v => exact R_commR (f := fun x => x.doSetSize v) (fun x => doSetSize_er x _) h
  | getIds names =>
    exact R_commR (f := fun x => (x, match x.getGroupIds names with | some ids => Res.idset ids | none => Res.err .groupNotFound))
      (fun x => by simp only [getGroupIds_er]; rfl) h
  | flush re => exact R_commR (f := fun x => (x.addApi (.flush re), Res.none)) (fun x => rfl) h
  | gac re => exact R_commR (f := fun x => (x.addApi (.gac re), Res.none)) (fun x => rfl) h
  | untilClosed => exact R_commR (f := fun x => (x.addApi .untilClosed, Res.none)) (fun x => rfl) h
  | gate t' o =>
    refine ⟨doGate_R h t' o, ?_⟩
    simp only [applyOp, doGate, wakesOnCancel_R h]
    split <;> rfl

end Pool
end Taskpool
