import Taskpool.Inv.ElemWalk
/-! `ElemX` through the spawners: the functions that touch the counters (`pullItem`, the skip, `createTask`) and the frames
(`waitRoom`, `waitMapSem`), the loops under the predicates `EW m hand` (map-style: `pulled = created + skipped + hand`) and
`EWA m` (apply-style), every handle, every operation, and the lifting to worlds. -/
namespace Taskpool
namespace Pool

theorem getElem?_snoc_some {α} (l : List α) (x y : α) (i : Nat) (h : (l ++ [x])[i]? = some y) :
    l[i]? = some y ∨ (i = l.length ∧ y = x) := by
  rw [List.getElem?_append] at h
  split at h
  · exact Or.inl h
  · rename_i hge
    cases hj : i - l.length with
    | zero => rw [hj] at h; simp at h; exact Or.inr ⟨by omega, h.symm⟩
    | succ j => rw [hj] at h; simp at h

theorem getElem?_modify_some' {α} (l : List α) (m i : Nat) (f : α → α) (y : α) (h : (l.modify m f)[i]? = some y) :
    ∃ x, l[i]? = some x ∧ ((i = m ∧ y = f x) ∨ (i ≠ m ∧ y = x)) := by
  rw [List.getElem?_modify] at h
  cases hx : l[i]? with
  | none => simp [hx] at h
  | some x =>
    simp [hx] at h
    refine ⟨x, rfl, ?_⟩
    split at h
    · rename_i e; exact Or.inl ⟨e.symm, h.symm⟩
    · rename_i e; exact Or.inr ⟨fun e' => e e'.symm, h.symm⟩

theorem getElem?_modify_fwd {α} (l : List α) (m i : Nat) (f : α → α) (x : α) (h : l[i]? = some x) :
    (l.modify m f)[i]? = some (if m = i then f x else x) := by
  rw [List.getElem?_modify, h]; rfl

/-- request `m` is rewritten: key fields kept, `created + skipped` not lowered, the frame clauses hold for the result -/
theorem ElemX.modifyR {p q : Pool} (h : ElemX p) (m : Nat) (f : Req → Req) (r : Req) (hr : p.reqs[m]? = some r)
    (et : q.tasks = p.tasks) (er : q.reqs = p.reqs.modify m f)
    (hk : (f r).kind = r.kind) (hs : (f r).stars = r.stars) (hm : r.created + r.skipped ≤ (f r).created + (f r).skipped)
    (h0 : (f r).kind = .map → (f r).frame = .notStarted → (f r).pulled = (f r).created + (f r).skipped)
    (h1 : (f r).kind = .map → (f r).frame = .waitMapSem ∨ (f r).frame = .waitRoom →
            (f r).pulled = (f r).created + (f r).skipped + 1)
    (hw : (f r).frame = .waitMapSem → (f r).kind = .map) : ElemX q := by
  refine ⟨⟨?_, ?_, ?_, ?_⟩, ?_, ?_, ?_, ?_⟩
  · rw [et]; exact h.ok.ap
  · intro t k hk' hm'
    rw [et] at hk'
    obtain ⟨r0, i, hr0, hkd, ha, hi⟩ := h.ok.el t k hk' hm'
    have := getElem?_modify_fwd p.reqs m k.req f r0 hr0
    rw [er, this]
    split
    · rename_i e; subst e; rw [hr] at hr0; cases hr0
      exact ⟨f r, i, rfl, by rw [hk]; exact hkd, by rw [hs]; exact ha, by omega⟩
    · exact ⟨r0, i, rfl, hkd, ha, hi⟩
  · intro t k r' hk' hr'
    rw [et] at hk'; rw [er] at hr'
    obtain ⟨x, hx, ⟨e1, e2⟩ | ⟨e1, e2⟩⟩ := getElem?_modify_some' _ _ _ _ _ hr'
    · rw [e1, hr] at hx; cases hx; subst e2; rw [hk]; exact h.ok.km t k r hk' (by rw [e1]; exact hr)
    · subst e2; exact h.ok.km t k r' hk' hx
  · rw [et]; exact h.ok.ord
  · rw [et, er, List.length_modify]; exact h.vr
  · intro j r' hr' hkd hf
    rw [er] at hr'
    obtain ⟨x, hx, ⟨e1, e2⟩ | ⟨e1, e2⟩⟩ := getElem?_modify_some' _ _ _ _ _ hr'
    · rw [e1, hr] at hx; cases hx; subst e2; exact h0 hkd hf
    · subst e2; exact h.fr0 j r' hx hkd hf
  · intro j r' hr' hkd hf
    rw [er] at hr'
    obtain ⟨x, hx, ⟨e1, e2⟩ | ⟨e1, e2⟩⟩ := getElem?_modify_some' _ _ _ _ _ hr'
    · rw [e1, hr] at hx; cases hx; subst e2; exact h1 hkd hf
    · subst e2; exact h.fr1 j r' hx hkd hf
  · intro j r' hr' hf
    rw [er] at hr'
    obtain ⟨x, hx, ⟨e1, e2⟩ | ⟨e1, e2⟩⟩ := getElem?_modify_some' _ _ _ _ _ hr'
    · rw [e1, hr] at hx; cases hx; subst e2; exact hw hf
    · subst e2; exact h.wk j r' hx hf


/-- `createTask`: the new task gets the element in hand, whose index `pulled - 1 = created + skipped` lies above every
index the request has handed out and below the new `created + skipped` -/
theorem ElemX.create {p : Pool} (h : ElemX p) (m : Nat) (r : Req) (isMap : Bool) (hr : p.reqs[m]? = some r)
    (hk : isMap = true ↔ r.kind = .map) (hp : isMap = true → r.pulled = r.created + r.skipped + 1)
    (hf : isMap = true → r.frame = .running ∨ r.frame = .done) : ElemX (p.createTask m isMap) := by
  unfold createTask
  simp only [hr, Option.getD_some]
  generalize hnt : newTask m isMap (if isMap = true then ArgD.elem r.stars (r.pulled - 1) else ArgD.apply) r.endCb r.cancelCb = nt
  have nreq : nt.req = m := by subst hnt; rfl
  have nmap : nt.isMap = isMap := by subst hnt; rfl
  have narg : nt.arg = (if isMap = true then ArgD.elem r.stars (r.pulled - 1) else ArgD.apply) := by subst hnt; rfl
  have hml : m < p.reqs.length := by
    apply Classical.byContradiction; intro hn
    rw [List.getElem?_eq_none (Nat.le_of_not_lt hn)] at hr; cases hr
  have hself : (p.reqs.modify m fun x => { x with created := x.created + 1 })[m]? = some { r with created := r.created + 1 } := by
    rw [getElem?_modify_fwd _ _ _ _ _ hr, if_pos rfl]
  refine ⟨⟨?_, ?_, ?_, ?_⟩, ?_, ?_, ?_, ?_⟩
  · intro t k hk' hm'
    rcases getElem?_snoc_some _ _ _ _ hk' with ho | ⟨_, e⟩
    · exact h.ok.ap t k ho hm'
    · subst e; rw [narg, if_neg]; rw [← nmap, hm']; exact Bool.false_ne_true
  · intro t k hk' hm'
    show ∃ (r' : Req) (i : Nat), (p.reqs.modify m fun x => { x with created := x.created + 1 })[k.req]? = some r' ∧ _
    rcases getElem?_snoc_some _ _ _ _ hk' with ho | ⟨_, e⟩
    · obtain ⟨r0, i, hr0, hkd, ha, hi⟩ := h.ok.el t k ho hm'
      rw [getElem?_modify_fwd _ _ _ _ _ hr0]
      split
      · rename_i e; subst e; rw [hr] at hr0; cases hr0
        exact ⟨_, i, rfl, hkd, ha, Nat.lt_of_lt_of_le hi (by show _ ≤ r.created + 1 + r.skipped; omega)⟩
      · exact ⟨r0, i, rfl, hkd, ha, hi⟩
    · subst e
      have him : isMap = true := by rw [← nmap]; exact hm'
      rw [nreq, hself]
      refine ⟨_, r.pulled - 1, rfl, hk.1 him, by rw [narg, if_pos him], ?_⟩
      show _ < r.created + 1 + r.skipped
      have := hp him; omega
  · intro t k r' hk' hr'
    have hr'' : (p.reqs.modify m fun x => { x with created := x.created + 1 })[k.req]? = some r' := hr'
    obtain ⟨x, hx, ⟨e1, e2⟩ | ⟨e1, e2⟩⟩ := getElem?_modify_some' _ _ _ _ _ hr''
    · rw [e1, hr] at hx; cases hx; subst e2
      rcases getElem?_snoc_some _ _ _ _ hk' with ho | ⟨_, e⟩
      · exact h.ok.km t k r ho (by rw [e1]; exact hr)
      · subst e; rw [nmap]; exact hk
    · subst e2
      rcases getElem?_snoc_some _ _ _ _ hk' with ho | ⟨_, e⟩
      · exact h.ok.km t k r' ho hx
      · subst e; exact absurd nreq e1
  · intro t1 t2 k1 k2 s1 s2 i1 i2 hlt h1 h2 hq a1 a2
    rcases getElem?_snoc_some _ _ _ _ h2 with ho2 | ⟨e2, e⟩
    · rcases getElem?_snoc_some _ _ _ _ h1 with ho1 | ⟨e1, _⟩
      · exact h.ok.ord t1 t2 k1 k2 s1 s2 i1 i2 hlt ho1 ho2 hq a1 a2
      · have : t2 < p.tasks.length := by
          apply Classical.byContradiction; intro hn
          rw [List.getElem?_eq_none (Nat.le_of_not_lt hn)] at ho2; cases ho2
        omega
    · subst e
      rcases getElem?_snoc_some _ _ _ _ h1 with ho1 | ⟨e1, _⟩
      · have him : isMap = true := by
          cases hb : isMap with
          | true => rfl
          | false => rw [narg, hb] at a2; cases a2
        rw [narg, if_pos him] at a2
        cases a2
        have hm1 : k1.isMap = true := by
          cases hb : k1.isMap with
          | true => rfl
          | false => rw [h.ok.ap t1 k1 ho1 hb] at a1; cases a1
        obtain ⟨r0, i, hr0, _, ha, hi⟩ := h.ok.el t1 k1 ho1 hm1
        rw [hq, nreq, hr] at hr0; cases hr0
        rw [a1] at ha; cases ha
        have := hp him; omega
      · omega
  · intro t k hk'
    show k.req < (p.reqs.modify m fun x => { x with created := x.created + 1 }).length
    rw [List.length_modify]
    rcases getElem?_snoc_some _ _ _ _ hk' with ho | ⟨_, e⟩
    · exact h.vr t k ho
    · subst e; rw [nreq]; exact hml
  · intro j r' hr' hkd hfr
    have hr'' : (p.reqs.modify m fun x => { x with created := x.created + 1 })[j]? = some r' := hr'
    obtain ⟨x, hx, ⟨e1, e2⟩ | ⟨e1, e2⟩⟩ := getElem?_modify_some' _ _ _ _ _ hr''
    · rw [e1, hr] at hx; cases hx; subst e2
      have hfr' : r.frame = .notStarted := hfr
      rcases hf (hk.2 hkd) with y | y <;> (rw [y] at hfr'; cases hfr')
    · subst e2; exact h.fr0 j r' hx hkd hfr
  · intro j r' hr' hkd hfr
    have hr'' : (p.reqs.modify m fun x => { x with created := x.created + 1 })[j]? = some r' := hr'
    obtain ⟨x, hx, ⟨e1, e2⟩ | ⟨e1, e2⟩⟩ := getElem?_modify_some' _ _ _ _ _ hr''
    · rw [e1, hr] at hx; cases hx; subst e2
      have hfr' : r.frame = .waitMapSem ∨ r.frame = .waitRoom := hfr
      rcases hf (hk.2 hkd) with y | y <;> (rw [y] at hfr'; rcases hfr' with z | z <;> cases z)
    · subst e2; exact h.fr1 j r' hx hkd hfr
  · intro j r' hr' hfr
    have hr'' : (p.reqs.modify m fun x => { x with created := x.created + 1 })[j]? = some r' := hr'
    obtain ⟨x, hx, ⟨e1, e2⟩ | ⟨e1, e2⟩⟩ := getElem?_modify_some' _ _ _ _ _ hr''
    · rw [e1, hr] at hx; cases hx; subst e2
      exact h.wk m r hr hfr
    · subst e2; exact h.wk j r' hx hfr


/-! ### loop predicates -/

/-- the map-style spawner `m` is inside its loop (or about to enter it) with `hand` pulled elements in hand -/
def EW (m hand : Nat) (p : Pool) : Prop :=
  ElemX p ∧ ∃ r, p.reqs[m]? = some r ∧ r.kind = .map ∧ r.pulled = r.created + r.skipped + hand ∧
    (r.frame = .running ∨ r.frame = .done ∨ (r.frame = .notStarted ∧ hand = 0))

/-- the apply-style spawner `m` is inside its loop -/
def EWA (m : Nat) (p : Pool) : Prop := ElemX p ∧ ∃ r, p.reqs[m]? = some r ∧ r.kind = .apply

theorem EW.ext {m hand : Nat} {p q : Pool} (h : EW m hand p) (e : Ext p q) : EW m hand q := by
  obtain ⟨hx, r, hr, hk, hp, hf⟩ := h
  obtain ⟨r', hr', rr⟩ := ExtL.fwd e m r hr
  refine ⟨hx.ext e, r', hr', by rw [rr.kind]; exact hk, by rw [rr.pulled, rr.created, rr.skipped]; exact hp, ?_⟩
  rcases rr.frame with x | x | x
  · rw [x]; exact hf
  · exact Or.inr (Or.inl x)
  · exact Or.inl x

theorem EWA.ext {m : Nat} {p q : Pool} (h : EWA m p) (e : Ext p q) : EWA m q := by
  obtain ⟨hx, r, hr, hk⟩ := h
  obtain ⟨r', hr', rr⟩ := ExtL.fwd e m r hr
  exact ⟨hx.ext e, r', hr', by rw [rr.kind]; exact hk⟩

theorem modReq_self (p : Pool) (m : Nat) (f : Req → Req) (r : Req) (hr : p.reqs[m]? = some r) :
    (p.modReq m f).reqs[m]? = some (f r) := by
  show (p.reqs.modify m f)[m]? = _
  rw [getElem?_modify_fwd _ _ _ _ _ hr, if_pos rfl]

/-- the spawner goes on running: from a frame in which it holds `hand` elements -/
theorem EW.enter {p : Pool} (h : ElemX p) (m hand : Nat) (r : Req) (hr : p.reqs[m]? = some r) (hk : r.kind = .map)
    (hp : r.pulled = r.created + r.skipped + hand) (f : Req → Req) (hf : KeepsR f) (hfr : ∀ x, (f x).frame = .running) :
    EW m hand (p.modReq m f) := by
  obtain ⟨a, _, c, d, e, _⟩ := hf r
  refine ⟨h.ext (Ext.of_modifyR (Ext.refl p) m f rfl rfl hf), f r, modReq_self p m f r hr, by rw [a]; exact hk,
    by rw [c, d, e]; exact hp, Or.inl (hfr r)⟩

theorem EWA.enter {p : Pool} (h : ElemX p) (m : Nat) (r : Req) (hr : p.reqs[m]? = some r) (hk : r.kind = .apply)
    (f : Req → Req) (hf : KeepsR f) : EWA m (p.modReq m f) :=
  ⟨h.ext (Ext.of_modifyR (Ext.refl p) m f rfl rfl hf), f r, modReq_self p m f r hr, by rw [(hf r).1]; exact hk⟩

/-! ### the functions that touch the counters and the frames -/

theorem EW.createTask {m : Nat} {p : Pool} (h : EW m 1 p) : EW m 0 (p.createTask m true) := by
  obtain ⟨hx, r, hr, hk, hp, hf⟩ := h
  have hf' : r.frame = .running ∨ r.frame = .done := by
    rcases hf with x | x | ⟨_, x⟩
    · exact Or.inl x
    · exact Or.inr x
    · cases x
  refine ⟨hx.create m r true hr ⟨fun _ => hk, fun _ => rfl⟩ (fun _ => hp) (fun _ => hf'), { r with created := r.created + 1 }, ?_, hk, ?_, ?_⟩
  · show (p.reqs.modify m fun x => { x with created := x.created + 1 })[m]? = _
    rw [getElem?_modify_fwd _ _ _ _ _ hr, if_pos rfl]
  · show r.pulled = r.created + 1 + r.skipped + 0
    omega
  · rcases hf' with x | x
    · exact Or.inl x
    · exact Or.inr (Or.inl x)

theorem EWA.createTask {m : Nat} {p : Pool} (h : EWA m p) : EWA m (p.createTask m false) := by
  obtain ⟨hx, r, hr, hk⟩ := h
  refine ⟨hx.create m r false hr (Iff.intro (fun e => (by cases e)) (fun e => (by rw [hk] at e; cases e)))
    (fun e => (by cases e)) (fun e => (by cases e)), { r with created := r.created + 1 }, ?_, hk⟩
  show (p.reqs.modify m fun x => { x with created := x.created + 1 })[m]? = _
  rw [getElem?_modify_fwd _ _ _ _ _ hr, if_pos rfl]

theorem EW.takeSlotAndCreate {m : Nat} {p : Pool} (h : EW m 1 p) : EW m 0 (p.takeSlotAndCreate m true) := by
  unfold Pool.takeSlotAndCreate
  exact EW.createTask (h.ext (Ext.of_eq (Ext.refl p) rfl rfl))

theorem EWA.takeSlotAndCreate {m : Nat} {p : Pool} (h : EWA m p) : EWA m (p.takeSlotAndCreate m false) := by
  unfold Pool.takeSlotAndCreate
  exact EWA.createTask (h.ext (Ext.of_eq (Ext.refl p) rfl rfl))

/-- the spawner suspends in `_enough_room.acquire()`: a map-style one holds one element -/
theorem elemx_waitRoom (p : Pool) (m : Nat) (r : Req) (h : ElemX p) (hr : p.reqs[m]? = some r)
    (hh : r.kind = .map → r.pulled = r.created + r.skipped + 1) : ElemX (p.waitRoom m) := by
  unfold waitRoom
  dsimp only
  split
  · refine ElemX.ext (q := _) ?_ (ext_schedMeta _ _ (Ext.refl _))
    exact h.modifyR m _ r hr rfl rfl rfl rfl (Nat.le_refl _) (fun _ e => (by cases e)) (fun e _ => hh e) (fun e => (by cases e))
  · exact h.modifyR m _ r hr rfl rfl rfl rfl (Nat.le_refl _) (fun _ e => (by cases e)) (fun e _ => hh e) (fun e => (by cases e))

/-- the spawner suspends in the `acquire()` of the call's own semaphore -/
theorem elemx_waitMapSem (p : Pool) (m : Nat) (h : EW m 1 p) : ElemX (p.waitMapSem m) := by
  obtain ⟨hx, r, hr, hk, hp, _⟩ := h
  unfold waitMapSem
  dsimp only
  split
  · refine ElemX.ext (q := _) ?_ (ext_schedMeta _ _ (Ext.refl _))
    exact hx.modifyR m _ r hr rfl rfl rfl rfl (Nat.le_refl _) (fun _ e => (by cases e)) (fun _ _ => hp) (fun _ => hk)
  · exact hx.modifyR m _ r hr rfl rfl rfl rfl (Nat.le_refl _) (fun _ e => (by cases e)) (fun _ _ => hp) (fun _ => hk)

/-- one pull: one more element in hand -/
theorem EW.pullItem {m : Nat} {p : Pool} (rest : List Item) (h : EW m 0 p) : EW m 1 (p.pullItem m rest) := by
  obtain ⟨hx, r, hr, hk, hp, _⟩ := h
  unfold Pool.pullItem
  dsimp only
  have h2 : EW m 1 (p.modReq m fun x => { x with items := rest, pulled := x.pulled + 1, acquired := false, frame := .running }) := by
    refine ⟨hx.modifyR m _ r hr rfl rfl rfl rfl (Nat.le_refl _) (fun _ e => by cases e)
      (fun _ e => by rcases e with e | e <;> cases e) (fun e => by cases e), _, modReq_self p m _ r hr, hk, ?_, Or.inl rfl⟩
    show r.pulled + 1 = r.created + r.skipped + 1
    omega
  exact h2.ext (ext_runHooks _ _ _ (ext_logEv _ _ (Ext.refl _)))

/-- the element in hand is skipped -/
theorem EW.skip {m : Nat} {p : Pool} (h : EW m 1 p) : EW m 0 (p.modReq m fun x => { x with skipped := x.skipped + 1 }) := by
  obtain ⟨hx, r, hr, hk, hp, hf⟩ := h
  have hf' : r.frame = .running ∨ r.frame = .done := by
    rcases hf with x | x | ⟨_, x⟩
    · exact Or.inl x
    · exact Or.inr x
    · cases x
  refine ⟨hx.modifyR m _ r hr rfl rfl rfl rfl (Nat.le_succ _) ?_ ?_ ?_, _, modReq_self p m _ r hr, hk, ?_, ?_⟩
  · intro _ e
    have e' : r.frame = .notStarted := e
    rcases hf' with x | x <;> (rw [x] at e'; cases e')
  · intro _ e
    have e' : r.frame = .waitMapSem ∨ r.frame = .waitRoom := e
    rcases hf' with x | x <;> (rw [x] at e'; rcases e' with z | z <;> cases z)
  · intro e
    have e' : r.frame = .waitMapSem := e
    rcases hf' with x | x <;> (rw [x] at e'; cases e')
  · show r.pulled = r.created + (r.skipped + 1) + 0
    omega
  · rcases hf' with x | x
    · exact Or.inl x
    · exact Or.inr (Or.inl x)

theorem EWA.skip {m : Nat} {p : Pool} (h : EWA m p) : EWA m (p.modReq m fun x => { x with skipped := x.skipped + 1 }) := by
  obtain ⟨hx, r, hr, hk⟩ := h
  refine ⟨hx.modifyR m _ r hr rfl rfl rfl rfl (Nat.le_succ _) ?_ ?_ ?_, _, modReq_self p m _ r hr, hk⟩
  · intro e; have e' : r.kind = .map := e; rw [hk] at e'; cases e'
  · intro e; have e' : r.kind = .map := e; rw [hk] at e'; cases e'
  · intro e; exact hx.wk m r hr e

/-! ### the loops -/

theorem elemx_finishMeta (p : Pool) (m : Nat) (o : Outcome) (h : ElemX p) : ElemX (p.finishMeta m o) :=
  h.ext (ext_finishMeta _ _ _ (Ext.refl _))

theorem elemx_applyLoop (m n : Nat) (p : Pool) (h : EWA m p) : ElemX (applyLoop m n p) := by
  induction n generalizing p with
  | zero =>
    unfold applyLoop
    refine elemx_finishMeta _ _ _ (ElemX.ext h.1 ?_)
    exact ext_modReq _ _ _ (fun _ => ⟨rfl, rfl, rfl, rfl, rfl, Or.inl rfl⟩) (Ext.refl _)
  | succ n ih =>
    unfold applyLoop
    dsimp only
    have h1 : EWA m (p.modReq m fun x => { x with remaining := n + 1 }) :=
      h.ext (ext_modReq _ _ _ (fun _ => ⟨rfl, rfl, rfl, rfl, rfl, Or.inl rfl⟩) (Ext.refl _))
    split
    · exact ih _ h1.skip
    · split
      · exact elemx_finishMeta _ _ _ h1.1
      · split
        · exact elemx_finishMeta _ _ _ h1.1
        · split
          · obtain ⟨hx, r, hr, hk⟩ := h1
            exact elemx_waitRoom _ m r hx hr (fun e => by rw [hk] at e; cases e)
          · exact ih _ h1.takeSlotAndCreate

theorem elemx_mapStartTask (p : Pool) (m : Nat) (h : EW m 1 p) :
    ElemX (p.mapStartTask m).1 ∧ ((p.mapStartTask m).2 = true → EW m 0 (p.mapStartTask m).1) := by
  unfold mapStartTask
  split
  · exact ⟨elemx_finishMeta _ _ _ h.1, fun e => by cases e⟩
  · split
    · obtain ⟨hx, r, hr, _, hp, _⟩ := h
      exact ⟨elemx_waitRoom _ m r hx hr (fun _ => hp), fun e => by cases e⟩
    · exact ⟨h.takeSlotAndCreate.1, fun _ => h.takeSlotAndCreate⟩

theorem elemx_mapLoop (m : Nat) (items : List Item) (p : Pool) (h : EW m 0 p) : ElemX (mapLoop m items p) := by
  induction items generalizing p with
  | nil =>
    unfold mapLoop
    refine elemx_finishMeta _ _ _ (ElemX.ext h.1 ?_)
    exact ext_modReq _ _ _ (fun _ => ⟨rfl, rfl, rfl, rfl, rfl, Or.inl rfl⟩) (Ext.refl _)
  | cons it rest ih =>
    unfold mapLoop
    dsimp only
    have h1 : EW m 1 (p.pullItem m rest) := h.pullItem rest
    split
    · exact elemx_finishMeta _ _ _ h1.1
    · split
      · exact ih _ h1.skip
      · split
        · exact elemx_waitMapSem _ m h1
        · have h2 : EW m 1 ((p.pullItem m rest).takeMapSlot m) :=
            h1.ext (Ext.of_modifyR (Ext.refl _) m _ rfl rfl (fun _ => ⟨rfl, rfl, rfl, rfl, rfl, Or.inr (Or.inr rfl)⟩))
          obtain ⟨h3, h4⟩ := elemx_mapStartTask _ m h2
          split
          · rename_i e; exact ih _ (h4 e)
          · exact h3

theorem elemx_continueSpawner (p : Pool) (m : Nat) (h : EW m 0 p ∨ EWA m p) : ElemX (p.continueSpawner m) := by
  unfold continueSpawner
  dsimp only
  rcases h with h | h
  · have h' := h
    obtain ⟨_, r, hr, hk, _, _⟩ := h'
    simp only [hr, Option.getD_some]
    split
    · rename_i e; rw [hk] at e; cases e
    · exact elemx_mapLoop m _ p h
  · have h' := h
    obtain ⟨_, r, hr, hk⟩ := h'
    simp only [hr, Option.getD_some]
    split
    · exact elemx_applyLoop m _ p h
    · rename_i e; rw [hk] at e; cases e


/-! ### the handle of a spawner -/

theorem elemx_stepMetaNotStarted (p : Pool) (m : Nat) (r r' : Req) (h : ElemX p) (hr : p.reqs[m]? = some r')
    (hk : r'.kind = r.kind) (hf : r'.frame = .notStarted) : ElemX (p.stepMetaNotStarted m r) := by
  unfold stepMetaNotStarted
  split
  · exact elemx_finishMeta _ _ _ h
  · split
    · rename_i e; exact elemx_applyLoop m _ p ⟨h, r', hr, hk.trans e⟩
    · rename_i e
      have hk' := hk.trans e
      exact elemx_mapLoop m _ p ⟨h, r', hr, hk', h.fr0 m r' hr hk' hf, Or.inr (Or.inr ⟨hf, rfl⟩)⟩

theorem ext_roomWaitCancelled {p0 : Pool} (p : Pool) (m : Nat) (r : Req) (st : Option WaitSt) (h : Ext p0 p) :
    Ext p0 (p.roomWaitCancelled m r st) := by
  unfold roomWaitCancelled
  ex2 [ext_finishMeta]

/-- `if self._value > 0: self._wake_up_next()` -/
theorem ext_wakeIfRoom {p0 : Pool} (p : Pool) (h : Ext p0 p) :
    Ext p0 (if (!p.sem.value.isZero) = true then ({ p with sem := p.sem.wakeNext.1 } : Pool).schedOpt p.sem.wakeNext.2 else p) := by
  ex2 []

/-- `acquire()` of `_enough_room` returned: the task for the element in hand (map-style) resp. the next invocation
(apply-style) is created, the loop goes on -/
theorem elemx_roomGranted (p : Pool) (m : Nat) (r r' : Req) (h : ElemX p) (hr : p.reqs[m]? = some r')
    (hk : r'.kind = r.kind) (hp : r'.kind = .map → r'.pulled = r'.created + r'.skipped + 1) :
    ElemX (p.roomGranted m r) := by
  unfold roomGranted
  dsimp only
  cases hkd : r.kind with
  | apply =>
    rw [show (ReqKind.apply == ReqKind.map) = false from rfl]
    have h1 : EWA m (p.modReq m fun x => { x with frame := .running }) :=
      EWA.enter h m r' hr (hk.trans hkd) _ (fun _ => ⟨rfl, rfl, rfl, rfl, rfl, Or.inr (Or.inr rfl)⟩)
    exact elemx_continueSpawner _ m (Or.inr (EWA.createTask (EWA.ext h1 (ext_wakeIfRoom _ (Ext.refl _)))))
  | map =>
    rw [show (ReqKind.map == ReqKind.map) = true from rfl]
    have h1 : EW m 1 (p.modReq m fun x => { x with frame := .running }) :=
      EW.enter h m 1 r' hr (hk.trans hkd) (hp (hk.trans hkd)) _ (fun _ => ⟨rfl, rfl, rfl, rfl, rfl, Or.inr (Or.inr rfl)⟩)
        (fun _ => rfl)
    exact elemx_continueSpawner _ m (Or.inl (EW.createTask (EW.ext h1 (ext_wakeIfRoom _ (Ext.refl _)))))

theorem elemx_wakeWaitRoomCore (p : Pool) (m : Nat) (r r' : Req) (h : ElemX p) (hr : p.reqs[m]? = some r')
    (hk : r'.kind = r.kind) (hf : r'.frame = .waitRoom) : ElemX (p.wakeWaitRoomCore m r) := by
  unfold wakeWaitRoomCore
  dsimp only
  split
  · exact ElemX.ext h (ext_roomWaitCancelled _ _ _ _ (ext_modReq _ _ _ (fun _ => ⟨rfl, rfl, rfl, rfl, rfl, Or.inl rfl⟩)
      (Ext.of_eq (Ext.refl p) rfl rfl)))
  · split
    · refine elemx_roomGranted _ m r { r' with mustCancel := false } ?_ (modReq_self _ m _ r' hr) hk
        (fun e => h.fr1 m r' hr e (Or.inr hf))
      exact ElemX.ext h (ext_modReq _ _ _ (fun _ => ⟨rfl, rfl, rfl, rfl, rfl, Or.inl rfl⟩) (Ext.of_eq (Ext.refl p) rfl rfl))
    · exact ElemX.ext h (ext_modReq _ _ _ (fun _ => ⟨rfl, rfl, rfl, rfl, rfl, Or.inl rfl⟩) (Ext.of_eq (Ext.refl p) rfl rfl))

theorem elemx_wakeWaitRoom (p : Pool) (m : Nat) (r r' : Req) (h : ElemX p) (hr : p.reqs[m]? = some r')
    (hk : r'.kind = r.kind) (hf : r'.frame = .waitRoom) : ElemX (p.wakeWaitRoom m r) := by
  unfold wakeWaitRoom
  split
  · exact elemx_wakeWaitRoomCore p m r r' h hr hk hf
  · exact h

/-- `acquire()` of the call's own semaphore returned: the task for the element in hand is started -/
theorem elemx_mapSemGranted (p : Pool) (m : Nat) (r r' : Req) (h : ElemX p) (hr : p.reqs[m]? = some r')
    (hk : r'.kind = .map) (hp : r'.pulled = r'.created + r'.skipped + 1) : ElemX (p.mapSemGranted m r) := by
  unfold mapSemGranted
  dsimp only
  have hW : EW m 1 (p.modReq m fun x => { x with acquired := true, frame := .running }) :=
    EW.enter h m 1 r' hr hk hp _ (fun _ => ⟨rfl, rfl, rfl, rfl, rfl, Or.inr (Or.inr rfl)⟩) (fun _ => rfl)
  obtain ⟨h3, h4⟩ := elemx_mapStartTask _ m hW
  split
  · rename_i e; exact elemx_mapLoop m _ _ (h4 e)
  · exact h3

theorem elemx_wakeWaitMapSemCore (p : Pool) (m : Nat) (r r' : Req) (h : ElemX p) (hr : p.reqs[m]? = some r')
    (hf : r'.frame = .waitMapSem) : ElemX (p.wakeWaitMapSemCore m r) := by
  unfold wakeWaitMapSemCore
  dsimp only
  generalize (if ((removeWaiterL m r.mapSem.waiters).1 == some WaitSt.granted) = true then _ else _ : Sem × Option Nat) = s2
  have e : Ext p ((p.modReq m fun x => { x with mapSem := s2.1, mustCancel := false }).schedOpt s2.2) :=
    ext_schedOpt _ _ (ext_modReq _ _ _ (fun _ => ⟨rfl, rfl, rfl, rfl, rfl, Or.inl rfl⟩) (Ext.refl p))
  have hk := h.wk m r' hr hf
  have hp := h.fr1 m r' hr hk (Or.inl hf)
  obtain ⟨r'', hr'', rr⟩ := ExtL.fwd e m r' hr
  split
  · exact elemx_finishMeta _ _ _ (h.ext e)
  · split
    · exact elemx_mapSemGranted _ m r r'' (h.ext e) hr'' (by rw [rr.kind]; exact hk)
        (by rw [rr.pulled, rr.created, rr.skipped]; exact hp)
    · exact h.ext e

theorem elemx_wakeWaitMapSem (p : Pool) (m : Nat) (r r' : Req) (h : ElemX p) (hr : p.reqs[m]? = some r')
    (hf : r'.frame = .waitMapSem) : ElemX (p.wakeWaitMapSem m r) := by
  unfold wakeWaitMapSem
  split
  · exact elemx_wakeWaitMapSemCore p m r r' h hr hf
  · exact h

theorem elemx_stepMeta (p : Pool) (m : Nat) (h : ElemX p) : ElemX (p.stepMeta m) := by
  unfold stepMeta
  split
  · exact h
  · rename_i r hr
    split
    · exact h
    · dsimp only
      have e : Ext p (p.modReq m fun x => { x with sched := false }) :=
        ext_modReq _ _ _ (fun _ => ⟨rfl, rfl, rfl, rfl, rfl, Or.inl rfl⟩) (Ext.refl p)
      have hr1 := modReq_self p m (fun x => { x with sched := false }) r hr
      split
      · exact h.ext e
      · exact h.ext e
      · rename_i hf; exact elemx_stepMetaNotStarted _ m r _ (h.ext e) hr1 rfl hf
      · rename_i hf; exact elemx_wakeWaitRoom _ m r _ (h.ext e) hr1 rfl hf
      · rename_i hf; exact elemx_wakeWaitMapSem _ m r _ (h.ext e) hr1 hf

/-! ### every handle, every operation -/

theorem elemx_runRef (p : Pool) (r : Ref) (h : ElemX p) : ElemX (p.runRef r) := by
  cases r with
  | task t => exact h.ext (ext_stepTask p t (Ext.refl p))
  | spawner m => exact elemx_stepMeta p m h
  | api a => exact h.ext (ext_stepApi p a (Ext.refl p))
  | gchild g i => exact h.ext (ext_gatherChildDone p g i true (Ext.refl p))

theorem elemx_applyOp (p : Pool) (op : Op) (h : ElemX p) : ElemX (p.applyOp op).1 :=
  h.ext (ext_applyOp p op (Ext.refl p))

theorem elemx_init (size : Cap) (simple : Option SpawnSpec) : ElemX (Pool.init size simple) := by
  refine ⟨⟨?_, ?_, ?_, ?_⟩, ?_, ?_, ?_, ?_⟩
  · intro t k a; simp [Pool.init] at a
  · intro t k a; simp [Pool.init] at a
  · intro t k r a; simp [Pool.init] at a
  · intro t1 t2 k1 k2 s1 s2 i1 i2 _ a; simp [Pool.init] at a
  · intro t k a; simp [Pool.init] at a
  · intro m r a; simp [Pool.init] at a
  · intro m r a; simp [Pool.init] at a
  · intro m r a; simp [Pool.init] at a

/-- **`ElemX` (hence `ElemOK`) holds in every pool of every reachable world**: established by the constructor, preserved by
every operation, every handle and the drain -/
theorem elemInvariant : PoolInvariant (fun _ p => ElemX p) allOps where
  init := fun c simple _ => elemx_init c.size0 simple
  op := fun _ _ _ o _ h => elemx_applyOp _ o (h.of_eq rfl rfl)
  run := fun _ _ _ r h => elemx_runRef _ r (h.of_eq rfl rfl)
  drain := fun _ _ h => h.of_eq rfl rfl

end Pool
/-- every pool of every reachable world, whatever the history -/
theorem World.elemx_run (base : Nat) (h : History) (i : Nat) (c : Cfg) (p : Pool)
    (hc : ((World.init base).run h).cfgs[i]? = some c) (hp : ((World.init base).run h).pools[i]? = some p) : p.ElemX :=
  (World.reachable Pool.elemInvariant base h (fun x _ => by cases x <;> rfl)).inv i c p hc hp

/-- every pool of every reachable world, whatever the history -/
theorem World.elem_run (base : Nat) (h : History) (i : Nat) (c : Cfg) (p : Pool)
    (hc : ((World.init base).run h).cfgs[i]? = some c) (hp : ((World.init base).run h).pools[i]? = some p) : p.ElemOK :=
  (World.elemx_run base h i c p hc hp).ok

end Taskpool
