import Taskpool.Inv.Elem
import Taskpool.Inv.Lift
/-! `ElemOK` (each element once, in order; each invocation with the request's own arguments) for ALL histories.

`ElemOK` alone is not inductive: at `createTask m true` the new element index is `pulled - 1`, which is the right one only
because a map-style spawner that is about to create a task holds exactly one pulled element in hand
(`pulled = created + skipped + 1`), and `km` needs every task's `req` to be a valid index (else a request registered later
could land on it) and only map-style requests to wait for a call's own semaphore.  The walking invariant `ElemX` adds these
clauses (copied from `AccReq` / `FinOK.pc0` / `pc1` / `kw`, here without any side condition on outcomes):

* `vr`  : every task's `req` is a valid request index;
* `fr0` : a map-style request that has not begun has nothing in hand, `pulled = created + skipped`;
* `fr1` : one that is suspended in an `acquire()` holds one element, `pulled = created + skipped + 1`;
* `wk`  : only a map-style request waits for a call's own semaphore.

Structure of the walk.  Almost every model function leaves `req` / `arg` / `isMap` of every task and `kind` / `stars` /
`pulled` / `created` / `skipped` of every request alone, moves `frame` at most to `done` / `running`, and appends only fresh
requests: the frame relation `Ext p0 p` ("`p` extends `p0`").  `Ext p0` is walked through the synchronous API, the task
wrapper, gather and flush / gather_and_close exactly like `NcOK` in `NcWalk` (this file); `ElemX` and the loop predicates
`EW m hand` / `EWA m` of the spawners are stable under `Ext`, and the spawner functions that do touch the counters
(`pullItem`, the skip, `createTask`, `waitRoom`, `waitMapSem`) are treated one by one in `ElemWalk2`. -/
namespace Taskpool
namespace Pool

/-! ### the frame relation -/

/-- `k'` has the key fields of `k` -/
structure KT (k' k : PTask) : Prop where
  req : k'.req = k.req
  arg : k'.arg = k.arg
  isMap : k'.isMap = k.isMap

/-- `r'` has the key fields of `r`; its frame is the same or has moved to `done` / `running` -/
structure KR (r' r : Req) : Prop where
  kind : r'.kind = r.kind
  stars : r'.stars = r.stars
  pulled : r'.pulled = r.pulled
  created : r'.created = r.created
  skipped : r'.skipped = r.skipped
  frame : r'.frame = r.frame ∨ r'.frame = .done ∨ r'.frame = .running

/-- a request registered on the way: nothing in hand, not suspended in an `acquire()` -/
def FreshR (r : Req) : Prop :=
  r.pulled = r.created + r.skipped ∧ (r.frame = .notStarted ∨ r.frame = .done ∨ r.frame = .running)

structure ExtL (ts : List PTask) (rs : List Req) (ts' : List PTask) (rs' : List Req) : Prop where
  tk : ∀ (t : Nat) (k' : PTask), ts'[t]? = some k' → ∃ k, ts[t]? = some k ∧ KT k' k
  rlen : rs.length ≤ rs'.length
  rk : ∀ (m : Nat) (r' : Req), rs'[m]? = some r' →
         (∃ r, rs[m]? = some r ∧ KR r' r) ∨ (rs.length ≤ m ∧ FreshR r')

/-- `p` extends `p0`: same tasks and requests up to fields that `ElemX` does not read, possibly more (fresh) requests -/
def Ext (p0 p : Pool) : Prop := ExtL p0.tasks p0.reqs p.tasks p.reqs

theorem KT.rfl' (k : PTask) : KT k k := ⟨rfl, rfl, rfl⟩
theorem KR.rfl' (r : Req) : KR r r := ⟨rfl, rfl, rfl, rfl, rfl, Or.inl rfl⟩

theorem KT.trans {a b c : PTask} (h1 : KT a b) (h2 : KT b c) : KT a c :=
  ⟨h1.req.trans h2.req, h1.arg.trans h2.arg, h1.isMap.trans h2.isMap⟩

theorem KR.trans {a b c : Req} (h1 : KR a b) (h2 : KR b c) : KR a c := by
  refine ⟨h1.kind.trans h2.kind, h1.stars.trans h2.stars, h1.pulled.trans h2.pulled, h1.created.trans h2.created,
    h1.skipped.trans h2.skipped, ?_⟩
  rcases h1.frame with e | e | e
  · rw [e]; exact h2.frame
  · exact Or.inr (Or.inl e)
  · exact Or.inr (Or.inr e)

theorem FreshR.of_kr {a b : Req} (h1 : KR a b) (h2 : FreshR b) : FreshR a := by
  refine ⟨by rw [h1.pulled, h1.created, h1.skipped]; exact h2.1, ?_⟩
  rcases h1.frame with e | e | e
  · rw [e]; exact h2.2
  · exact Or.inr (Or.inl e)
  · exact Or.inr (Or.inr e)

theorem ExtL.refl (ts : List PTask) (rs : List Req) : ExtL ts rs ts rs :=
  ⟨fun _ k h => ⟨k, h, KT.rfl' k⟩, Nat.le_refl _, fun _ r h => Or.inl ⟨r, h, KR.rfl' r⟩⟩

theorem ExtL.trans {a : List PTask} {b : List Req} {c : List PTask} {d : List Req} {e : List PTask} {f : List Req}
    (h1 : ExtL a b c d) (h2 : ExtL c d e f) : ExtL a b e f := by
  refine ⟨?_, Nat.le_trans h1.rlen h2.rlen, ?_⟩
  · intro t k'' hk
    obtain ⟨k', hk', e2⟩ := h2.tk t k'' hk
    obtain ⟨k, hk0, e1⟩ := h1.tk t k' hk'
    exact ⟨k, hk0, e2.trans e1⟩
  · intro m r'' hr
    rcases h2.rk m r'' hr with ⟨r', hr', e2⟩ | ⟨hl, hf⟩
    · rcases h1.rk m r' hr' with ⟨r, hr0, e1⟩ | ⟨hl, hf⟩
      · exact Or.inl ⟨r, hr0, e2.trans e1⟩
      · exact Or.inr ⟨hl, hf.of_kr e2⟩
    · exact Or.inr ⟨Nat.le_trans h1.rlen hl, hf⟩

/-- a request of the old pool is still there -/
theorem ExtL.fwd {a : List PTask} {b : List Req} {c : List PTask} {d : List Req} (h : ExtL a b c d) (m : Nat) (r : Req)
    (hr : b[m]? = some r) : ∃ r', d[m]? = some r' ∧ KR r' r := by
  have hm : m < b.length := by
    apply Classical.byContradiction; intro hn
    rw [List.getElem?_eq_none (Nat.le_of_not_lt hn)] at hr; cases hr
  have hm' : m < d.length := Nat.lt_of_lt_of_le hm h.rlen
  refine ⟨d[m], List.getElem?_eq_getElem hm', ?_⟩
  rcases h.rk m d[m] (List.getElem?_eq_getElem hm') with ⟨r0, hr0, e⟩ | ⟨hl, _⟩
  · rw [hr] at hr0; cases hr0; exact e
  · exact absurd hm (Nat.not_lt_of_le hl)

theorem Ext.refl (p : Pool) : Ext p p := ExtL.refl _ _

theorem Ext.trans {a b c : Pool} (h1 : Ext a b) (h2 : Ext b c) : Ext a c := ExtL.trans h1 h2

theorem Ext.of_eq {p0 p q : Pool} (h : Ext p0 p) (et : q.tasks = p.tasks) (er : q.reqs = p.reqs) : Ext p0 q := by
  unfold Ext at *; rw [et, er]; exact h

/-- a rewrite of a task that leaves `req`, `arg`, `isMap` alone -/
def KeepsT (f : PTask → PTask) : Prop := ∀ x, (f x).req = x.req ∧ (f x).arg = x.arg ∧ (f x).isMap = x.isMap

/-- a rewrite of a request that leaves `kind`, `stars` and the counters alone and moves `frame` at most to `done` /
`running` -/
def KeepsR (f : Req → Req) : Prop :=
  ∀ x, (f x).kind = x.kind ∧ (f x).stars = x.stars ∧ (f x).pulled = x.pulled ∧ (f x).created = x.created ∧
    (f x).skipped = x.skipped ∧ ((f x).frame = x.frame ∨ (f x).frame = .done ∨ (f x).frame = .running)

theorem ext_getElem?_modify_some {α} (l : List α) (t i : Nat) (f : α → α) (y : α) (h : (l.modify t f)[i]? = some y) :
    ∃ x, l[i]? = some x ∧ (y = f x ∨ y = x) := by
  rw [List.getElem?_modify] at h
  cases hx : l[i]? with
  | none => simp [hx] at h
  | some x =>
    simp [hx] at h
    refine ⟨x, rfl, ?_⟩
    split at h
    · exact Or.inl h.symm
    · exact Or.inr h.symm

theorem ExtL.modifyT (ts : List PTask) (rs : List Req) (t : Nat) (f : PTask → PTask) (hf : KeepsT f) :
    ExtL ts rs (ts.modify t f) rs := by
  refine ⟨?_, Nat.le_refl _, fun _ r h => Or.inl ⟨r, h, KR.rfl' r⟩⟩
  intro i k' hk
  obtain ⟨x, hx, e | e⟩ := ext_getElem?_modify_some _ _ _ _ _ hk
  · subst e; exact ⟨x, hx, ⟨(hf x).1, (hf x).2.1, (hf x).2.2⟩⟩
  · subst e; exact ⟨k', hx, KT.rfl' _⟩

theorem ExtL.modifyR (ts : List PTask) (rs : List Req) (m : Nat) (f : Req → Req) (hf : KeepsR f) :
    ExtL ts rs ts (rs.modify m f) := by
  refine ⟨fun _ k h => ⟨k, h, KT.rfl' k⟩, by rw [List.length_modify]; exact Nat.le_refl _, ?_⟩
  intro i r' hr
  obtain ⟨x, hx, e | e⟩ := ext_getElem?_modify_some _ _ _ _ _ hr
  · subst e
    obtain ⟨a, b, c, d, e, g⟩ := hf x
    exact Or.inl ⟨x, hx, ⟨a, b, c, d, e, g⟩⟩
  · subst e; exact Or.inl ⟨r', hx, KR.rfl' _⟩

theorem ExtL.mapR (ts : List PTask) (rs : List Req) (f : Req → Req) (hf : KeepsR f) : ExtL ts rs ts (rs.map f) := by
  refine ⟨fun _ k h => ⟨k, h, KT.rfl' k⟩, by rw [List.length_map]; exact Nat.le_refl _, ?_⟩
  intro i r' hr
  rw [List.getElem?_map] at hr
  cases hx : rs[i]? with
  | none => simp [hx] at hr
  | some x =>
    simp [hx] at hr
    subst hr
    obtain ⟨a, b, c, d, e, g⟩ := hf x
    exact Or.inl ⟨x, rfl, ⟨a, b, c, d, e, g⟩⟩

theorem ExtL.appendR (ts : List PTask) (rs : List Req) (r : Req) (hr : FreshR r) : ExtL ts rs ts (rs ++ [r]) := by
  refine ⟨fun _ k h => ⟨k, h, KT.rfl' k⟩, by rw [List.length_append]; exact Nat.le_add_right _ _, ?_⟩
  intro i r' hi
  rw [List.getElem?_append] at hi
  split at hi
  · exact Or.inl ⟨r', hi, KR.rfl' _⟩
  · rename_i hge
    cases hj : i - rs.length with
    | zero => rw [hj] at hi; simp at hi; subst hi; exact Or.inr ⟨Nat.le_of_not_lt hge, hr⟩
    | succ j => rw [hj] at hi; simp at hi

theorem Ext.of_modifyT {p0 p q : Pool} (h : Ext p0 p) (t : Nat) (f : PTask → PTask) (et : q.tasks = p.tasks.modify t f)
    (er : q.reqs = p.reqs) (hf : KeepsT f) : Ext p0 q := by
  unfold Ext at *; rw [et, er]; exact h.trans (ExtL.modifyT _ _ t f hf)

theorem Ext.of_modifyR {p0 p q : Pool} (h : Ext p0 p) (m : Nat) (f : Req → Req) (et : q.tasks = p.tasks)
    (er : q.reqs = p.reqs.modify m f) (hf : KeepsR f) : Ext p0 q := by
  unfold Ext at *; rw [et, er]; exact h.trans (ExtL.modifyR _ _ m f hf)

theorem Ext.of_mapR {p0 p q : Pool} (h : Ext p0 p) (f : Req → Req) (et : q.tasks = p.tasks)
    (er : q.reqs = p.reqs.map f) (hf : KeepsR f) : Ext p0 q := by
  unfold Ext at *; rw [et, er]; exact h.trans (ExtL.mapR _ _ f hf)

theorem Ext.of_appendR {p0 p q : Pool} (h : Ext p0 p) (r : Req) (et : q.tasks = p.tasks)
    (er : q.reqs = p.reqs ++ [r]) (hr : FreshR r) : Ext p0 q := by
  unfold Ext at *; rw [et, er]; exact h.trans (ExtL.appendR _ _ r hr)

/-! ### the walking invariant -/

structure ElemX (p : Pool) : Prop where
  ok : ElemOK p
  /-- every task's `req` is a valid request index -/
  vr : ∀ (t : Nat) (k : PTask), p.tasks[t]? = some k → k.req < p.reqs.length
  /-- a map-style request that has not begun has nothing in hand … -/
  fr0 : ∀ (m : Nat) (r : Req), p.reqs[m]? = some r → r.kind = .map → r.frame = .notStarted →
          r.pulled = r.created + r.skipped
  /-- … one that is suspended in an `acquire()` holds exactly one pulled element for which no task exists yet -/
  fr1 : ∀ (m : Nat) (r : Req), p.reqs[m]? = some r → r.kind = .map → r.frame = .waitMapSem ∨ r.frame = .waitRoom →
          r.pulled = r.created + r.skipped + 1
  /-- only a map-style request waits for a call's own semaphore -/
  wk : ∀ (m : Nat) (r : Req), p.reqs[m]? = some r → r.frame = .waitMapSem → r.kind = .map

theorem ElemOK.of_eq {p q : Pool} (h : ElemOK p) (et : q.tasks = p.tasks) (er : q.reqs = p.reqs) : ElemOK q := by
  refine ⟨?_, ?_, ?_, ?_⟩
  · rw [et]; exact h.ap
  · rw [et, er]; exact h.el
  · rw [et, er]; exact h.km
  · rw [et]; exact h.ord

theorem ElemX.of_eq {p q : Pool} (h : ElemX p) (et : q.tasks = p.tasks) (er : q.reqs = p.reqs) : ElemX q := by
  refine ⟨h.ok.of_eq et er, ?_, ?_, ?_, ?_⟩
  · rw [et, er]; exact h.vr
  · rw [er]; exact h.fr0
  · rw [er]; exact h.fr1
  · rw [er]; exact h.wk

/-- old request behind a request of the extension, when its index is old -/
theorem ExtL.back {a : List PTask} {b : List Req} {c : List PTask} {d : List Req} (h : ExtL a b c d) (m : Nat) (r' : Req)
    (hr : d[m]? = some r') (hm : m < b.length) : ∃ r, b[m]? = some r ∧ KR r' r := by
  rcases h.rk m r' hr with x | ⟨hl, _⟩
  · exact x
  · exact absurd hm (Nat.not_lt_of_le hl)

theorem ElemX.ext {p q : Pool} (h : ElemX p) (e : Ext p q) : ElemX q := by
  have e' : ExtL p.tasks p.reqs q.tasks q.reqs := e
  refine ⟨⟨?_, ?_, ?_, ?_⟩, ?_, ?_, ?_, ?_⟩
  · intro t k' hk hm
    obtain ⟨k, hk0, kk⟩ := e'.tk t k' hk
    rw [kk.arg]; exact h.ok.ap t k hk0 (by rw [← kk.isMap]; exact hm)
  · intro t k' hk hm
    obtain ⟨k, hk0, kk⟩ := e'.tk t k' hk
    obtain ⟨r, i, hr, hkd, ha, hi⟩ := h.ok.el t k hk0 (by rw [← kk.isMap]; exact hm)
    obtain ⟨r', hr', rr⟩ := e'.fwd k.req r hr
    refine ⟨r', i, by rw [kk.req]; exact hr', by rw [rr.kind]; exact hkd, by rw [kk.arg, rr.stars]; exact ha, ?_⟩
    rw [rr.created, rr.skipped]; exact hi
  · intro t k' r' hk hr
    obtain ⟨k, hk0, kk⟩ := e'.tk t k' hk
    rw [kk.req] at hr
    obtain ⟨r, hr0, rr⟩ := e'.back k.req r' hr (h.vr t k hk0)
    rw [kk.isMap, rr.kind]
    exact h.ok.km t k r hk0 hr0
  · intro t1 t2 k1' k2' s1 s2 i1 i2 hlt h1 h2 hq a1 a2
    obtain ⟨k1, hk1, kk1⟩ := e'.tk t1 k1' h1
    obtain ⟨k2, hk2, kk2⟩ := e'.tk t2 k2' h2
    exact h.ok.ord t1 t2 k1 k2 s1 s2 i1 i2 hlt hk1 hk2 (by rw [← kk1.req, ← kk2.req]; exact hq)
      (by rw [← kk1.arg]; exact a1) (by rw [← kk2.arg]; exact a2)
  · intro t k' hk
    obtain ⟨k, hk0, kk⟩ := e'.tk t k' hk
    rw [kk.req]; exact Nat.lt_of_lt_of_le (h.vr t k hk0) e'.rlen
  · intro m r' hr hkd hf
    rcases e'.rk m r' hr with ⟨r, hr0, rr⟩ | ⟨_, hfr⟩
    · rw [rr.pulled, rr.created, rr.skipped]
      refine h.fr0 m r hr0 (by rw [← rr.kind]; exact hkd) ?_
      rcases rr.frame with x | x | x
      · rw [← x]; exact hf
      · rw [x] at hf; cases hf
      · rw [x] at hf; cases hf
    · exact hfr.1
  · intro m r' hr hkd hf
    rcases e'.rk m r' hr with ⟨r, hr0, rr⟩ | ⟨_, hfr⟩
    · rw [rr.pulled, rr.created, rr.skipped]
      refine h.fr1 m r hr0 (by rw [← rr.kind]; exact hkd) ?_
      rcases rr.frame with x | x | x
      · rw [← x]; exact hf
      · rw [x] at hf; rcases hf with y | y <;> cases y
      · rw [x] at hf; rcases hf with y | y <;> cases y
    · rcases hfr.2 with x | x | x <;> (rw [x] at hf; rcases hf with y | y <;> cases y)
  · intro m r' hr hf
    rcases e'.rk m r' hr with ⟨r, hr0, rr⟩ | ⟨_, hfr⟩
    · rw [rr.kind]
      refine h.wk m r hr0 ?_
      rcases rr.frame with x | x | x
      · rw [← x]; exact hf
      · rw [x] at hf; cases hf
      · rw [x] at hf; cases hf
    · rcases hfr.2 with x | x | x <;> (rw [x] at hf; cases hf)


/-! ### the walk of `Ext p0` through every function that does not touch the counters (pattern of `NcWalk`) -/

variable {p0 : Pool}

theorem snapReq_keepsR (x : Req) : (snapReq x).kind = x.kind ∧ (snapReq x).stars = x.stars ∧ (snapReq x).pulled = x.pulled ∧
    (snapReq x).created = x.created ∧ (snapReq x).skipped = x.skipped ∧
    ((snapReq x).frame = x.frame ∨ (snapReq x).frame = .done ∨ (snapReq x).frame = .running) := by
  unfold snapReq
  split <;> exact ⟨rfl, rfl, rfl, rfl, rfl, Or.inl rfl⟩

theorem cbCount_keepsT (isEnd : Bool) : KeepsT (cbCount isEnd) := by
  intro x; unfold cbCount; split <;> exact ⟨rfl, rfl, rfl⟩

/-- a record update that keeps `tasks` and `reqs`: `simp only [ext_mk]` strips it -/
theorem ext_mk (x : Pool) (simple : Option SpawnSpec) (startCalls : Nat) (sem : Sem) (locked closed : Bool)
    (groups : List (String × List Nat)) (running cancelledR ended metaCancelled : List Nat)
    (apis : List Api) (gathers : List Gather) (closedWaiters : List Nat) (emit : List Ref) (log : List Ev)
    (names : List String) (orders : List (List Nat)) (ambiguous lost resized : Bool) :
    Ext p0 { simple := simple, startCalls := startCalls, sem := sem, locked := locked, closed := closed, tasks := (x.tasks),
             reqs := x.reqs, groups := groups, running := running, cancelledR := cancelledR, ended := ended,
             metaCancelled := metaCancelled, apis := apis, gathers := gathers, closedWaiters := closedWaiters, emit := emit,
             log := log, names := names, orders := orders, ambiguous := ambiguous, lost := lost, resized := resized } ↔
    Ext p0 x := Iff.rfl

/-- side goals `KeepsT f` / `KeepsR f` for the rewrites the model uses -/
macro "ext_keeps" : tactic =>
  `(tactic| first
    | exact fun _ => ⟨rfl, rfl, rfl⟩
    | exact cbCount_keepsT _
    | exact fun _ => ⟨rfl, rfl, rfl, rfl, rfl, Or.inl rfl⟩
    | exact fun _ => ⟨rfl, rfl, rfl, rfl, rfl, Or.inr (Or.inl rfl)⟩
    | exact fun _ => ⟨rfl, rfl, rfl, rfl, rfl, Or.inr (Or.inr rfl)⟩
    | exact fun _ => snapReq_keepsR _
    | (intro x; dsimp only; split <;> exact ⟨rfl, rfl, rfl, rfl, rfl, Or.inl rfl⟩))

open Lean in
/-- backward chaining through the given step lemmas, splitting `if` / `match` where stuck -/
macro "exw" "[" ls:term,* "]" : tactic => do
  let alts ← ls.getElems.mapM fun l => `(tactic| with_reducible apply $l)
  `(tactic| repeat' (first | with_reducible assumption $[| $alts:tactic]* | simp only [ext_mk] | ext_keeps | split | dsimp only | assumption))

/-! ### plumbing -/

theorem ext_modTask (p : Pool) (t : Nat) (f : PTask → PTask) (hf : KeepsT f) (h : Ext p0 p) : Ext p0 (p.modTask t f) :=
  h.of_modifyT t f rfl rfl hf
theorem ext_modApi (p : Pool) (a : Nat) (f : Api → Api) (h : Ext p0 p) : Ext p0 (p.modApi a f) := h.of_eq rfl rfl
theorem ext_modGather (p : Pool) (g : Nat) (f : Gather → Gather) (h : Ext p0 p) : Ext p0 (p.modGather g f) := h.of_eq rfl rfl
theorem ext_emitRef (p : Pool) (r : Ref) (h : Ext p0 p) : Ext p0 (p.emitRef r) := h.of_eq rfl rfl
theorem ext_logEv (p : Pool) (e : Ev) (h : Ext p0 p) : Ext p0 (p.logEv e) := h.of_eq rfl rfl

theorem ext_modReq (p : Pool) (m : Nat) (f : Req → Req) (hf : KeepsR f) (h : Ext p0 p) : Ext p0 (p.modReq m f) :=
  h.of_modifyR m f rfl rfl hf

theorem ext_foldl {α} (f : Pool → α → Pool) (hf : ∀ p a, Ext p0 p → Ext p0 (f p a)) (l : List α) (p : Pool) (h : Ext p0 p) :
    Ext p0 (l.foldl f p) := by
  induction l generalizing p with
  | nil => exact h
  | cons a as ih => exact ih _ (hf p a h)

theorem ext_schedTask (p : Pool) (t : Nat) (h : Ext p0 p) : Ext p0 (p.schedTask t) := by
  unfold schedTask
  exw [ext_emitRef, ext_modTask]
theorem ext_schedApi (p : Pool) (a : Nat) (h : Ext p0 p) : Ext p0 (p.schedApi a) := h.of_eq rfl rfl

theorem ext_schedMeta (p : Pool) (m : Nat) (h : Ext p0 p) : Ext p0 (p.schedMeta m) := by
  unfold schedMeta
  exw [ext_emitRef, ext_modReq]

theorem ext_schedOpt (p : Pool) (o : Option Nat) (h : Ext p0 p) : Ext p0 (p.schedOpt o) := by
  unfold schedOpt
  exw [ext_schedMeta]

theorem ext_emitChildren (p : Pool) (cbs : List (Nat × Nat)) (h : Ext p0 p) : Ext p0 (p.emitChildren cbs) :=
  ext_foldl _ (fun p _ h => ext_emitRef p _ h) cbs p h

theorem ext_releasePool (p : Pool) (h : Ext p0 p) : Ext p0 p.releasePool := by
  unfold releasePool
  exw [ext_schedOpt]

theorem ext_releaseMap (p : Pool) (m : Nat) (h : Ext p0 p) : Ext p0 (p.releaseMap m) := by
  unfold releaseMap
  exw [ext_schedOpt, ext_modReq]

theorem ext_taskCancel (p : Pool) (t : Nat) (h : Ext p0 p) : Ext p0 (p.taskCancel t) := by
  unfold taskCancel
  exw [ext_schedTask, ext_modTask]

theorem ext_cancelTask (p : Pool) (t : Nat) (h : Ext p0 p) : Ext p0 (p.cancelTask t) := by
  unfold cancelTask
  exw [ext_taskCancel, ext_modTask]

theorem ext_metaCancel (p : Pool) (m : Nat) (h : Ext p0 p) : Ext p0 (p.metaCancel m) := by
  unfold metaCancel
  exw [ext_schedMeta, ext_modReq]

/-- the plumbing lemmas, plus the ones given -/
macro "ex1" "[" ls:term,* "]" : tactic =>
  `(tactic| exw [ext_modTask, ext_modApi, ext_modGather, ext_emitRef, ext_logEv, ext_modReq, ext_schedTask,
    ext_schedApi, ext_schedMeta, ext_schedOpt, ext_emitChildren, ext_releasePool, ext_releaseMap, ext_taskCancel,
    ext_cancelTask, ext_metaCancel, $ls,*])

/-! ### synchronous API: the only place where `kind` / `nc` are written -/

theorem ext_register (p : Pool) (r : Req) (hr : FreshR r) (h : Ext p0 p) : Ext p0 (p.register r) :=
  h.of_appendR r rfl rfl hr

theorem freshR_newReq (kind : ReqKind) (stars : Nat) (group : String) (sp : SpawnSpec) (remaining : Nat) (items : List Item)
    (nc : Nat) : FreshR (newReq kind stars group sp remaining items nc) := ⟨rfl, Or.inl rfl⟩

theorem ext_doApply (p : Pool) (num : Int) (group : Option String) (sp : SpawnSpec) (h : Ext p0 p) :
    Ext p0 (p.doApply num group sp).1 := by
  unfold doApply
  ex1 [ext_register, freshR_newReq]

theorem ext_doMap (p : Pool) (stars : Nat) (items : List Item) (nc : Int) (group : Option String) (sp : SpawnSpec)
    (h : Ext p0 p) : Ext p0 (p.doMap stars items nc group sp).1 := by
  unfold doMap
  ex1 [ext_register, freshR_newReq]

theorem ext_doStart (p : Pool) (num : Int) (h : Ext p0 p) : Ext p0 (p.doStart num).1 := by
  unfold doStart
  split
  · exact h
  · split
    · exact h
    · exact ext_register _ _ (freshR_newReq _ _ _ _ _ _ _) (h.of_eq rfl rfl)

theorem ext_doCancel (p : Pool) (ids : List Int) (h : Ext p0 p) : Ext p0 (p.doCancel ids).1 := by
  unfold doCancel
  split
  · exact h
  · exact ext_foldl _ (fun p _ h => ext_cancelTask p _ h) ids p h

theorem ext_doStop (p : Pool) (n : Int) (h : Ext p0 p) : Ext p0 (p.doStop n).1 := by
  unfold doStop
  split
  · exact h
  · exact ext_doCancel p _ h

theorem ext_popOrder (p : Pool) (h : Ext p0 p) : Ext p0 p.popOrder.1 := by
  unfold popOrder
  split
  · exact h
  · exact h.of_eq rfl rfl

theorem ext_cancelGroupMetas (p : Pool) (g : String) (h : Ext p0 p) : Ext p0 (p.cancelGroupMetas g) := by
  unfold cancelGroupMetas
  dsimp only
  refine Ext.of_mapR (ext_foldl _ (fun p m h => ext_metaCancel p m h) _ p h) _ rfl rfl ?_
  ext_keeps

theorem ext_cancelGroupBody (p : Pool) (g : String) (ids order : List Nat) (h : Ext p0 p) (q : Pool)
    (e : p.cancelGroupBody g ids order = some q) : Ext p0 q := by
  unfold cancelGroupBody at e
  dsimp only at e
  split at e
  · cases e
  · cases e
    exact ext_foldl _ (fun p t h => ext_cancelTask p t h) _ _ (ext_cancelGroupMetas p g h)

theorem ext_doCancelGroup (p : Pool) (g : String) (h : Ext p0 p) : Ext p0 (p.doCancelGroup g).1 := by
  unfold doCancelGroup
  split
  · exact h
  · dsimp only
    split
    · exact h
    · rename_i p2 e
      refine ext_cancelGroupBody _ g _ _ ?_ p2 e
      exact (ext_popOrder p h).of_eq rfl rfl

theorem ext_cancelAllLoop (gs : List (String × List Nat)) (order : List Nat) (p : Pool) (h : Ext p0 p) (q : Pool)
    (e : cancelAllLoop gs order p = some q) : Ext p0 q := by
  induction gs generalizing p with
  | nil => unfold cancelAllLoop at e; cases e; exact h
  | cons x xs ih =>
    obtain ⟨g, ids⟩ := x
    unfold cancelAllLoop at e
    split at e
    · cases e
    · rename_i p1 e1
      exact ih p1 (ext_cancelGroupBody p g ids order h p1 e1) e

theorem ext_doCancelAll (p : Pool) (h : Ext p0 p) : Ext p0 p.doCancelAll.1 := by
  unfold doCancelAll
  dsimp only
  split
  · exact h
  · rename_i p2 e
    refine ext_cancelAllLoop _ _ _ ?_ p2 e
    exact (ext_popOrder p h).of_eq rfl rfl

theorem ext_doSetSize (p : Pool) (v : Int) (h : Ext p0 p) : Ext p0 (p.doSetSize v).1 := by
  unfold doSetSize
  split
  · exact h
  · exact h.of_eq rfl rfl

theorem ext_doHook (p : Pool) (ctx : Nat) (o : HookOp) (h : Ext p0 p) : Ext p0 (p.doHook ctx o).1 := by
  unfold doHook
  ex1 [ext_doCancel, ext_doCancelGroup, ext_doCancelAll, ext_doStop, ext_doApply]

theorem ext_runHooks (p : Pool) (ctx : Nat) (hs : List HookOp) (h : Ext p0 p) : Ext p0 (p.runHooks ctx hs) :=
  ext_foldl _ (fun p o h => ext_logEv _ _ (ext_doHook p ctx o h)) hs p h

/-- plumbing and the synchronous API, plus the lemmas given -/
macro "ex2" "[" ls:term,* "]" : tactic =>
  `(tactic| ex1 [ext_doCancel, ext_doCancelGroup, ext_doCancelAll, ext_doStop, ext_doApply, ext_doHook,
    ext_runHooks, $ls,*])

/-! ### the wrapper of a pool task -/

theorem ext_completeTask (p : Pool) (t : Nat) (o : Outcome) (h : Ext p0 p) : Ext p0 (p.completeTask t o) := by
  unfold completeTask
  ex2 []

theorem ext_finishTask (p : Pool) (t : Nat) (h : Ext p0 p) : Ext p0 (p.finishTask t) := by
  unfold finishTask
  split
  · exact h
  · exact ext_completeTask p t _ h

theorem ext_suspendTask (p : Pool) (t : Nat) (ph : Phase) (h : Ext p0 p) : Ext p0 (p.suspendTask t ph) := by
  unfold suspendTask
  ex2 []

theorem ext_cbBegin (p : Pool) (t : Nat) (tk : PTask) (isEnd : Bool) (h : Ext p0 p) : Ext p0 (p.cbBegin t tk isEnd) := by
  unfold cbBegin
  dsimp only
  exact ext_runHooks _ _ _ (ext_logEv _ _ (ext_modTask p t _ (cbCount_keepsT _) h))

theorem ext_runCb (p : Pool) (t : Nat) (tk : PTask) (isEnd : Bool) (h : Ext p0 p) : Ext p0 (p.runCb t tk isEnd).1 := by
  unfold runCb
  ex2 [ext_cbBegin, ext_suspendTask]

theorem ext_moveToEnded (p : Pool) (t : Nat) (h : Ext p0 p) (q : Pool) (e : p.moveToEnded t = some q) : Ext p0 q := by
  unfold moveToEnded at e
  split at e
  · cases e; exact h.of_eq rfl rfl
  · split at e
    · cases e; exact h.of_eq rfl rfl
    · cases e

theorem ext_releaseMapSlot (p : Pool) (t : Nat) (tk : PTask) (h : Ext p0 p) : Ext p0 (p.releaseMapSlot t tk) := by
  unfold releaseMapSlot
  ex2 []

theorem ext_endCallback (p : Pool) (t : Nat) (tk : PTask) (h : Ext p0 p) : Ext p0 (p.endCallback t tk) := by
  unfold endCallback
  ex2 [ext_runCb, ext_releaseMapSlot, ext_finishTask]

theorem ext_endingTail (p : Pool) (t : Nat) (tk : PTask) (h : Ext p0 p) : Ext p0 (p.endingTail t tk) := by
  unfold endingTail
  ex2 [ext_endCallback]

theorem ext_keyErrorFinish (p : Pool) (t : Nat) (h : Ext p0 p) : Ext p0 (p.keyErrorFinish t) := by
  unfold keyErrorFinish
  ex2 [ext_finishTask]

theorem ext_taskEnding (p : Pool) (t : Nat) (h : Ext p0 p) : Ext p0 (p.taskEnding t) := by
  unfold taskEnding
  split
  · exact h
  · split
    · exact ext_keyErrorFinish p t h
    · rename_i p1 e
      exact ext_endingTail p1 t _ (ext_moveToEnded p t h p1 e)

theorem ext_cancelCallback (p : Pool) (t : Nat) (tk : PTask) (h : Ext p0 p) : Ext p0 (p.cancelCallback t tk) := by
  unfold cancelCallback
  ex2 [ext_runCb, ext_taskEnding]

theorem ext_taskCancellation (p : Pool) (t : Nat) (tk : PTask) (h : Ext p0 p) : Ext p0 (p.taskCancellation t tk) := by
  unfold taskCancellation
  ex2 [ext_cancelCallback, ext_taskEnding]

theorem ext_afterWorker (p : Pool) (t : Nat) (e : Option Err) (h : Ext p0 p) : Ext p0 (p.afterWorker t e) := by
  unfold afterWorker
  ex2 [ext_taskEnding]

theorem ext_stepCreated (p : Pool) (t : Nat) (tk : PTask) (h : Ext p0 p) : Ext p0 (p.stepCreated t tk) := by
  unfold stepCreated
  ex2 [ext_taskCancellation, ext_afterWorker, ext_suspendTask]

theorem ext_workerCancelled (p : Pool) (t : Nat) (tk : PTask) (h : Ext p0 p) : Ext p0 (p.workerCancelled t tk) := by
  unfold workerCancelled
  ex2 [ext_taskCancellation, ext_afterWorker, ext_suspendTask]

theorem ext_workerNext (p : Pool) (t : Nat) (tk : PTask) (h : Ext p0 p) : Ext p0 (p.workerNext t tk) := by
  unfold workerNext
  ex2 [ext_suspendTask]

theorem ext_stepInWorker (p : Pool) (t : Nat) (tk : PTask) (h : Ext p0 p) : Ext p0 (p.stepInWorker t tk) := by
  unfold stepInWorker
  ex2 [ext_workerCancelled, ext_workerNext, ext_afterWorker]

theorem ext_stepInCancelCb (p : Pool) (t : Nat) (tk : PTask) (h : Ext p0 p) : Ext p0 (p.stepInCancelCb t tk) := by
  unfold stepInCancelCb
  ex2 [ext_taskEnding]

theorem ext_stepInEndCb (p : Pool) (t : Nat) (tk : PTask) (h : Ext p0 p) : Ext p0 (p.stepInEndCb t tk) := by
  unfold stepInEndCb
  ex2 [ext_finishTask]

theorem ext_stepTask (p : Pool) (t : Nat) (h : Ext p0 p) : Ext p0 (p.stepTask t) := by
  unfold stepTask
  ex2 [ext_stepCreated, ext_stepInWorker, ext_stepInCancelCb, ext_stepInEndCb]

/-! ### spawners -/

theorem ext_finishMeta (p : Pool) (m : Nat) (o : Outcome) (h : Ext p0 p) : Ext p0 (p.finishMeta m o) := by
  unfold finishMeta
  ex2 []


/-! ### gather -/

theorem ext_gatherChildDone (p : Pool) (g i : Nat) (v : Bool) (h : Ext p0 p) : Ext p0 (p.gatherChildDone g i v) := by
  unfold gatherChildDone
  ex2 []

theorem ext_registerChild (p : Pool) (c : Child) (g i : Nat) (h : Ext p0 p) : Ext p0 (p.registerChild c g i) := by
  unfold registerChild
  ex2 []

theorem ext_gatherScan (g : Nat) (cs : List Child) (i : Nat) (p : Pool) (h : Ext p0 p) : Ext p0 (gatherScan g cs i p) := by
  induction cs generalizing i p with
  | nil => unfold gatherScan; exact h
  | cons c cs ih =>
    unfold gatherScan
    ex2 [ih, ext_gatherChildDone, ext_registerChild]

theorem ext_gatherStart (p : Pool) (children : List Child) (re : Bool) (owner sp : Nat) (h : Ext p0 p) :
    Ext p0 (p.gatherStart children re owner sp).1 := by
  unfold gatherStart
  ex2 [ext_gatherScan]

/-! ### flush / gather_and_close / until_closed -/

theorem ext_finishApi (p : Pool) (a : Nat) (o : Outcome) (h : Ext p0 p) : Ext p0 (p.finishApi a o) := h.of_eq rfl rfl

/-- `reqs := reqs.map f` with a rewrite that keeps the key fields -/
theorem ext_mapReqs (x : Pool) (f : Req → Req) (hf : KeepsR f) (simple : Option SpawnSpec) (startCalls : Nat) (sem : Sem)
    (locked closed : Bool) (groups : List (String × List Nat))
    (running cancelledR ended metaCancelled : List Nat) (apis : List Api) (gathers : List Gather)
    (closedWaiters : List Nat) (emit : List Ref) (log : List Ev) (names : List String) (orders : List (List Nat))
    (ambiguous lost resized : Bool) (h : Ext p0 x) :
    Ext p0 { simple := simple, startCalls := startCalls, sem := sem, locked := locked, closed := closed, tasks := (x.tasks),
             reqs := x.reqs.map f, groups := groups, running := running, cancelledR := cancelledR, ended := ended,
             metaCancelled := metaCancelled, apis := apis, gathers := gathers, closedWaiters := closedWaiters, emit := emit,
             log := log, names := names, orders := orders, ambiguous := ambiguous, lost := lost, resized := resized } :=
  h.of_mapR f rfl rfl hf

theorem ext_flushAfter2 (p : Pool) (a : Nat) (o : Outcome) (h : Ext p0 p) : Ext p0 (p.flushAfter2 a o) := by
  unfold flushAfter2
  ex2 [ext_finishApi]

theorem ext_flushAfter1 (p : Pool) (a : Nat) (re : Bool) (o : Outcome) (h : Ext p0 p) : Ext p0 (p.flushAfter1 a re o) := by
  unfold flushAfter1
  ex2 [ext_finishApi, ext_flushAfter2, ext_gatherStart, ext_mapReqs]

theorem ext_flushStage1 (p : Pool) (a : Nat) (re : Bool) (h : Ext p0 p) : Ext p0 (p.flushStage1 a re) := by
  unfold flushStage1
  ex2 [ext_flushAfter1, ext_gatherStart, ext_mapReqs]

theorem ext_gacAfter2 (p : Pool) (a : Nat) (o : Outcome) (h : Ext p0 p) : Ext p0 (p.gacAfter2 a o) := by
  unfold gacAfter2
  split
  · dsimp only
    refine ext_finishApi _ a _ (ext_foldl _ (fun p w h => ext_schedApi p w h) _ _ ?_)
    exact h.of_eq rfl rfl
  · exact ext_finishApi p a _ h

theorem ext_gacAfter1 (p : Pool) (a : Nat) (re : Bool) (g : Nat) (h : Ext p0 p) : Ext p0 (p.gacAfter1 a re g) := by
  unfold gacAfter1
  ex2 [ext_finishApi, ext_gacAfter2, ext_gatherStart, ext_mapReqs]

theorem ext_gacStage1 (p : Pool) (a : Nat) (re : Bool) (h : Ext p0 p) : Ext p0 (p.gacStage1 a re) := by
  unfold gacStage1
  ex2 [ext_gacAfter1, ext_gatherStart]

theorem ext_untilClosedStart (p : Pool) (a : Nat) (h : Ext p0 p) : Ext p0 (p.untilClosedStart a) := by
  unfold untilClosedStart
  ex2 [ext_finishApi]

theorem ext_stepApi (p : Pool) (a : Nat) (h : Ext p0 p) : Ext p0 (p.stepApi a) := by
  unfold stepApi
  ex2 [ext_finishApi, ext_flushStage1, ext_gacStage1, ext_untilClosedStart, ext_flushAfter1, ext_flushAfter2,
    ext_gacAfter1, ext_gacAfter2]

/-! ### every handle, every operation -/

theorem ext_addApi (p : Pool) (k : ApiKind) (h : Ext p0 p) : Ext p0 (p.addApi k) := h.of_eq rfl rfl

theorem ext_doGate (p : Pool) (t : Nat) (o : FutSt) (h : Ext p0 p) : Ext p0 (p.doGate t o).1 := by
  unfold doGate
  ex2 []

theorem ext_applyOp (p : Pool) (op : Op) (h : Ext p0 p) : Ext p0 (p.applyOp op).1 := by
  unfold applyOp
  ex2 [ext_doMap, ext_doStart, ext_doSetSize, ext_addApi, ext_doGate]


end Pool
end Taskpool
