import Taskpool.Model.World
/-! Lifting a pool-local invariant to every pool of every reachable world:
induction over the input list — every history, every length, every handle order. -/
namespace Taskpool

/-- which inputs of a history a theorem admits: a predicate on the operations addressed to pools -/
def WOp.admits (ok : Op → Bool) : WOp → Bool
  | .on _ _ op => ok op
  | _ => true

/-- a pool-local invariant, possibly depending on what the pool was constructed with: established by the
constructor, preserved by every admitted operation, by every handle (in any order, with any observed cancel
orders) and by moving the queued handles to the loop -/
structure PoolInvariant (I : Cfg → Pool → Prop) (ok : Op → Bool) : Prop where
  init : ∀ (c : Cfg) (simple : Option SpawnSpec), c.isSimple = simple.isSome → I c (Pool.init c.size0 simple)
  op : ∀ (c : Cfg) (p : Pool) (orders : List (List Nat)) (o : Op), ok o = true → I c p →
        I c (({ p with orders := orders } : Pool).applyOp o).1
  run : ∀ (c : Cfg) (p : Pool) (orders : List (List Nat)) (r : Ref), I c p →
        I c (({ p with orders := orders } : Pool).runRef r)
  drain : ∀ (c : Cfg) (p : Pool), I c p → I c { p with emit := [] }

/-- every pool of the world, paired with its configuration, satisfies `I` -/
structure World.All (I : Cfg → Pool → Prop) (w : World) : Prop where
  len : w.cfgs.length = w.pools.length
  inv : ∀ (i : Nat) (c : Cfg) (p : Pool), w.cfgs[i]? = some c → w.pools[i]? = some p → I c p

theorem getElem?_set_some {α} (l : List α) (i j : Nat) (q x : α) (h : (l.set i q)[j]? = some x) :
    (j = i ∧ x = q) ∨ (j ≠ i ∧ l[j]? = some x) := by
  rw [List.getElem?_set] at h
  split at h
  · rename_i e
    split at h
    · simp at h; exact Or.inl ⟨e.symm, h.symm⟩
    · simp at h
  · rename_i ne; exact Or.inr ⟨fun e => ne e.symm, h⟩

theorem World.All.set {I : Cfg → Pool → Prop} {w : World} (hw : w.All I) (i : Nat) (p q : Pool)
    (hp : w.pools[i]? = some p) (hq : ∀ c, w.cfgs[i]? = some c → I c q) (w' : World)
    (hc : w'.cfgs = w.cfgs) (hps : w'.pools = w.pools.set i q) : w'.All I := by
  refine ⟨by rw [hc, hps, List.length_set]; exact hw.len, ?_⟩
  intro j c x hjc hjx
  rw [hc] at hjc; rw [hps] at hjx
  rcases getElem?_set_some _ _ _ _ _ hjx with ⟨rfl, rfl⟩ | ⟨_, h⟩
  · exact hq c hjc
  · exact hw.inv j c x hjc h

theorem World.all_step {I : Cfg → Pool → Prop} {ok : Op → Bool} (hI : PoolInvariant I ok) (w : World) (x : WOp)
    (hx : x.admits ok = true) (hw : w.All I) : (w.step x).1.All I := by
  cases x with
  | mkpool size simple name =>
    simp only [World.step, World.mkpool]
    split
    · exact hw
    · split
      · exact ⟨hw.len, hw.inv⟩
      · refine ⟨by simp [hw.len], ?_⟩
        intro i c p hc hp
        simp only at hc hp
        rw [List.getElem?_append] at hc hp
        split at hp
        · rename_i hlt
          rw [if_pos (by rw [hw.len]; exact hlt)] at hc
          exact hw.inv i c p hc hp
        · rename_i hge
          rw [if_neg (by rw [hw.len]; exact hge)] at hc
          rw [hw.len] at hc
          cases hi : i - w.pools.length with
          | zero =>
            rw [hi] at hc hp
            simp at hc hp
            subst hc; subst hp
            exact hI.init _ simple rfl
          | succ n => rw [hi] at hp; simp at hp
  | on i orders op =>
    simp only [World.step]
    split
    · exact hw
    · rename_i p hp
      exact hw.set i p _ hp (fun c hc => hI.op c p orders op hx (hw.inv i c p hc hp)) _ rfl rfl
  | run k orders =>
    simp only [World.step]
    split
    · exact hw
    · split
      · exact ⟨hw.len, hw.inv⟩
      · rename_i i r _ p hp
        exact hw.set _ p _ hp (fun c hc => hI.run c p orders _ (hw.inv _ c p hc hp)) _ rfl rfl

theorem World.all_drain {I : Cfg → Pool → Prop} {ok : Op → Bool} (hI : PoolInvariant I ok) (w : World) (hw : w.All I) :
    w.drain.All I := by
  refine ⟨by simp [World.drain, hw.len], ?_⟩
  intro i c p hc hp
  simp only [World.drain, List.getElem?_map] at hc hp
  cases hq : w.pools[i]? with
  | none => simp [hq] at hp
  | some q =>
    simp [hq] at hp
    subst hp
    exact hI.drain c q (hw.inv i c q hc hq)

theorem World.all_next {I : Cfg → Pool → Prop} {ok : Op → Bool} (hI : PoolInvariant I ok) (w : World) (x : WOp)
    (hx : x.admits ok = true) (hw : w.All I) : (w.next x).All I :=
  World.all_drain hI _ (World.all_step hI w x hx hw)

/-- **every reachable state**: a pool-local invariant holds for every pool after every admitted history -/
theorem World.all_run {I : Cfg → Pool → Prop} {ok : Op → Bool} (hI : PoolInvariant I ok) (w : World) (h : History)
    (hh : ∀ x ∈ h, x.admits ok = true) (hw : w.All I) : (w.run h).All I := by
  induction h generalizing w with
  | nil => exact hw
  | cons x xs ih =>
    simp only [World.run, List.foldl_cons]
    exact ih _ (fun y hy => hh y (by simp [hy])) (World.all_next hI w x (hh x (by simp)) hw)

theorem World.all_init (I : Cfg → Pool → Prop) (base : Nat) : (World.init base).All I :=
  ⟨rfl, fun i c p hc _ => by simp [World.init] at hc⟩

/-- from the empty world (any value of the class-level pool counter) -/
theorem World.reachable {I : Cfg → Pool → Prop} {ok : Op → Bool} (hI : PoolInvariant I ok) (base : Nat) (h : History)
    (hh : ∀ x ∈ h, x.admits ok = true) : ((World.init base).run h).All I :=
  World.all_run hI _ h hh (World.all_init I base)

def allOps : Op → Bool := fun _ => true

theorem admits_all (x : WOp) : x.admits allOps = true := by cases x <;> rfl

end Taskpool
