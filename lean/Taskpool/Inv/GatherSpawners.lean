import Taskpool.Inv.GatherCount
import Taskpool.Inv.Seal
/-! **Every spawner child of a completed exception-collecting gather has finished** — every pool of every reachable
world, and the state right after `gather_and_close()` has started its first gather.

The counting invariant `PInv` (`Inv/GatherInv.lean`) carries two clauses for this:

* `regS` — a child spawner is an existing request, and as long as it has not completed it carries the registration of
  its slot (the analogue of `reg` for child tasks);
* `cmp` — a gather with `return_exceptions=True` whose outer future has been completed has a complete count
  (`_done_callback` completes such a gather with the last count only; `gather()` completes it at once only when it has
  no children).

With the count an equality (`cnt`), a complete count leaves no slot outstanding: no registration of a slot of that
gather sits on a request without an outcome — so, by `regS`, every child spawner has one. -/
namespace Taskpool
namespace Pool

/-- **the counting argument for spawners**: the count of a completed collecting gather is complete (`cmp`), so no slot
of it is outstanding (`cnt`); a child spawner that had not completed would carry one (`regS`) -/
theorem PInv.spawnersWaited {R} {p : Pool} (h : PInv R p) : p.SpawnersWaited := by
  intro g G hG hre hout m hm
  obtain ⟨i, hi, him⟩ := List.getElem_of_mem hm
  have hc : G.children[i]? = some (.spawner m) := by rw [List.getElem?_eq_getElem hi, him]
  obtain ⟨r, hr, hreg⟩ := h.regS g G i m hG hc
  refine ⟨r, hr, ?_⟩
  cases hro : r.outcome with
  | some o => rfl
  | none =>
    exfalso
    have hp := pot_ge_regS p m r hr hro (g, i) (hreg hro)
    have hcnt := h.cnt g G hG
    have hcmp := h.cmp g G hG hre hout
    have h1 : W R p (g, i) ≤ rsum G.children.length (fun i => W R p (g, i)) :=
      rsum_ge_one G.children.length (fun i => W R p (g, i)) i hi
    have hw : W R p (g, i) = R (g, i) + p.pot (g, i) := rfl
    omega

/-- `gacStage1` up to and including the start of its first gather keeps the invariant (the intermediate step of
`AInv.gacStage1`) -/
theorem AInv.gacStage1Pre {R} {p : Pool} (h : AInv R p) (hmc : MC p) (a : Nat) (re : Bool) :
    AInv R (p.gacStage1Pre a re).1 := by
  unfold Pool.gacStage1Pre
  simp only
  have h1 : AInv R ({ ({ p with locked := true } : Pool) with ambiguous := p.ambiguous ||
      (!re && decide ((({ p with locked := true } : Pool).failKindsExc
        ((p.metaCancelled.map Child.spawner ++ (indicesWhere p.reqs fun r => r.inRunning).map Child.spawner).take p.metaCancelled.length)).length > 1)) } : Pool) :=
    h.of_frame (gv_of rfl rfl rfl rfl) rfl
  exact h1.gatherStart
    (p.metaCancelled.map Child.spawner ++ (indicesWhere p.reqs fun r => r.inRunning).map Child.spawner) true a 0
    (spawner_children_valid _ _ _)
    (spawner_children_lt _ _ _ (fun m hm => hmc m hm) (fun m hm => mem_indicesWhere_lt _ _ m hm))

end Pool

/-- every pool of every reachable world -/
theorem World.spawnersWaited_run (base : Nat) (h : History) (i : Nat) (p : Pool)
    (hp : ((World.init base).run h).pools[i]? = some p) : p.SpawnersWaited :=
  ((World.ginv_run base h).inv i p hp).spawnersWaited

/-- … and the state right after the first gather of a `gather_and_close()` has been started from it -/
theorem World.spawnersWaited_stage1 (base : Nat) (h : History) (i : Nat) (p : Pool)
    (hp : ((World.init base).run h).pools[i]? = some p) (orders : List (List Nat)) (a : Nat) (re : Bool) :
    ((({ p with orders := orders } : Pool).modApi a fun x => { x with sched := false }).gacStage1Pre a re).1.SpawnersWaited := by
  have hginv := World.ginv_run base h
  have hall : ((World.init base).run h).All BaseC := World.reachable baseC_invariant base h (fun x _ => by cases x <;> rfl)
  have hmc : p.MC := World.mcAll_run base h i p hp
  have hlt : i < ((World.init base).run h).cfgs.length := by
    rw [hall.len]; exact (List.getElem?_eq_some_iff.mp hp).1
  obtain ⟨cap, hgood⟩ := hall.inv i ((World.init base).run h).cfgs[i] p (by simp [hlt]) hp
  have hp0 : Pool.PInv (((World.init base).run h).rdy i) ({ p with orders := orders } : Pool) :=
    (hginv.inv i p hp).frame (Pool.gv_orders p orders) (Pool.tame_setOrders p orders).mono
  have hof : Pool.OutFin ({ p with orders := orders } : Pool) := fun t k hk => Pool.Good.outFin hgood t k hk
  have hrv : Pool.RegValid ({ p with orders := orders } : Pool) := fun t ht => Pool.Good.regValid hgood t ht
  have hA : Pool.AInv (((World.init base).run h).rdy i)
      (({ p with orders := orders } : Pool).modApi a fun x => { x with sched := false }) :=
    (Pool.AInv.mk hp0 hof hrv).modApi a _
  exact (hA.gacStage1Pre (fun m hm => hmc m hm) a re).pinv.spawnersWaited

#print axioms World.spawnersWaited_run
#print axioms World.spawnersWaited_stage1

end Taskpool
