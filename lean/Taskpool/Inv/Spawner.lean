import Taskpool.Inv.Task
/-! Spawners (`_apply_spawner`, `_start_num`, `_arg_consumer`) preserve `Good`. -/
namespace Taskpool
namespace Pool

theorem tame_finishMeta (p : Pool) (m o) : Tame p (p.finishMeta m o) := by
  unfold finishMeta
  split
  · exact Tame.refl p
  · refine Tame.trans (tame_modReq p m _ ?_) (tame_emitChildren _ _)
    intro x
    exact ⟨rfl, rfl, rfl, by simp [Req.pend], fun _ _ h => by cases h⟩

theorem grantsL_append_notGranted (ws : List Waiter) (w : Waiter) (h : w.st ≠ .granted) :
    grantsL (ws ++ [w]) = grantsL ws := by
  simp [grantsL, List.countP_append, h]

/-- queueing behind the pool semaphore moves no slot (it only happens when the semaphore is locked, which an
unbounded semaphore without waiters never is) -/
theorem good0_waitRoom {cap : Cap} {L R : Bool} (p : Pool) (m) (hg : Good0 cap L R p) (hl : p.sem.locked = true) :
    Good0 cap L R (p.waitRoom m) := by
  have facts : (p.waitRoom m).sem.value = p.sem.value ∧ grantsL (p.waitRoom m).sem.waiters = grantsL p.sem.waiters ∧
      (p.waitRoom m).tasks = p.tasks ∧ (p.waitRoom m).running = p.running ∧ (p.waitRoom m).cancelledR = p.cancelledR ∧
      (p.waitRoom m).ended = p.ended ∧ (p.waitRoom m).lost = p.lost ∧ (p.waitRoom m).groups = p.groups ∧
      (p.waitRoom m).apis = p.apis ∧ (p.waitRoom m).gathers = p.gathers ∧ (p.waitRoom m).resized = p.resized := by
    unfold waitRoom
    simp only
    split <;> simp_all [grantsL, List.countP_append, schedMeta, emitRef, modReq]
  obtain ⟨f1, f2, f3, f4, f5, f6, f7, f8, f9, f10, f11⟩ := facts
  refine ⟨?_, fun i tk h hn => hg.phase i tk (by rw [← f3]; exact h) hn, hg.reg.of_eq f3 f4 f5 f6 f7,
    hg.grp.of_eq f8 (by rw [f3]), hg.life.of_eq f3 f7,
    hg.fl.frame f10 f9 (fun t ⟨tk, a, b⟩ => ⟨tk, by rw [f3]; exact a, b⟩), ?_,
    (hg.strict.of_eq f7 f9 f11).rz, (hg.strict.of_eq f7 f9 f11).ll, (hg.strict.of_eq f7 f9 f11).al⟩
  rotate_left
  · -- the semaphore was locked: with a free slot and nothing granted there would have been a pending waiter already
    intro hr v hv hpos hgr w hw hp
    have hsem : (p.waitRoom m).sem.value = p.sem.value ∧
        ∃ w0 : Waiter, (p.waitRoom m).sem.waiters = p.sem.waiters ++ [w0] ∧ w0.st ≠ .granted ∧ (p.waitRoom m).resized = p.resized := by
      unfold waitRoom
      simp only
      split
      · exact ⟨rfl, _, rfl, by simp, rfl⟩
      · exact ⟨rfl, _, rfl, by simp, rfl⟩
    obtain ⟨e1, w0, e2, hw0, e3⟩ := hsem
    rw [e1] at hv
    rw [e3] at hr
    have hgr0 : grantsL p.sem.waiters = 0 := by rw [← f2]; exact hgr
    have hnp := hg.wk hr v hv hpos hgr0
    -- locked with a positive counter: some waiter is not cancelled
    have : ∃ w1 ∈ p.sem.waiters, w1.st ≠ .cancelled := by
      unfold Sem.locked at hl
      simp only [hv, Cap.isZero, Bool.or_eq_true, List.any_eq_true] at hl
      rcases hl with h0 | ⟨w1, hm, hne⟩
      · have : v = 0 := by
          cases v with
          | zero => rfl
          | succ n => simp at h0
        omega
      · exact ⟨w1, hm, by simpa using hne⟩
    obtain ⟨w1, hm1, hne1⟩ := this
    have hnp1 := hnp w1 hm1
    have hng1 : w1.st ≠ .granted := by
      intro e
      have : 0 < grantsL p.sem.waiters := by
        unfold grantsL
        exact List.countP_pos_iff.mpr ⟨w1, hm1, by simp [e]⟩
      omega
    cases hst : w1.st <;> simp_all
  cases cap with
  | fin n =>
    obtain ⟨v, hv, hs⟩ := hg.slot
    exact ⟨v, by rw [f1]; exact hv, by rw [f2, f3]; exact hs⟩
  | inf =>
    obtain ⟨hv, hw⟩ := hg.slot
    simp [Sem.locked, hv, hw, Cap.isZero] at hl

/-- the spawner of request `m` starts waiting for room: the map slot it carries (a map request always carries one
here) is entered in the books as carried -/
theorem mapOK_waitRoom {p : Pool} {m k : Nat} (h : MapMid p m k) (hlt : m < p.reqs.length)
    (hpre : ∀ r, p.reqs[m]? = some r → r.kind = .map → r.acquired = true ∧ 1 ≤ k) : MapOK (p.waitRoom m) := by
  have key : ∀ P : Pool, P.reqs = p.reqs → P.tasks = p.tasks →
      MapMid (P.modReq m fun x => { x with frame := MFrame.waitRoom, mustCancel := false }) m 0 := by
    intro P hr ht
    refine (h.of_eq hr ht).modReq _ 0 ?_ (fun _ => rfl) ?_
    · intro r v hr' hv
      rw [hr] at hr'
      refine ⟨v, hv, ?_⟩
      have hw : ({ r with frame := MFrame.waitRoom, mustCancel := false } : Req).mapSem.waiters = r.mapSem.waiters := rfl
      by_cases hk : r.kind = .map
      · have := hpre r hr' hk
        have hp : Req.pend { r with frame := MFrame.waitRoom, mustCancel := false } = 1 := by simp [Req.pend, hk, this.1]
        rw [hp, hw]; omega
      · have hk' : (r.kind == ReqKind.map) = false := by simpa using hk
        have hp : Req.pend { r with frame := MFrame.waitRoom, mustCancel := false } = 0 := by simp [Req.pend, hk']
        rw [hp, hw]; omega
    · intro r hr' _ hk _
      rw [hr] at hr'
      exact (hpre r hr' hk).1
  unfold waitRoom
  simp only
  split
  · refine MapMid.ok (m := m) (k := 0) ?_
    refine (tame_schedMeta _ m).mapFrame.mid ?_ (by simpa [modReq] using hlt)
    exact key _ rfl rfl
  · refine MapMid.ok (m := m) (k := 0) ?_
    exact key _ rfl rfl

theorem msigLe_waitMapSem (x : Req) (w : Waiter) (hw : w.st ≠ .granted) :
    MSigLe { x with frame := MFrame.waitMapSem, mustCancel := false, acquired := false, mapSem := { x.mapSem with waiters := x.mapSem.waiters ++ [w] } } x :=
  ⟨rfl, grantsL_append_notGranted _ _ hw, rfl, by simp [Req.pend], fun _ _ h => by cases h⟩

theorem tame_waitMapSem (p : Pool) (m) : Tame p (p.waitMapSem m) := by
  unfold waitMapSem
  simp only
  split
  · refine Tame.trans (tame_modReq p m _ ?_) (tame_schedMeta _ m)
    intro x; exact msigLe_waitMapSem x _ (by simp)
  · refine tame_modReq p m _ ?_
    intro x; exact msigLe_waitMapSem x _ (by simp)

theorem locked_false_pos (s : Sem) (v : Nat) (hv : s.value = .fin v) (h : s.locked = false) : 0 < v := by
  unfold Sem.locked at h
  simp only [Bool.or_eq_false_iff] at h
  rcases Nat.eq_zero_or_pos v with rfl | hp
  · rw [hv] at h; simp [Cap.isZero] at h
  · exact hp

/-- slot conservation just before a task is appended: one slot is already set aside for it -/
def SlotPre (cap : Cap) (p : Pool) : Prop :=
  match cap with
  | .fin n => ∃ v, p.sem.value = .fin v ∧ v + (heldL p.tasks + 1) + grantsL p.sem.waiters = n
  | .inf => p.sem.value = .inf ∧ p.sem.waiters = []

theorem flat_addToGroup_perm (gs : List (String × List Nat)) (g : String) (id : Nat) :
    (flat (addToGroup gs g id)).Perm (id :: flat gs) := by
  induction gs with
  | nil => simp [addToGroup, flat]
  | cons x xs ih =>
    obtain ⟨n, ids⟩ := x
    simp only [addToGroup]
    split
    · simp only [flat_cons, List.append_assoc, List.singleton_append]
      exact List.perm_middle
    · simp only [flat_cons]
      exact (List.Perm.append_left ids ih).trans List.perm_middle

theorem _root_.Taskpool.GroupsOK.create {p : Pool} (hr : GroupsOK p) (g : String) (q : Pool) (nt : PTask)
    (hq : q.groups = addToGroup p.groups g p.tasks.length) (ht : q.tasks = p.tasks ++ [nt]) : GroupsOK q := by
  have hp := flat_addToGroup_perm p.groups g p.tasks.length
  refine ⟨?_, ?_⟩
  · rw [hq, hp.nodup_iff, List.nodup_cons]
    exact ⟨fun h => Nat.lt_irrefl _ (hr.lt _ h), hr.nd⟩
  · intro i hi
    rw [hq] at hi
    have := hp.subset hi
    rw [ht, List.length_append, List.length_singleton]
    rcases List.mem_cons.mp this with rfl | h
    · exact Nat.lt_succ_self _
    · exact Nat.lt_succ_of_lt (hr.lt i h)

/-- appending a fresh task in phase `created` -/
theorem good0_createTask_afterTake {cap : Cap} {L R : Bool} (p : Pool) (m : Nat) (isMap : Bool)
    (hph : PhaseOK p) (hreg : RegOK p) (hgrp : GroupsOK p) (hlife : LifeOK p) (hpre : SlotPre cap p) (hst : Strict L R p)
    (hfl : FlushOK p) (hwk : WakeOK p) :
    Good0 cap L R (p.createTask m isMap) := by
  unfold createTask
  simp only
  refine ⟨?_, ?_, hreg.create _ rfl _ rfl rfl rfl rfl rfl, hgrp.create _ _ _ rfl rfl, ?_,
    hfl.frame rfl rfl (fun t ⟨tk, a, b⟩ => ⟨tk, by
      show (p.tasks ++ _)[t]? = some tk
      rw [List.getElem?_append_left (List.getElem?_eq_some_iff.mp a).1]; exact a, b⟩), hwk.of_eq rfl rfl, hst.rz, hst.ll, hst.al⟩
  rotate_left 2
  · intro i tk' h
    simp only [emitRef_tasks, modReq_tasks] at h
    rw [List.getElem?_append] at h
    split at h
    · exact hlife i tk' h
    · rename_i hge
      rcases Nat.lt_or_ge (i - p.tasks.length) 1 with hlt | hge1
      · have : i - p.tasks.length = 0 := by omega
        rw [this] at h; simp at h; subst h
        exact oks_new _ _ _ _ _ _ rfl
      · rw [List.getElem?_eq_none (by simpa using hge1)] at h; cases h
  · cases cap with
    | fin n =>
      obtain ⟨v, hv, hs⟩ := hpre
      refine ⟨v, by simpa using hv, ?_⟩
      simp only [emitRef_sem, emitRef_tasks, modReq_sem, modReq_tasks, heldL, List.countP_append] at *
      simp [newTask]; omega
    | inf => exact hpre
  · intro i tk' h hn
    simp only [emitRef_tasks, modReq_tasks] at h
    rw [List.getElem?_append] at h
    split at h
    · exact hph i tk' h hn
    · rename_i hge
      rcases Nat.lt_or_ge (i - p.tasks.length) 1 with hlt | hge1
      · have : i - p.tasks.length = 0 := by omega
        rw [this] at h; simp at h; subst h; rfl
      · rw [List.getElem?_eq_none (by simpa using hge1)] at h; cases h

/-- a fact about request `m` -/
def ReqAt (p : Pool) (m : Nat) (P : Req → Prop) : Prop := ∀ r, p.reqs[m]? = some r → P r

theorem ReqAt.modReq {p : Pool} {m : Nat} {P : Req → Prop} (h : ReqAt p m P) (f : Req → Req) (hf : ∀ x, P x → P (f x)) :
    ReqAt (p.modReq m f) m P := by
  intro r hr
  simp only [Pool.modReq] at hr
  obtain ⟨x, hx, rfl⟩ := getElem?_modify_some p.reqs m m f r hr
  simp only [if_true]
  exact hf x (h x hx)

theorem reqAt_modReq_new (p : Pool) (m : Nat) (P : Req → Prop) (f : Req → Req) (hf : ∀ x, P (f x)) :
    ReqAt (p.modReq m f) m P := by
  intro r hr
  simp only [Pool.modReq] at hr
  obtain ⟨x, hx, rfl⟩ := getElem?_modify_some p.reqs m m f r hr
  simp only [if_true]
  exact hf x

theorem reqAt_takeSlotAndCreate {p : Pool} {m : Nat} {P : Req → Prop} (h : ReqAt p m P) (isMap : Bool)
    (hf : ∀ x, P x → P { x with created := x.created + 1 }) : ReqAt (p.takeSlotAndCreate m isMap) m P := by
  intro r hr
  unfold takeSlotAndCreate createTask at hr
  simp only [emitRef, modReq] at hr
  obtain ⟨x, hx, rfl⟩ := getElem?_modify_some p.reqs m m _ r hr
  simp only [if_true]
  exact hf x (h x hx)

theorem reqsLen_takeSlotAndCreate (p : Pool) (m : Nat) (isMap : Bool) :
    (p.takeSlotAndCreate m isMap).reqs.length = p.reqs.length := by
  unfold takeSlotAndCreate createTask
  simp [emitRef, modReq]

theorem reqsLen_waitRoom (p : Pool) (m : Nat) : (p.waitRoom m).reqs.length = p.reqs.length := by
  unfold waitRoom
  simp only
  split <;> simp [modReq, schedMeta, emitRef]

/-- the map books when a task of request `m` is appended: a map task enters the slot that was in flight -/
theorem mapOK_createTask {p : Pool} {m : Nat} (isMap : Bool) (h : MapMid p m (if isMap then 1 else 0))
    (hlt : m < p.reqs.length) : MapOK (p.createTask m isMap) := by
  unfold createTask
  simp only
  refine Tame.map (Tame.trans (tame_modReq _ m _) (tame_emitRef _ _)) ?_
  refine MapMid.ok (m := m) (k := 0) ?_
  cases isMap with
  | true =>
    refine MapMid.addTask (p := p) (k := 0) h ?x ?hq hlt _ ?ht ?hr
    case ht => rfl
    case hr => rfl
    case hq => rfl
  | false =>
    refine MapMid.addPlainTask (p := p) h ?y ?hy _ ?ht2 ?hr2
    case ht2 => rfl
    case hr2 => rfl
    case hy => rfl

theorem good_takeSlotAndCreate {cap : Cap} {L R : Bool} (p : Pool) (m : Nat) (isMap : Bool) (hg : Good0 cap L R p)
    (hmap : MapMid p m (if isMap then 1 else 0)) (hlt : m < p.reqs.length)
    (hl : p.sem.locked = false) : Good cap L R (p.takeSlotAndCreate m isMap) := by
  unfold takeSlotAndCreate
  refine ⟨good0_createTask_afterTake _ m isMap (fun i tk h hn => hg.phase i tk h hn)
    (hg.reg.of_eq rfl rfl rfl rfl rfl) (hg.grp.of_eq rfl rfl) (hg.life.of_eq rfl rfl) ?_ (hg.strict.of_eq rfl rfl)
    (hg.fl.frame rfl rfl (fun _ h => h)) ?_,
    mapOK_createTask isMap (hmap.of_eq rfl rfl) hlt⟩
  rotate_left
  · -- not locked: every waiter still in the queue is cancelled
    intro _ v _ _ _ w hw hp
    unfold Sem.locked at hl
    simp only [Bool.or_eq_false_iff, List.any_eq_false] at hl
    have := hl.2 w hw
    simp [hp] at this
  cases cap with
  | fin n =>
    obtain ⟨v, hv, hs⟩ := hg.slot
    have hpos := locked_false_pos p.sem v hv hl
    exact ⟨v - 1, by simp [hv, Cap.dec], by simp only; omega⟩
  | inf =>
    obtain ⟨hv, hw⟩ := hg.slot
    show ({ p with sem := { p.sem with value := p.sem.value.dec } } : Pool).sem.value = .inf ∧ _
    simp [hv, hw, Cap.dec]

/-- `_apply_spawner`/`_start_num` from any position -/
theorem good_applyLoop {cap : Cap} {L R : Bool} (m n : Nat) (p : Pool) (hg : Good cap L R p)
    (hk : ReqAt p m (fun r => r.kind = .apply)) (hlt : m < p.reqs.length) : Good cap L R (applyLoop m n p) := by
  induction n generalizing p with
  | zero =>
    unfold applyLoop
    exact (Tame.trans (tame_modReq p m _) (tame_finishMeta _ m _)).good hg
  | succ n ih =>
    unfold applyLoop
    simp only
    have hg0 : Good cap L R (p.modReq m fun x => { x with remaining := n + 1 }) := (tame_modReq p m _).good hg
    have hk0 : ReqAt (p.modReq m fun x => { x with remaining := n + 1 }) m (fun r => r.kind = .apply) :=
      hk.modReq _ (fun _ h => h)
    have hlt0 : m < (p.modReq m fun x => { x with remaining := n + 1 }).reqs.length := by simpa [modReq] using hlt
    split
    · exact ih _ ((tame_modReq _ m _).good hg0) (hk0.modReq _ (fun _ h => h)) (by simpa [modReq] using hlt)
    · split
      · exact (tame_finishMeta _ m _).good hg0
      · split
        · exact (tame_finishMeta _ m _).good hg0
        · split
          · rename_i hl
            refine ⟨good0_waitRoom _ m hg0.toGood0 hl, mapOK_waitRoom (hg0.map.mid m) hlt0 ?_⟩
            intro r hr hkind
            rw [hk0 r hr] at hkind; cases hkind
          · rename_i hl
            refine ih _ (good_takeSlotAndCreate _ m false hg0.toGood0 (hg0.map.mid m) hlt0 (by simpa using hl))
              (reqAt_takeSlotAndCreate hk0 false (fun _ h => h)) ?_
            rw [reqsLen_takeSlotAndCreate]; exact hlt0

theorem good_mapStartTask {cap : Cap} {L R : Bool} (p : Pool) (m : Nat) (hg : Good0 cap L R p) (hmap : MapMid p m 1)
    (hlt : m < p.reqs.length) (hacq : ReqAt p m (fun r => r.acquired = true)) :
    Good cap L R (p.mapStartTask m).1 ∧ p.reqs.length ≤ (p.mapStartTask m).1.reqs.length := by
  unfold mapStartTask
  split
  · exact ⟨(tame_finishMeta p m _).good ⟨hg, hmap.ok⟩, (tame_finishMeta p m _).rql⟩
  · split
    · rename_i hl
      exact ⟨⟨good0_waitRoom p m hg hl, mapOK_waitRoom hmap hlt (fun r hr _ => ⟨hacq r hr, Nat.le_refl _⟩)⟩,
        by rw [reqsLen_waitRoom]; exact Nat.le_refl _⟩
    · rename_i hl
      exact ⟨good_takeSlotAndCreate p m true hg hmap hlt (by simpa using hl),
        by rw [reqsLen_takeSlotAndCreate]; exact Nat.le_refl _⟩

theorem tame_pullItem (p : Pool) (m rest) : Tame p (p.pullItem m rest) := by
  unfold pullItem
  simp only
  refine Tame.trans (Tame.trans (tame_modReq p m _ ?_) (tame_logEv _ _)) (tame_runHooks _ m _)
  intro x
  exact ⟨rfl, rfl, rfl, by simp [Req.pend], fun _ _ h => by cases h⟩

/-- taking a slot of the call's own semaphore on the fast path: one slot of `m` is in flight -/
theorem mapMid_takeMapSlot {p : Pool} {m : Nat} (h : MapOK p)
    (hl : (p.reqs[m]?.getD default).mapSem.locked = false) : MapMid (p.takeMapSlot m) m 1 := by
  unfold takeMapSlot
  refine (h.mid m).modReq _ 1 ?_ (fun _ => rfl) (fun _ _ _ _ hf => by cases hf)
  intro r v hr hv
  rw [hr] at hl
  have hpos := locked_false_pos r.mapSem v hv hl
  refine ⟨v - 1, by show (r.mapSem.value.dec) = _; rw [hv]; simp [Cap.dec], ?_⟩
  have hp : Req.pend { r with acquired := true, frame := MFrame.running, mapSem := { r.mapSem with value := r.mapSem.value.dec } } = 0 := by
    simp [Req.pend]
  have hw : ({ r with acquired := true, frame := MFrame.running, mapSem := { r.mapSem with value := r.mapSem.value.dec } } : Req).mapSem.waiters = r.mapSem.waiters := rfl
  rw [hp, hw]; omega

/-- `_arg_consumer` from any position, argument iterator (user code) included -/
theorem good_mapLoop {cap : Cap} {L R : Bool} (m : Nat) (items : List Item) (p : Pool) (hg : Good cap L R p)
    (hlt : m < p.reqs.length) : Good cap L R (mapLoop m items p) := by
  induction items generalizing p with
  | nil =>
    unfold mapLoop
    exact (Tame.trans (tame_modReq p m _) (tame_finishMeta _ m _)).good hg
  | cons it rest ih =>
    unfold mapLoop
    simp only
    have t0 := tame_pullItem p m rest
    have hg0 := t0.good hg
    have hlt0 : m < (p.pullItem m rest).reqs.length := Nat.lt_of_lt_of_le hlt t0.rql
    split
    · exact ih _ ((tame_modReq _ m _).good hg0) (by simpa [modReq] using hlt0)
    · split
      · exact (tame_waitMapSem _ m).good hg0
      · rename_i hl
        have hg1 : Good0 cap L R ((p.pullItem m rest).takeMapSlot m) := (tame0_modReq _ m _).good0 hg0.toGood0
        have hm1 := mapMid_takeMapSlot (m := m) hg0.map (by simpa using hl)
        have hlt1 : m < ((p.pullItem m rest).takeMapSlot m).reqs.length := by simpa [takeMapSlot, modReq] using hlt0
        have hacq : ReqAt ((p.pullItem m rest).takeMapSlot m) m (fun r => r.acquired = true) :=
          reqAt_modReq_new _ m _ _ (fun _ => rfl)
        obtain ⟨hg2, hle⟩ := good_mapStartTask _ m hg1 hm1 hlt1 hacq
        split
        · exact ih _ hg2 (Nat.lt_of_lt_of_le hlt1 hle)
        · exact hg2

theorem good_continueSpawner {cap : Cap} {L R : Bool} (p : Pool) (m : Nat) (hg : Good cap L R p) (hlt : m < p.reqs.length) :
    Good cap L R (p.continueSpawner m) := by
  unfold continueSpawner
  simp only
  split
  · rename_i hk
    refine good_applyLoop m _ p hg ?_ hlt
    intro r hr
    rw [hr] at hk; exact hk
  · exact good_mapLoop m _ p hg hlt

/-! ### waking up in `acquire()` -/

theorem removeWaiterL_grants (m : Nat) (ws : List Waiter) :
    grantsL (removeWaiterL m ws).2 + (if (removeWaiterL m ws).1 = some .granted then 1 else 0) = grantsL ws := by
  induction ws with
  | nil => simp [removeWaiterL, grantsL]
  | cons w ws ih =>
    unfold removeWaiterL
    split
    · simp [grantsL, List.countP_cons]
    · simp only [grantsL, List.countP_cons] at ih ⊢
      omega

/-- `value + grants` is unchanged by `_wake_up_next` when the counter is positive -/
theorem wakeNext_effect (p : Pool) (v : Nat) (hv : p.sem.value = .fin v) (hpos : 0 < v) :
    ∃ v', (({ p with sem := p.sem.wakeNext.1 } : Pool).schedOpt p.sem.wakeNext.2).sem.value = .fin v' ∧
      v' + grantsL (({ p with sem := p.sem.wakeNext.1 } : Pool).schedOpt p.sem.wakeNext.2).sem.waiters
        = v + grantsL p.sem.waiters ∧
      (({ p with sem := p.sem.wakeNext.1 } : Pool).schedOpt p.sem.wakeNext.2).tasks = p.tasks := by
  unfold Sem.wakeNext
  simp only [hv]
  generalize hr : wakeNextL (Cap.fin v) p.sem.waiters = r
  obtain ⟨c, ws', o⟩ := r
  obtain ⟨v', h1, h2⟩ := wakeNextL_sum v p.sem.waiters hpos c ws' o hr
  refine ⟨v', ?_, ?_, ?_⟩ <;> simp [h1, h2]

end Pool
end Taskpool
