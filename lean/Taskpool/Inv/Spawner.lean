import Taskpool.Inv.Acc
/-! Spawners (`_apply_spawner`, `_start_num`, `_arg_consumer`) preserve `Good`. -/
namespace Taskpool
namespace Pool

theorem tame_finishMeta (p : Pool) (m o) : Tame p (p.finishMeta m o) := by
  unfold finishMeta
  split
  · exact Tame.refl p
  · refine Tame.trans (tame_modReq p m _ ?_ ?_) (tame_emitChildren _ _)
    · intro x
      exact ⟨rfl, rfl, rfl, by simp [Req.pend], (fun _ _ h => by cases h), rfl, Or.inr rfl, (fun h => by cases h),
        (fun h => h), (fun _ => rfl), (fun h => by cases h)⟩
    · intro x
      exact ⟨rfl, rfl, rfl, Or.inr rfl, fun _ => Or.inr rfl, fun _ _ => Or.inr rfl⟩

theorem emitChildren_reqs (p : Pool) (cbs) : (p.emitChildren cbs).reqs = p.reqs := by
  unfold emitChildren
  induction cbs generalizing p with
  | nil => rfl
  | cons c cs ih => simp only [List.foldl_cons]; rw [ih]; rfl

/-- after `finishMeta` the spawner's frame is `done` -/
theorem finishMeta_frame (p : Pool) (m o) (r : Req) (h : (p.finishMeta m o).reqs[m]? = some r) : r.frame = .done := by
  unfold finishMeta at h
  split at h
  · rename_i hn; rw [hn] at h; cases h
  · rw [emitChildren_reqs] at h
    simp only [modReq] at h
    obtain ⟨x, hx, rfl⟩ := getElem?_modify_some p.reqs m m _ r h
    simp

/-- after `finishMeta` the request has an outcome -/
theorem finishMeta_outcome (p : Pool) (m o) (r : Req) (h : (p.finishMeta m o).reqs[m]? = some r) : r.outcome ≠ none := by
  unfold finishMeta at h
  split at h
  · rename_i hn; rw [hn] at h; cases h
  · rw [emitChildren_reqs] at h
    simp only [modReq] at h
    obtain ⟨x, hx, rfl⟩ := getElem?_modify_some p.reqs m m _ r h
    simp

theorem grantsL_append_notGranted (ws : List Waiter) (w : Waiter) (h : w.st ≠ .granted) :
    grantsL (ws ++ [w]) = grantsL ws := by
  simp [grantsL, List.countP_append, h]

/-- queueing behind a locked semaphore keeps the no-lost-wake-up invariant -/
theorem _root_.Taskpool.Sem.wakeInv_append (s : Sem) (w : Waiter) (h : s.WakeInv) (hl : s.locked = true)
    (hw : w.st ≠ .granted) : ({ s with waiters := s.waiters ++ [w] } : Sem).WakeInv := by
  intro v hv hpos hg x hx hp
  have hg' : grantsL s.waiters = 0 := by
    have := grantsL_append_notGranted s.waiters w hw
    simp only at hg; omega
  have hnp := h v hv hpos hg'
  have hv' : s.value = .fin v := hv
  unfold Sem.locked at hl
  have hz : s.value.isZero = false := by rw [hv']; cases v with | zero => omega | succ n => rfl
  simp only [hz, Bool.false_or, List.any_eq_true] at hl
  obtain ⟨y, hy, hyc⟩ := hl
  have hgr : y.st = .granted := by
    have := hnp y hy
    cases hs : y.st <;> simp_all
  have : 0 < grantsL s.waiters := by
    unfold grantsL
    rw [List.countP_pos_iff]
    exact ⟨y, hy, by simp [hgr]⟩
  omega

/-- taking a slot of a semaphore that is not locked: nobody is waiting -/
theorem _root_.Taskpool.Sem.wakeInv_dec (s : Sem) (hl : s.locked = false) :
    ({ s with value := s.value.dec } : Sem).WakeInv := by
  intro v _ _ _ x hx hp
  unfold Sem.locked at hl
  simp only [Bool.or_eq_false_iff, List.any_eq_false] at hl
  have := hl.2 x hx
  simp [hp] at this

/-- queueing behind the pool semaphore moves no slot (it only happens when the semaphore is locked, which an
unbounded semaphore without waiters never is) -/
theorem good0_waitRoom {cap : Cap} {L R : Bool} (p : Pool) (m) (hg : Good0 cap L R p) (hl : p.sem.locked = true) :
    Good0 cap L R (p.waitRoom m) := by
  have facts : (p.waitRoom m).sem.value = p.sem.value ∧ grantsL (p.waitRoom m).sem.waiters = grantsL p.sem.waiters ∧
      (p.waitRoom m).tasks = p.tasks ∧ (p.waitRoom m).running = p.running ∧ (p.waitRoom m).cancelledR = p.cancelledR ∧
      (p.waitRoom m).ended = p.ended ∧ (p.waitRoom m).lost = p.lost ∧ (p.waitRoom m).groups = p.groups ∧
      (p.waitRoom m).apis = p.apis ∧ (p.waitRoom m).gathers = p.gathers ∧ (p.waitRoom m).resized = p.resized := by
    unfold waitRoom
    simp only
    split <;> simp_all [grantsL, List.countP_append, schedMeta, emitRef, modReq]
  obtain ⟨f1, f2, f3, f4, f5, f6, f7, f8, f9, f10, f11⟩ := facts
  refine ⟨?_, fun i tk h hn => hg.phase i tk (by rw [← f3]; exact h) hn, hg.reg.of_eq f3 f4 f5 f6 f7,
    hg.grp.of_eq f8 (by rw [f3]), hg.life.of_eq f3 f7,
    hg.fl.frame f10 f9 (fun t ⟨tk, a, b⟩ => ⟨tk, by rw [f3]; exact a, b⟩), ?_,
    (hg.strict.of_eq f7 f9 f11).rz, (hg.strict.of_eq f7 f9 f11).ll, (hg.strict.of_eq f7 f9 f11).al⟩
  rotate_left
  · -- the semaphore was locked: with a free slot and nothing granted there would have been a pending waiter already
    intro hr v hv hpos hgr w hw hp
    have hsem : (p.waitRoom m).sem.value = p.sem.value ∧
        ∃ w0 : Waiter, (p.waitRoom m).sem.waiters = p.sem.waiters ++ [w0] ∧ w0.st ≠ .granted ∧ (p.waitRoom m).resized = p.resized := by
      unfold waitRoom
      simp only
      split
      · exact ⟨rfl, _, rfl, by simp, rfl⟩
      · exact ⟨rfl, _, rfl, by simp, rfl⟩
    obtain ⟨e1, w0, e2, hw0, e3⟩ := hsem
    rw [e1] at hv
    rw [e3] at hr
    have hgr0 : grantsL p.sem.waiters = 0 := by rw [← f2]; exact hgr
    have hnp := hg.wk hr v hv hpos hgr0
    -- locked with a positive counter: some waiter is not cancelled
    have : ∃ w1 ∈ p.sem.waiters, w1.st ≠ .cancelled := by
      unfold Sem.locked at hl
      simp only [hv, Cap.isZero, Bool.or_eq_true, List.any_eq_true] at hl
      rcases hl with h0 | ⟨w1, hm, hne⟩
      · have : v = 0 := by
          cases v with
          | zero => rfl
          | succ n => simp at h0
        omega
      · exact ⟨w1, hm, by simpa using hne⟩
    obtain ⟨w1, hm1, hne1⟩ := this
    have hnp1 := hnp w1 hm1
    have hng1 : w1.st ≠ .granted := by
      intro e
      have : 0 < grantsL p.sem.waiters := by
        unfold grantsL
        exact List.countP_pos_iff.mpr ⟨w1, hm1, by simp [e]⟩
      omega
    cases hst : w1.st <;> simp_all
  cases cap with
  | fin n =>
    obtain ⟨v, hv, hs⟩ := hg.slot
    exact ⟨v, by rw [f1]; exact hv, by rw [f2, f3]; exact hs⟩
  | inf =>
    obtain ⟨hv, hw⟩ := hg.slot
    simp [Sem.locked, hv, hw, Cap.isZero] at hl

/-- the spawner of request `m` starts waiting for room: the map slot it carries (a map request always carries one
here) is entered in the books as carried -/
theorem mapOK_waitRoom {p : Pool} {m : Nat} {k : Int} (h : MapMid p m k) (hlt : m < p.reqs.length)
    (hnw : ∀ r, p.reqs[m]? = some r → r.frame ≠ .waitRoom)
    (hpre : ∀ r, p.reqs[m]? = some r → (r.kind = .map → r.acquired = true ∧ k = 1) ∧ (r.kind ≠ .map → k = 0)) :
    MapOK (p.waitRoom m) := by
  have key : ∀ P : Pool, P.reqs = p.reqs → P.tasks = p.tasks →
      MapMid (P.modReq m fun x => { x with frame := MFrame.waitRoom, mustCancel := false }) m 0 := by
    intro P hr ht
    refine (h.of_eq hr ht).modReq _ 0 ?_ (fun _ => rfl) ?_
    · intro r v hr' hv
      rw [hr] at hr'
      have hw : ({ r with frame := MFrame.waitRoom, mustCancel := false } : Req).mapSem.waiters = r.mapSem.waiters := rfl
      have h0 : r.pend = 0 := Req.pend_zero (hnw r hr')
      by_cases hk : r.kind = .map
      · have := (hpre r hr').1 hk
        have hp : Req.pend { r with frame := MFrame.waitRoom, mustCancel := false } = 1 := by simp [Req.pend, hk, this.1]
        refine ⟨v, hv, ?_, fun ho => ⟨ho, ?_⟩⟩
        · rw [hp, hw]; omega
        · rw [hp, hw]; omega
      · have hk' : (r.kind == ReqKind.map) = false := by simpa using hk
        have hp : Req.pend { r with frame := MFrame.waitRoom, mustCancel := false } = 0 := by simp [Req.pend, hk']
        have := (hpre r hr').2 hk
        refine ⟨v, hv, ?_, fun ho => ⟨ho, ?_⟩⟩
        · rw [hp, hw]; omega
        · rw [hp, hw]; omega
    · intro r hr' _ hk _
      rw [hr] at hr'
      exact ((hpre r hr').1 hk).1
  unfold waitRoom
  simp only
  split
  · refine MapMid.ok (m := m) (k := 0) ?_
    refine (tame_schedMeta _ m).mapFrame.mid ?_ (by simpa [modReq] using hlt)
    exact key _ rfl rfl
  · refine MapMid.ok (m := m) (k := 0) ?_
    exact key _ rfl rfl

theorem locked_false_pos (s : Sem) (v : Nat) (hv : s.value = .fin v) (h : s.locked = false) : 0 < v := by
  unfold Sem.locked at h
  simp only [Bool.or_eq_false_iff] at h
  rcases Nat.eq_zero_or_pos v with rfl | hp
  · rw [hv] at h; simp [Cap.isZero] at h
  · exact hp

/-- slot conservation just before a task is appended: one slot is already set aside for it -/
def SlotPre (cap : Cap) (p : Pool) : Prop :=
  match cap with
  | .fin n => ∃ v, p.sem.value = .fin v ∧ v + (heldL p.tasks + 1) + grantsL p.sem.waiters = n
  | .inf => p.sem.value = .inf ∧ p.sem.waiters = []

theorem flat_addToGroup_perm (gs : List (String × List Nat)) (g : String) (id : Nat) :
    (flat (addToGroup gs g id)).Perm (id :: flat gs) := by
  induction gs with
  | nil => simp [addToGroup, flat]
  | cons x xs ih =>
    obtain ⟨n, ids⟩ := x
    simp only [addToGroup]
    split
    · simp only [flat_cons, List.append_assoc, List.singleton_append]
      exact List.perm_middle
    · simp only [flat_cons]
      exact (List.Perm.append_left ids ih).trans List.perm_middle

theorem _root_.Taskpool.GroupsOK.create {p : Pool} (hr : GroupsOK p) (g : String) (q : Pool) (nt : PTask)
    (hq : q.groups = addToGroup p.groups g p.tasks.length) (ht : q.tasks = p.tasks ++ [nt]) : GroupsOK q := by
  have hp := flat_addToGroup_perm p.groups g p.tasks.length
  refine ⟨?_, ?_⟩
  · rw [hq, hp.nodup_iff, List.nodup_cons]
    exact ⟨fun h => Nat.lt_irrefl _ (hr.lt _ h), hr.nd⟩
  · intro i hi
    rw [hq] at hi
    have := hp.subset hi
    rw [ht, List.length_append, List.length_singleton]
    rcases List.mem_cons.mp this with rfl | h
    · exact Nat.lt_succ_self _
    · exact Nat.lt_succ_of_lt (hr.lt i h)

/-- appending a fresh task in phase `created` -/
theorem good0_createTask_afterTake {cap : Cap} {L R : Bool} (p : Pool) (m : Nat) (isMap : Bool)
    (hph : PhaseOK p) (hreg : RegOK p) (hgrp : GroupsOK p) (hlife : LifeOK p) (hpre : SlotPre cap p) (hst : Strict L R p)
    (hfl : FlushOK p) (hwk : WakeOK p) :
    Good0 cap L R (p.createTask m isMap) := by
  unfold createTask
  simp only
  refine ⟨?_, ?_, hreg.create _ rfl _ rfl rfl rfl rfl rfl, hgrp.create _ _ _ rfl rfl, ?_,
    hfl.frame rfl rfl (fun t ⟨tk, a, b⟩ => ⟨tk, by
      show (p.tasks ++ _)[t]? = some tk
      rw [List.getElem?_append_left (List.getElem?_eq_some_iff.mp a).1]; exact a, b⟩), hwk.of_eq rfl rfl, hst.rz, hst.ll, hst.al⟩
  rotate_left 2
  · intro i tk' h
    simp only [emitRef_tasks, modReq_tasks] at h
    rw [List.getElem?_append] at h
    split at h
    · exact hlife i tk' h
    · rename_i hge
      rcases Nat.lt_or_ge (i - p.tasks.length) 1 with hlt | hge1
      · have : i - p.tasks.length = 0 := by omega
        rw [this] at h; simp at h; subst h
        exact oks_new _ _ _ _ _ _ rfl
      · rw [List.getElem?_eq_none (by simpa using hge1)] at h; cases h
  · cases cap with
    | fin n =>
      obtain ⟨v, hv, hs⟩ := hpre
      refine ⟨v, by simpa using hv, ?_⟩
      simp only [emitRef_sem, emitRef_tasks, modReq_sem, modReq_tasks, heldL, List.countP_append] at *
      simp [newTask]; omega
    | inf => exact hpre
  · intro i tk' h hn
    simp only [emitRef_tasks, modReq_tasks] at h
    rw [List.getElem?_append] at h
    split at h
    · exact hph i tk' h hn
    · rename_i hge
      rcases Nat.lt_or_ge (i - p.tasks.length) 1 with hlt | hge1
      · have : i - p.tasks.length = 0 := by omega
        rw [this] at h; simp at h; subst h; rfl
      · rw [List.getElem?_eq_none (by simpa using hge1)] at h; cases h

/-- a fact about request `m` -/
def ReqAt (p : Pool) (m : Nat) (P : Req → Prop) : Prop := ∀ r, p.reqs[m]? = some r → P r

theorem ReqAt.modReq {p : Pool} {m : Nat} {P : Req → Prop} (h : ReqAt p m P) (f : Req → Req) (hf : ∀ x, P x → P (f x)) :
    ReqAt (p.modReq m f) m P := by
  intro r hr
  simp only [Pool.modReq] at hr
  obtain ⟨x, hx, rfl⟩ := getElem?_modify_some p.reqs m m f r hr
  simp only [if_true]
  exact hf x (h x hx)

theorem reqAt_modReq_new (p : Pool) (m : Nat) (P : Req → Prop) (f : Req → Req) (hf : ∀ x, P (f x)) :
    ReqAt (p.modReq m f) m P := by
  intro r hr
  simp only [Pool.modReq] at hr
  obtain ⟨x, hx, rfl⟩ := getElem?_modify_some p.reqs m m f r hr
  simp only [if_true]
  exact hf x

theorem reqAt_takeSlotAndCreate {p : Pool} {m : Nat} {P : Req → Prop} (h : ReqAt p m P) (isMap : Bool)
    (hf : ∀ x, P x → P { x with created := x.created + 1 }) : ReqAt (p.takeSlotAndCreate m isMap) m P := by
  intro r hr
  unfold takeSlotAndCreate createTask at hr
  simp only [emitRef, modReq] at hr
  obtain ⟨x, hx, rfl⟩ := getElem?_modify_some p.reqs m m _ r hr
  simp only [if_true]
  exact hf x (h x hx)

/-- the running spawner has no cancellation snapshot -/
abbrev SnapNone (p : Pool) (m : Nat) : Prop := ReqAt p m (fun r => r.cancelSnap = none)

theorem SnapNone.hcm {p : Pool} {m : Nat} (h : SnapNone p m) :
    ∀ r c u, p.reqs[m]? = some r → r.cancelSnap = some (c, u) → r.frame = .done ∨ DoomedAt p m r :=
  fun r c u hr hs => by rw [h r hr] at hs; cases hs

/-- a task of request `m` is created: its `created` counter moves, which a cancelled spawner's must not -/
theorem cancEx_createTask {p : Pool} {m : Nat} (isMap : Bool) (h : CancEx (· = m) p) (hsn : SnapNone p m) :
    CancEx (· = m) (p.createTask m isMap) := by
  unfold createTask
  simp only
  refine CancEx.of_eq (p := (({ p with tasks := _, groups := _, running := _ } : Pool).modReq m fun x => { x with created := x.created + 1 })) ?_ rfl rfl
  refine CancEx.modReqSelf (p := ({ p with tasks := _, groups := _, running := _ } : Pool)) (h.of_eq rfl rfl) _ ?_
  intro r hr
  exact ⟨rfl, Or.inr (hsn r hr)⟩

/-- the spawner of `m` queues behind the pool semaphore: nobody else's waiter entry changes -/
theorem cancOK_waitRoom {p : Pool} {m : Nat} (h : CancEx (· = m) p) (hsn : SnapNone p m) : CancOK (p.waitRoom m) := by
  have key : ∀ w : Waiter, CancEx (· = m) ((({ p with sem := { p.sem with waiters := p.sem.waiters ++ [w] } } : Pool).modReq m
      fun x => { x with frame := MFrame.waitRoom, mustCancel := false })) ∧
      SnapNone ((({ p with sem := { p.sem with waiters := p.sem.waiters ++ [w] } } : Pool).modReq m
      fun x => { x with frame := MFrame.waitRoom, mustCancel := false })) m := by
    intro w
    refine ⟨CancEx.modReqSelf (p := ({ p with sem := { p.sem with waiters := p.sem.waiters ++ [w] } } : Pool)) ?_ _
      (fun r _ => ⟨rfl, Or.inl ⟨rfl, rfl⟩⟩), ReqAt.modReq (p := ({ p with sem := { p.sem with waiters := p.sem.waiters ++ [w] } } : Pool)) hsn _ (fun _ hx => hx)⟩
    exact h.frame (fun i x => ownCancelled_append i _ w x) (fun _ r' a => Or.inl ⟨r', a, CSame.refl r'⟩)
  unfold waitRoom
  simp only
  split
  · obtain ⟨k1, k2⟩ := key { owner := m, st := WaitSt.cancelled }
    refine CancEx.close ((tame_schedMeta _ m).cok _ (by simpa using k1)) ?_
    intro r c u hr hs
    exfalso
    simp only [schedMeta, emitRef, modReq] at hr
    obtain ⟨x, hx, rfl⟩ := getElem?_modify_some _ m m _ r hr
    simp only [if_true] at hs
    have := k2 x (by simpa [modReq] using hx)
    rw [this] at hs; cases hs
  · obtain ⟨k1, k2⟩ := key { owner := m, st := WaitSt.pending }
    exact CancEx.close (by simpa using k1) (by simpa using k2.hcm)

theorem reqsLen_takeSlotAndCreate (p : Pool) (m : Nat) (isMap : Bool) :
    (p.takeSlotAndCreate m isMap).reqs.length = p.reqs.length := by
  unfold takeSlotAndCreate createTask
  simp [emitRef, modReq]

theorem reqsLen_waitRoom (p : Pool) (m : Nat) : (p.waitRoom m).reqs.length = p.reqs.length := by
  unfold waitRoom
  simp only
  split <;> simp [modReq, schedMeta, emitRef]

/-- the map books when a task of request `m` is appended: a map task enters the slot that was in flight -/
theorem mapOK_createTask {p : Pool} {m : Nat} (isMap : Bool) (h : MapMid p m (if isMap then 1 else 0))
    (hlt : m < p.reqs.length) : MapOK (p.createTask m isMap) := by
  unfold createTask
  simp only
  refine MapMid.ok (m := m) (k := 0) ?_
  refine MapMid.emitRef ?_ _
  refine MapMid.modReq_same ?_ _ (fun r => ⟨rfl, rfl, rfl, fun h => h, fun h => h⟩)
  cases isMap with
  | true =>
    refine MapMid.addTask (p := p) (k := 0) h ?x ?hq ?hh hlt _ ?ht ?hr
    case ht => rfl
    case hr => rfl
    case hq => rfl
    case hh => rfl
  | false =>
    refine MapMid.addPlainTask (p := p) h ?y ?hy _ ?ht2 ?hr2
    case ht2 => rfl
    case hr2 => rfl
    case hy => rfl

theorem reqsLen_createTask' (p : Pool) (m : Nat) (isMap : Bool) : (p.createTask m isMap).reqs.length = p.reqs.length := by
  unfold createTask
  simp [emitRef, modReq]

theorem frame_createTask (p : Pool) (m : Nat) (isMap : Bool) (i : Nat) (r' : Req)
    (h : (p.createTask m isMap).reqs[i]? = some r') : ∃ r, p.reqs[i]? = some r ∧ r'.frame = r.frame := by
  unfold createTask at h
  simp only [emitRef, modReq] at h
  obtain ⟨x, hx, rfl⟩ := getElem?_modify_some _ m i _ r' h
  exact ⟨x, hx, by split <;> rfl⟩

/-- the accounting when a task of request `m` is appended -/
theorem accAt_createTask {p : Pool} {m : Nat} {P P' : Cnt → MFrame → Prop} (isMap : Bool) (h : AccAt p m P)
    (hlt : m < p.reqs.length)
    (hf : ∀ r, p.reqs[m]? = some r → P r.cnt r.frame →
        P' ({ r with created := r.created + 1 } : Req).cnt ({ r with created := r.created + 1 } : Req).frame) :
    AccAt (p.createTask m isMap) m P' := by
  unfold createTask
  simp only
  refine AccAt.emitRef ?_ _
  refine AccAt.addTask (p := p) h ?x ?hq hlt (fun r => { r with created := r.created + 1 }) (fun _ => rfl) hf _ ?ht ?hr
  case ht => rfl
  case hr => rfl
  case hq => rfl

/-- the spawner of `m` takes a pool slot on the fast path and creates the task: a map slot in flight goes to it -/
theorem spSt_takeSlotAndCreate {cap : Cap} {L R : Bool} {P P' : Cnt → MFrame → Prop} (p : Pool) (m : Nat) (isMap : Bool)
    (h : SpSt cap L R p m (if isMap then 1 else 0) P) (hl : p.sem.locked = false)
    (hf : ∀ r, p.reqs[m]? = some r → P r.cnt r.frame →
        P' ({ r with created := r.created + 1 } : Req).cnt ({ r with created := r.created + 1 } : Req).frame)
    (hsn : SnapNone p m) :
    SpSt cap L R (p.takeSlotAndCreate m isMap) m 0 P' := by
  have hg := h.g0
  unfold takeSlotAndCreate
  refine ⟨good0_createTask_afterTake _ m isMap (fun i tk h hn => hg.phase i tk h hn)
    (hg.reg.of_eq rfl rfl rfl rfl rfl) (hg.grp.of_eq rfl rfl) (hg.life.of_eq rfl rfl) ?_ (hg.strict.of_eq rfl rfl)
    (hg.fl.frame rfl rfl (fun _ h => h)) ?_,
    (mapOK_createTask (p := ({ p with sem := { p.sem with value := p.sem.value.dec } } : Pool)) isMap (h.mp.of_eq rfl rfl) h.lt).mid m,
    accAt_createTask (p := ({ p with sem := { p.sem with value := p.sem.value.dec } } : Pool)) isMap (h.ac.of_eq rfl rfl) h.lt hf, by rw [reqsLen_createTask']; exact h.lt,
    fun r' hr' => by
      obtain ⟨r, a, b⟩ := frame_createTask _ m isMap m r' hr'
      rw [b]; exact h.nw r a,
    cancEx_createTask (p := ({ p with sem := { p.sem with value := p.sem.value.dec } } : Pool)) isMap (h.cn.of_eq rfl rfl) hsn⟩
  · cases cap with
    | fin n =>
      obtain ⟨v, hv, hs⟩ := hg.slot
      have hpos := locked_false_pos p.sem v hv hl
      exact ⟨v - 1, by simp [hv, Cap.dec], by simp only; omega⟩
    | inf =>
      obtain ⟨hv, hw⟩ := hg.slot
      show ({ p with sem := { p.sem with value := p.sem.value.dec } } : Pool).sem.value = .inf ∧ _
      simp [hv, hw, Cap.dec]
  · -- not locked: every waiter still in the queue is cancelled
    intro _ v _ _ _ w hw hp
    unfold Sem.locked at hl
    simp only [Bool.or_eq_false_iff, List.any_eq_false] at hl
    have := hl.2 w hw
    simp [hp] at this

/-- the spawner ends: whatever slot it still carries goes with it (the request has an outcome from here on) -/
theorem mapOK_finishMeta {p : Pool} {m : Nat} {k : Int} (o : Outcome) (h : MapMid p m k) (hlt : m < p.reqs.length)
    (hk : 0 ≤ k) : MapOK (p.finishMeta m o) := by
  have h1 := (tame_finishMeta p m o).mapFrame.mid h hlt
  refine ⟨h1.ref, fun m' r hr => ?_, h1.wk, h1.acq⟩
  obtain ⟨v, hv, hs, hs2⟩ := h1.le m' r hr
  refine ⟨v, hv, by split at hs <;> omega, fun hnd => ?_⟩
  have := hs2 hnd
  split at this
  · rename_i e; subst e
    exact absurd hnd (finishMeta_outcome p m' o r hr)
  · omega

/-- the spawner ends -/
theorem good_finishMetaSp {cap : Cap} {L R : Bool} {P : Cnt → MFrame → Prop} {k : Int} (p : Pool) (m : Nat) (o : Outcome)
    (h : SpSt cap L R p m k P) (hk : 0 ≤ k) (hP : ∀ c fr, P c fr → AccReq c .done 0) :
    Good cap L R (p.finishMeta m o) :=
  ⟨(tame_finishMeta p m o).toTame0.good0 h.g0, mapOK_finishMeta o h.mp h.lt hk,
    accOK_finishMeta o h.ac hP,
    CancEx.close ((tame_finishMeta p m o).cok _ h.cn) (fun r _ _ hr _ => Or.inl (finishMeta_frame p m o r hr))⟩

/-- the spawner starts waiting for room in the pool -/
theorem good_waitRoomSp {cap : Cap} {L R : Bool} {P : Cnt → MFrame → Prop} {k : Int} (p : Pool) (m : Nat)
    (h : SpSt cap L R p m k P) (hl : p.sem.locked = true)
    (hpre : ∀ r, p.reqs[m]? = some r → (r.kind = .map → r.acquired = true ∧ k = 1) ∧ (r.kind ≠ .map → k = 0))
    (hP : ∀ c fr, P c fr → AccReq c .waitRoom 0) (hsn : SnapNone p m) : Good cap L R (p.waitRoom m) := by
  refine ⟨good0_waitRoom p m h.g0 hl, mapOK_waitRoom h.mp h.lt h.nw hpre, ?_, cancOK_waitRoom h.cn hsn⟩
  have key : ∀ Q : Pool, Q.reqs = p.reqs → Q.tasks = p.tasks →
      AccAt (Q.modReq m fun x => { x with frame := MFrame.waitRoom, mustCancel := false }) m (fun c fr => AccReq c fr 0) := by
    intro Q hr ht
    refine (h.ac.of_eq hr ht).modReq _ (fun _ => rfl) ?_
    intro r _ hp
    exact hP _ _ hp
  unfold waitRoom
  simp only
  split
  · refine (tame_schedMeta _ m).acc ?_
    refine AccAt.ok (m := m) ?_ (fun _ _ x => x)
    exact key _ rfl rfl
  · refine AccAt.ok (m := m) ?_ (fun _ _ x => x)
    exact key _ rfl rfl

/-- the consumer starts waiting for a slot of its own semaphore, the pulled element in hand -/
theorem good_waitMapSemSp {cap : Cap} {L R : Bool} {P : Cnt → MFrame → Prop} (p : Pool) (m : Nat)
    (h : SpSt cap L R p m 0 P) (hP : ∀ c fr, P c fr → AccReq c .waitMapSem 0)
    (hl : (p.reqs[m]?.getD default).mapSem.locked = true) (hsn : SnapNone p m) : Good cap L R (p.waitMapSem m) := by
  have key : ∀ w : Waiter, w.st ≠ .granted →
      SpSt cap L R (p.modReq m fun x => { x with frame := MFrame.waitMapSem, mustCancel := false, acquired := false, mapSem := { x.mapSem with waiters := x.mapSem.waiters ++ [w] } }) m 0
        (fun c fr => AccReq c fr 0) := by
    intro w hw
    refine h.modReq _ 0 _ ?_ (fun _ => rfl) (fun _ _ _ _ hf => by cases hf) (fun _ => rfl) (fun r _ hp => hP _ _ hp)
      (fun _ _ hf => by cases hf) (fun r hr hwk => by rw [hr] at hl; exact Sem.wakeInv_append r.mapSem w hwk hl hw)
    intro r v hr hv
    have h0 : r.pend = 0 := Req.pend_zero (h.nw r hr)
    refine ⟨v, hv, ?_, fun ho => ⟨ho, ?_⟩⟩
    all_goals
    have hp : Req.pend { r with frame := MFrame.waitMapSem, mustCancel := false, acquired := false, mapSem := { r.mapSem with waiters := r.mapSem.waiters ++ [w] } } = 0 := by
      simp [Req.pend]
    have hgw : grantsL ({ r with frame := MFrame.waitMapSem, mustCancel := false, acquired := false, mapSem := { r.mapSem with waiters := r.mapSem.waiters ++ [w] } } : Req).mapSem.waiters = grantsL r.mapSem.waiters :=
      grantsL_append_notGranted _ _ hw
    rw [hp, hgw]; omega
  unfold waitMapSem
  simp only
  split
  · exact (tame_schedMeta _ m).good ((key _ (by simp)).good rfl (fun _ _ x => x) (SnapNone.hcm (ReqAt.modReq hsn _ (fun _ hx => hx))))
  · exact (key _ (by simp)).good rfl (fun _ _ x => x) (SnapNone.hcm (ReqAt.modReq hsn _ (fun _ hx => hx)))

/-- `_apply_spawner`/`_start_num` from any position: `n` invocations still to start -/
theorem good_applyLoop {cap : Cap} {L R : Bool} (m n : Nat) (p : Pool) (h : SpSt cap L R p m 0 (PA n))
    (hsn : SnapNone p m) : Good cap L R (applyLoop m n p) := by
  induction n generalizing p with
  | zero =>
    unfold applyLoop
    refine good_finishMetaSp _ m _ (h.modReq' _ (PAf 0) (fun _ => ⟨rfl, rfl, Or.inl rfl, fun h => h⟩) (fun _ _ x => x) (fun _ => rfl) ?_)
      (Int.le_refl 0) (fun c fr x => PAf.acc x (fun e => by cases e))
    intro r _ hp
    exact ⟨hp.1, hp.2, rfl⟩
  | succ n ih =>
    unfold applyLoop
    simp only
    have h0 : SpSt cap L R (p.modReq m fun x => { x with remaining := n + 1 }) m 0 (PAf (n + 1)) :=
      h.modReq' _ (PAf (n + 1)) (fun _ => ⟨rfl, rfl, Or.inl rfl, fun h => h⟩) (fun _ _ x => x) (fun _ => rfl)
        (fun r _ hp => ⟨hp.1, hp.2, rfl⟩)
    have hkind : ∀ r, (p.modReq m fun x => { x with remaining := n + 1 }).reqs[m]? = some r → r.kind = .apply :=
      fun r hr => (h0.ac.here r hr).1
    have hsn0 : SnapNone (p.modReq m fun x => { x with remaining := n + 1 }) m := ReqAt.modReq hsn _ (fun _ hx => hx)
    split
    · refine ih _ (h0.modReq' _ (PA n) (fun _ => ⟨rfl, rfl, Or.inl rfl, fun h => h⟩) (fun _ _ x => x) (fun _ => rfl) ?_)
        (ReqAt.modReq hsn0 _ (fun _ hx => hx))
      intro r _ hp
      obtain ⟨a, b, _⟩ := hp
      exact ⟨a, by show r.created + (r.skipped + 1) + n = r.n0; have : r.created + r.skipped + (n + 1) = r.n0 := b; omega⟩
    · split
      · exact good_finishMetaSp _ m _ h0 (Int.le_refl 0) (fun c fr x => PAf.acc x (fun e => by cases e))
      · split
        · exact good_finishMetaSp _ m _ h0 (Int.le_refl 0) (fun c fr x => PAf.acc x (fun e => by cases e))
        · split
          · rename_i hl
            refine good_waitRoomSp _ m h0 hl ?_ (fun c fr x => PAf.acc x (fun _ => by omega)) hsn0
            intro r hr
            refine ⟨fun hk => ?_, fun _ => rfl⟩
            rw [hkind r hr] at hk; cases hk
          · rename_i hl
            refine ih _ (spSt_takeSlotAndCreate _ m false h0 (by simpa using hl) ?_ hsn0)
              (reqAt_takeSlotAndCreate hsn0 false (fun _ hx => hx))
            intro r _ hp
            obtain ⟨a, b, _⟩ := hp
            exact ⟨a, by show r.created + 1 + r.skipped + n = r.n0; have : r.created + r.skipped + (n + 1) = r.n0 := b; omega⟩

/-- `_start_task` for a map element whose map slot is in flight; one element is in hand -/
theorem good_mapStartTask {cap : Cap} {L R : Bool} (p : Pool) (m : Nat) (l : Nat) (h : SpSt cap L R p m 1 (PM l 1))
    (hacq : ReqAt p m (fun r => r.acquired = true)) (hsn : SnapNone p m) :
    (p.mapStartTask m).2 = false → Good cap L R (p.mapStartTask m).1 := by
  unfold mapStartTask
  split
  · intro _
    exact good_finishMetaSp p m _ h (by omega) (fun c fr x => PM.acc1 x (by simp))
  · split
    · rename_i hl
      intro _
      refine good_waitRoomSp p m h hl (fun r hr => ⟨fun _ => ⟨hacq r hr, rfl⟩, fun hk => ?_⟩) (fun c fr x => PM.acc1 x (by simp)) hsn
      exact absurd (h.ac.here r hr).1 hk
    · intro hb; cases hb

theorem spSt_mapStartTask {cap : Cap} {L R : Bool} (p : Pool) (m : Nat) (l : Nat) (h : SpSt cap L R p m 1 (PM l 1))
    (hsn : SnapNone p m) :
    (p.mapStartTask m).2 = true → SpSt cap L R (p.mapStartTask m).1 m 0 (PM l 0) ∧ SnapNone (p.mapStartTask m).1 m := by
  unfold mapStartTask
  split
  · intro hb; cases hb
  · split
    · intro hb; cases hb
    · rename_i hl
      intro _
      refine ⟨spSt_takeSlotAndCreate p m true h (by simpa using hl) ?_ hsn, reqAt_takeSlotAndCreate hsn true (fun _ hx => hx)⟩
      intro r _ hp
      obtain ⟨a, b, c, d⟩ := hp
      exact ⟨a, b, by show r.pulled = r.created + 1 + r.skipped + 0; have : r.pulled = r.created + r.skipped + 1 := c; omega, d⟩

/-- one pull from the argument iterator (user code included): one more element is in hand -/
theorem _root_.Taskpool.Tame.snapRunning {p q : Pool} (t : Tame p q) {m : Nat} (hlt : m < p.reqs.length)
    (h : ReqAt p m (fun r => r.cancelSnap = none ∧ (r.frame = .running ∨ r.frame = .done))) :
    ReqAt q m (fun r => r.cancelSnap = none ∧ (r.frame = .running ∨ r.frame = .done)) := by
  intro r' hr'
  rcases t.rq m r' hr' with ⟨r, a, b⟩ | ⟨hge, _⟩
  · obtain ⟨h1, h2⟩ := h r a
    refine ⟨(b.sr h2).trans h1, ?_⟩
    rcases b.fr with e | e
    · rw [e]; exact h2
    · exact Or.inr e
  · omega

theorem spSt_pullItem {cap : Cap} {L R : Bool} (p : Pool) (m : Nat) (rest : List Item)
    (h : SpSt cap L R p m 0 (PM (rest.length + 1) 0)) (hsn : SnapNone p m) :
    SpSt cap L R (p.pullItem m rest) m 0 (PM rest.length 1) ∧ SnapNone (p.pullItem m rest) m := by
  unfold pullItem
  simp only
  have h1 : SpSt cap L R (p.modReq m fun x => { x with items := rest, pulled := x.pulled + 1, acquired := false, frame := MFrame.running }) m 0
      (PM rest.length 1) := by
    refine h.modReq' _ _ (fun r => ⟨rfl, rfl, Or.inr rfl, fun h => h⟩) (fun _ _ _ _ hf => by cases hf) (fun _ => rfl) ?_
      (fun r hr => ⟨rfl, Or.inr (hsn r hr)⟩)
    intro r _ hp
    obtain ⟨a, b, c, d⟩ := hp
    have b' : r.pulled + r.items.length = r.n0 := b
    have c' : r.pulled = r.created + r.skipped + 0 := c
    have d' : r.items.length = rest.length + 1 := d
    exact ⟨a, by show r.pulled + 1 + rest.length = r.n0; omega, by show r.pulled + 1 = r.created + r.skipped + 1; omega, rfl⟩
  have hs1 : ReqAt (p.modReq m fun x => { x with items := rest, pulled := x.pulled + 1, acquired := false, frame := MFrame.running }) m
      (fun r => r.cancelSnap = none ∧ (r.frame = .running ∨ r.frame = .done)) := by
    intro r hr
    simp only [modReq] at hr
    obtain ⟨x, hx, rfl⟩ := getElem?_modify_some p.reqs m m _ r hr
    exact ⟨by simpa using hsn x hx, by simp⟩
  have h2 := h1.tame (tame_logEv _ (.pull m (p.reqs[m]?.getD default).pulled)) (PM.ff _ _)
  have hs2 := (tame_logEv _ (.pull m (p.reqs[m]?.getD default).pulled)).snapRunning h1.lt hs1
  exact ⟨h2.tame (tame_runHooks _ m _) (PM.ff _ _), fun r hr => ((tame_runHooks _ m _).snapRunning h2.lt hs2 r hr).1⟩

/-- taking a slot of the call's own semaphore on the fast path: one slot of `m` is in flight -/
theorem spSt_takeMapSlot {cap : Cap} {L R : Bool} {P : Cnt → MFrame → Prop} (p : Pool) (m : Nat)
    (h : SpSt cap L R p m 0 P) (hP : FrameFree P) (hl : (p.reqs[m]?.getD default).mapSem.locked = false)
    (hsn : SnapNone p m) :
    SpSt cap L R (p.takeMapSlot m) m 1 P ∧ ReqAt (p.takeMapSlot m) m (fun r => r.acquired = true) ∧
      SnapNone (p.takeMapSlot m) m := by
  unfold takeMapSlot
  refine ⟨h.modReq _ 1 P ?_ (fun _ => rfl) (fun _ _ _ _ hf => by cases hf) (fun _ => rfl) (fun r _ hp => hP _ _ _ hp)
      (fun _ _ hf => by cases hf) (fun r hr _ => by rw [hr] at hl; exact Sem.wakeInv_dec r.mapSem hl),
    reqAt_modReq_new _ m _ _ (fun _ => rfl), ReqAt.modReq hsn _ (fun _ hx => hx)⟩
  intro r v hr hv
  have h0 : r.pend = 0 := Req.pend_zero (h.nw r hr)
  rw [hr] at hl
  have hpos := locked_false_pos r.mapSem v hv hl
  refine ⟨v - 1, by show (r.mapSem.value.dec) = _; rw [hv]; simp [Cap.dec], ?_, fun ho => ⟨ho, ?_⟩⟩
  all_goals
  have hp : Req.pend { r with acquired := true, frame := MFrame.running, mapSem := { r.mapSem with value := r.mapSem.value.dec } } = 0 := by
    simp [Req.pend]
  have hw : ({ r with acquired := true, frame := MFrame.running, mapSem := { r.mapSem with value := r.mapSem.value.dec } } : Req).mapSem.waiters = r.mapSem.waiters := rfl
  rw [hp, hw]; omega

/-- `_arg_consumer` from any position, argument iterator (user code) included -/
theorem good_mapLoop {cap : Cap} {L R : Bool} (m : Nat) (items : List Item) (p : Pool)
    (h : SpSt cap L R p m 0 (PM items.length 0)) (hsn : SnapNone p m) : Good cap L R (mapLoop m items p) := by
  induction items generalizing p with
  | nil =>
    unfold mapLoop
    refine good_finishMetaSp _ m _ (h.modReq' _ (PM 0 0) (fun _ => ⟨rfl, rfl, Or.inl rfl, fun h => h⟩) (fun _ _ x => x) (fun _ => rfl) ?_)
      (Int.le_refl 0) (fun c fr x => PM.acc0 x (by simp))
    intro r _ hp
    obtain ⟨a, b, c, d⟩ := hp
    have d' : r.items.length = 0 := d
    exact ⟨a, by show r.pulled + 0 = r.n0; have : r.pulled + r.items.length = r.n0 := b; omega, c, rfl⟩
  | cons it rest ih =>
    unfold mapLoop
    simp only
    obtain ⟨h0, hsn0⟩ := spSt_pullItem p m rest h hsn
    split
    · exact good_finishMetaSp _ m _ h0 (Int.le_refl 0) (fun c fr x => PM.acc1 x (by simp))
    split
    · refine ih _ (h0.modReq' _ (PM rest.length 0) (fun _ => ⟨rfl, rfl, Or.inl rfl, fun h => h⟩) (fun _ _ x => x) (fun _ => rfl) ?_)
        (ReqAt.modReq hsn0 _ (fun _ hx => hx))
      intro r _ hp
      obtain ⟨a, b, c, d⟩ := hp
      exact ⟨a, b, by show r.pulled = r.created + (r.skipped + 1) + 0; have : r.pulled = r.created + r.skipped + 1 := c; omega, d⟩
    · split
      · rename_i hl
        exact good_waitMapSemSp _ m h0 (fun c fr x => PM.acc1 x (by simp)) (by simpa using hl) hsn0
      · rename_i hl
        obtain ⟨h1, hacq, hsn1⟩ := spSt_takeMapSlot _ m h0 (PM.ff _ _) (by simpa using hl) hsn0
        split
        · rename_i hb
          obtain ⟨h2, hsn2⟩ := spSt_mapStartTask _ m rest.length h1 hsn1 hb
          exact ih _ h2 hsn2
        · rename_i hb
          exact good_mapStartTask _ m rest.length h1 hacq hsn1 (by simpa using hb)

/-- what `continueSpawner` needs after a task was created in `_start_task`: apply — one invocation less than the
(stale) `remaining` field says; map — nothing in hand -/
def PC : Cnt → MFrame → Prop := fun c fr =>
  (c.kind = .apply → c.created + c.skipped + (c.remaining - 1) = c.n0) ∧ (c.kind = .map → PM c.left 0 c fr)

theorem good_continueSpawner {cap : Cap} {L R : Bool} (p : Pool) (m : Nat) (h : SpSt cap L R p m 0 PC)
    (hsn : SnapNone p m) : Good cap L R (p.continueSpawner m) := by
  unfold continueSpawner
  simp only
  have hlt := h.lt
  obtain ⟨r, hr⟩ : ∃ r, p.reqs[m]? = some r := ⟨p.reqs[m], List.getElem?_eq_getElem hlt⟩
  rw [hr]
  simp only [Option.getD_some]
  split
  · rename_i hk
    refine good_applyLoop m _ p ⟨h.g0, h.mp, ⟨h.ac.ref, h.ac.tk, h.ac.rq, ?_⟩, h.lt, h.nw, h.cn⟩ hsn
    intro r' hr'
    rw [hr] at hr'; cases hr'
    exact ⟨hk, (h.ac.here r hr).1 hk⟩
  · rename_i hk
    have hkm : r.kind = .map := by cases hkk : r.kind <;> simp_all
    refine good_mapLoop m _ p ⟨h.g0, h.mp, ⟨h.ac.ref, h.ac.tk, h.ac.rq, ?_⟩, h.lt, h.nw, h.cn⟩ hsn
    intro r' hr'
    rw [hr] at hr'; cases hr'
    exact (h.ac.here r hr).2 hkm

/-! ### waking up in `acquire()` -/

theorem removeWaiterL_grants (m : Nat) (ws : List Waiter) :
    grantsL (removeWaiterL m ws).2 + (if (removeWaiterL m ws).1 = some .granted then 1 else 0) = grantsL ws := by
  induction ws with
  | nil => simp [removeWaiterL, grantsL]
  | cons w ws ih =>
    unfold removeWaiterL
    split
    · simp [grantsL, List.countP_cons]
    · simp only [grantsL, List.countP_cons] at ih ⊢
      omega

theorem removeWaiterL_mem (m : Nat) (ws : List Waiter) (w : Waiter) (h : w ∈ (removeWaiterL m ws).2) : w ∈ ws := by
  induction ws with
  | nil => simp [removeWaiterL] at h
  | cons a as ih =>
    unfold removeWaiterL at h
    split at h
    · exact List.mem_cons_of_mem _ h
    · simp only [List.mem_cons] at h ⊢
      rcases h with e | e
      · exact Or.inl e
      · exact Or.inr (ih e)

/-- removing a waiter entry that was not granted keeps the no-lost-wake-up invariant -/
theorem _root_.Taskpool.Sem.wakeInv_remove (s : Sem) (m : Nat) (h : s.WakeInv)
    (hng : (removeWaiterL m s.waiters).1 ≠ some .granted) :
    ({ s with waiters := (removeWaiterL m s.waiters).2 } : Sem).WakeInv := by
  intro v hv hpos hg x hx hp
  have hrm := removeWaiterL_grants m s.waiters
  simp only [hng, if_false] at hrm
  exact h v hv hpos (by simp only at hg; omega) x (removeWaiterL_mem m _ x hx) hp

/-- `value + grants` is unchanged by `_wake_up_next` when the counter is positive -/
theorem wakeNext_effect (p : Pool) (v : Nat) (hv : p.sem.value = .fin v) (hpos : 0 < v) :
    ∃ v', (({ p with sem := p.sem.wakeNext.1 } : Pool).schedOpt p.sem.wakeNext.2).sem.value = .fin v' ∧
      v' + grantsL (({ p with sem := p.sem.wakeNext.1 } : Pool).schedOpt p.sem.wakeNext.2).sem.waiters
        = v + grantsL p.sem.waiters ∧
      (({ p with sem := p.sem.wakeNext.1 } : Pool).schedOpt p.sem.wakeNext.2).tasks = p.tasks := by
  unfold Sem.wakeNext
  simp only [hv]
  generalize hr : wakeNextL (Cap.fin v) p.sem.waiters = r
  obtain ⟨c, ws', o⟩ := r
  obtain ⟨v', h1, h2⟩ := wakeNextL_sum v p.sem.waiters hpos c ws' o hr
  refine ⟨v', ?_, ?_, ?_⟩ <;> simp [h1, h2]

end Pool
end Taskpool
