import Taskpool.Inv.Task
/-! Spawners (`_apply_spawner`, `_start_num`, `_arg_consumer`) preserve `Good`. -/
namespace Taskpool
namespace Pool

theorem tame_finishMeta (p : Pool) (m o) : Tame p (p.finishMeta m o) := by
  unfold finishMeta
  split
  · exact Tame.refl p
  · exact Tame.trans (tame_modReq p m _) (tame_emitChildren _ _)

theorem grantsL_append_notGranted (ws : List Waiter) (w : Waiter) (h : w.st ≠ .granted) :
    grantsL (ws ++ [w]) = grantsL ws := by
  simp [grantsL, List.countP_append, h]

/-- queueing behind the pool semaphore moves no slot (it only happens when the semaphore is locked, which an
unbounded semaphore without waiters never is) -/
theorem good_waitRoom {cap : Cap} {L : Bool} (p : Pool) (m) (hg : Good cap L p) (hl : p.sem.locked = true) :
    Good cap L (p.waitRoom m) := by
  have facts : (p.waitRoom m).sem.value = p.sem.value ∧ grantsL (p.waitRoom m).sem.waiters = grantsL p.sem.waiters ∧
      (p.waitRoom m).tasks = p.tasks ∧ (p.waitRoom m).running = p.running ∧ (p.waitRoom m).cancelledR = p.cancelledR ∧
      (p.waitRoom m).ended = p.ended ∧ (p.waitRoom m).lost = p.lost ∧ (p.waitRoom m).groups = p.groups ∧
      (p.waitRoom m).apis = p.apis := by
    unfold waitRoom
    simp only
    split <;> simp_all [grantsL, List.countP_append, schedMeta, emitRef, modReq]
  obtain ⟨f1, f2, f3, f4, f5, f6, f7, f8, f9⟩ := facts
  refine ⟨?_, fun i tk h hn => hg.phase i tk (by rw [← f3]; exact h) hn, hg.reg.of_eq f3 f4 f5 f6 f7,
    hg.grp.of_eq f8 (by rw [f3]), hg.life.of_eq f3 f7, (hg.strict.of_eq f7 f9).1, (hg.strict.of_eq f7 f9).2⟩
  cases cap with
  | fin n =>
    obtain ⟨v, hv, hs⟩ := hg.slot
    exact ⟨v, by rw [f1]; exact hv, by rw [f2, f3]; exact hs⟩
  | inf =>
    obtain ⟨hv, hw⟩ := hg.slot
    simp [Sem.locked, hv, hw, Cap.isZero] at hl

theorem tame_waitMapSem (p : Pool) (m) : Tame p (p.waitMapSem m) := by
  unfold waitMapSem
  simp only
  split
  · exact Tame.trans (tame_modReq p m _) (tame_schedMeta _ m)
  · exact tame_modReq p m _

theorem locked_false_pos (s : Sem) (v : Nat) (hv : s.value = .fin v) (h : s.locked = false) : 0 < v := by
  unfold Sem.locked at h
  simp only [Bool.or_eq_false_iff] at h
  rcases Nat.eq_zero_or_pos v with rfl | hp
  · rw [hv] at h; simp [Cap.isZero] at h
  · exact hp

/-- slot conservation just before a task is appended: one slot is already set aside for it -/
def SlotPre (cap : Cap) (p : Pool) : Prop :=
  match cap with
  | .fin n => ∃ v, p.sem.value = .fin v ∧ v + (heldL p.tasks + 1) + grantsL p.sem.waiters = n
  | .inf => p.sem.value = .inf ∧ p.sem.waiters = []

theorem flat_addToGroup_perm (gs : List (String × List Nat)) (g : String) (id : Nat) :
    (flat (addToGroup gs g id)).Perm (id :: flat gs) := by
  induction gs with
  | nil => simp [addToGroup, flat]
  | cons x xs ih =>
    obtain ⟨n, ids⟩ := x
    simp only [addToGroup]
    split
    · simp only [flat_cons, List.append_assoc, List.singleton_append]
      exact List.perm_middle
    · simp only [flat_cons]
      exact (List.Perm.append_left ids ih).trans List.perm_middle

theorem _root_.Taskpool.GroupsOK.create {p : Pool} (hr : GroupsOK p) (g : String) (q : Pool) (nt : PTask)
    (hq : q.groups = addToGroup p.groups g p.tasks.length) (ht : q.tasks = p.tasks ++ [nt]) : GroupsOK q := by
  have hp := flat_addToGroup_perm p.groups g p.tasks.length
  refine ⟨?_, ?_⟩
  · rw [hq, hp.nodup_iff, List.nodup_cons]
    exact ⟨fun h => Nat.lt_irrefl _ (hr.lt _ h), hr.nd⟩
  · intro i hi
    rw [hq] at hi
    have := hp.subset hi
    rw [ht, List.length_append, List.length_singleton]
    rcases List.mem_cons.mp this with rfl | h
    · exact Nat.lt_succ_self _
    · exact Nat.lt_succ_of_lt (hr.lt i h)

/-- appending a fresh task in phase `created` -/
theorem good_createTask_afterTake {cap : Cap} {L : Bool} (p : Pool) (m : Nat) (isMap : Bool)
    (hph : PhaseOK p) (hreg : RegOK p) (hgrp : GroupsOK p) (hlife : LifeOK p) (hpre : SlotPre cap p) (hst : Strict L p) :
    Good cap L (p.createTask m isMap) := by
  unfold createTask
  simp only
  refine ⟨?_, ?_, hreg.create _ rfl _ rfl rfl rfl rfl rfl, hgrp.create _ _ _ rfl rfl, ?_, hst.1, hst.2⟩
  rotate_left 2
  · intro i tk' h
    simp only [emitRef_tasks, modReq_tasks] at h
    rw [List.getElem?_append] at h
    split at h
    · exact hlife i tk' h
    · rename_i hge
      rcases Nat.lt_or_ge (i - p.tasks.length) 1 with hlt | hge1
      · have : i - p.tasks.length = 0 := by omega
        rw [this] at h; simp at h; subst h
        exact oks_new _ _ _ _ rfl
      · rw [List.getElem?_eq_none (by simpa using hge1)] at h; cases h
  · cases cap with
    | fin n =>
      obtain ⟨v, hv, hs⟩ := hpre
      refine ⟨v, by simpa using hv, ?_⟩
      simp only [emitRef_sem, emitRef_tasks, modReq_sem, modReq_tasks, heldL, List.countP_append] at *
      simp [newTask]; omega
    | inf => exact hpre
  · intro i tk' h hn
    simp only [emitRef_tasks, modReq_tasks] at h
    rw [List.getElem?_append] at h
    split at h
    · exact hph i tk' h hn
    · rename_i hge
      rcases Nat.lt_or_ge (i - p.tasks.length) 1 with hlt | hge1
      · have : i - p.tasks.length = 0 := by omega
        rw [this] at h; simp at h; subst h; rfl
      · rw [List.getElem?_eq_none (by simpa using hge1)] at h; cases h

theorem good_takeSlotAndCreate {cap : Cap} {L : Bool} (p : Pool) (m : Nat) (isMap : Bool) (hg : Good cap L p)
    (hl : p.sem.locked = false) : Good cap L (p.takeSlotAndCreate m isMap) := by
  unfold takeSlotAndCreate
  refine good_createTask_afterTake _ m isMap (fun i tk h hn => hg.phase i tk h hn)
    (hg.reg.of_eq rfl rfl rfl rfl rfl) (hg.grp.of_eq rfl rfl) (hg.life.of_eq rfl rfl) ?_ hg.strict
  cases cap with
  | fin n =>
    obtain ⟨v, hv, hs⟩ := hg.slot
    have hpos := locked_false_pos p.sem v hv hl
    exact ⟨v - 1, by simp [hv, Cap.dec], by simp only; omega⟩
  | inf =>
    obtain ⟨hv, hw⟩ := hg.slot
    show ({ p with sem := { p.sem with value := p.sem.value.dec } } : Pool).sem.value = .inf ∧ _
    simp [hv, hw, Cap.dec]

/-- `_apply_spawner`/`_start_num` from any position -/
theorem good_applyLoop {cap : Cap} {L : Bool} (m n : Nat) (p : Pool) (hg : Good cap L p) : Good cap L (applyLoop m n p) := by
  induction n generalizing p with
  | zero =>
    unfold applyLoop
    exact (Tame.trans (tame_modReq p m _) (tame_finishMeta _ m _)).good hg
  | succ n ih =>
    unfold applyLoop
    simp only
    have hg0 : Good cap L (p.modReq m fun x => { x with remaining := n + 1 }) := (tame_modReq p m _).good hg
    split
    · exact ih _ ((tame_modReq _ m _).good hg0)
    · split
      · exact (tame_finishMeta _ m _).good hg0
      · split
        · exact (tame_finishMeta _ m _).good hg0
        · split
          · rename_i hl; exact good_waitRoom _ m hg0 hl
          · rename_i hl
            exact ih _ (good_takeSlotAndCreate _ m false hg0 (by simpa using hl))

theorem good_mapStartTask {cap : Cap} {L : Bool} (p : Pool) (m : Nat) (hg : Good cap L p) : Good cap L (p.mapStartTask m).1 := by
  unfold mapStartTask
  split
  · exact (tame_finishMeta p m _).good hg
  · split
    · rename_i hl; exact good_waitRoom p m hg hl
    · rename_i hl
      exact good_takeSlotAndCreate p m true hg (by simpa using hl)

theorem tame_pullItem (p : Pool) (m rest) : Tame p (p.pullItem m rest) := by
  unfold pullItem
  simp only
  exact Tame.trans (Tame.trans (tame_modReq p m _) (tame_logEv _ _)) (tame_runHooks _ m _)

/-- `_arg_consumer` from any position, argument iterator (user code) included -/
theorem good_mapLoop {cap : Cap} {L : Bool} (m : Nat) (items : List Item) (p : Pool) (hg : Good cap L p) :
    Good cap L (mapLoop m items p) := by
  induction items generalizing p with
  | nil =>
    unfold mapLoop
    exact (Tame.trans (tame_modReq p m _) (tame_finishMeta _ m _)).good hg
  | cons it rest ih =>
    unfold mapLoop
    simp only
    have hg0 := (tame_pullItem p m rest).good hg
    split
    · exact ih _ ((tame_modReq _ m _).good hg0)
    · split
      · exact (tame_waitMapSem _ m).good hg0
      · have hg1 : Good cap L ((p.pullItem m rest).takeMapSlot m) := (tame_modReq _ m _).good hg0
        have hg2 := good_mapStartTask _ m hg1
        split
        · exact ih _ hg2
        · exact hg2

theorem good_continueSpawner {cap : Cap} {L : Bool} (p : Pool) (m : Nat) (hg : Good cap L p) : Good cap L (p.continueSpawner m) := by
  unfold continueSpawner
  simp only
  split
  · exact good_applyLoop m _ p hg
  · exact good_mapLoop m _ p hg

/-! ### waking up in `acquire()` -/

theorem removeWaiterL_grants (m : Nat) (ws : List Waiter) :
    grantsL (removeWaiterL m ws).2 + (if (removeWaiterL m ws).1 = some .granted then 1 else 0) = grantsL ws := by
  induction ws with
  | nil => simp [removeWaiterL, grantsL]
  | cons w ws ih =>
    unfold removeWaiterL
    split
    · simp [grantsL, List.countP_cons]
    · simp only [grantsL, List.countP_cons] at ih ⊢
      omega

/-- `value + grants` is unchanged by `_wake_up_next` when the counter is positive -/
theorem wakeNext_effect (p : Pool) (v : Nat) (hv : p.sem.value = .fin v) (hpos : 0 < v) :
    ∃ v', (({ p with sem := p.sem.wakeNext.1 } : Pool).schedOpt p.sem.wakeNext.2).sem.value = .fin v' ∧
      v' + grantsL (({ p with sem := p.sem.wakeNext.1 } : Pool).schedOpt p.sem.wakeNext.2).sem.waiters
        = v + grantsL p.sem.waiters ∧
      (({ p with sem := p.sem.wakeNext.1 } : Pool).schedOpt p.sem.wakeNext.2).tasks = p.tasks := by
  unfold Sem.wakeNext
  simp only [hv]
  generalize hr : wakeNextL (Cap.fin v) p.sem.waiters = r
  obtain ⟨c, ws', o⟩ := r
  obtain ⟨v', h1, h2⟩ := wakeNextL_sum v p.sem.waiters hpos c ws' o hr
  refine ⟨v', ?_, ?_, ?_⟩ <;> simp [h1, h2]

end Pool
end Taskpool
