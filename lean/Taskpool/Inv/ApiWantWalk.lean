import Taskpool.Inv.ApiWant
/-! **A background call that has something to do is flagged — the walk.**

`Afr X p q`: between `p` and `q` nothing `ApiOK` reads has changed, except that tasks / requests may have been appended,
the registries may have changed as long as they still file existing tasks (spawners), and the gathers in `X` may have
completed.  Every step function that is not part of a background call satisfies `Afr (fun _ => False)`; the scan of a
new gather `g` satisfies `Afr (· = g)`.  The functions of the background calls themselves are proved directly, with the
call that is being run exempt.

The clause `ApiOK.kd` (only `flush` / `gather_and_close` suspend on a gather) is what makes the invariant inductive for
the total machine: `stepApi` clears the flag of an `until_closed` call in a gather frame and resumes nothing (`| _, _ => p`),
so without it a state with such a call, flagged, on a completed gather satisfies all other clauses and loses `gw` in
one step.  No step function produces such a record (`api_stepApi_rest`, last case). -/
namespace Taskpool
namespace Pool

def RegIn (p : Pool) : Prop := ∀ t, (t ∈ p.running ∨ t ∈ p.cancelledR ∨ t ∈ p.ended) → t < p.tasks.length
def McIn (p : Pool) : Prop := ∀ m ∈ p.metaCancelled, m < p.reqs.length

structure Afr (X : Nat → Prop) (p q : Pool) : Prop where
  apis : q.apis = p.apis
  ga : ∀ j, (p.gathers[j]? = none ∧ q.gathers[j]? = none) ∨
        ∃ G G', p.gathers[j]? = some G ∧ q.gathers[j]? = some G' ∧ G'.owner = G.owner ∧ G'.children = G.children ∧
          (¬ X j → G'.outer = G.outer)
  cw : q.closedWaiters = p.closedWaiters
  closed : q.closed = p.closed
  tl : p.tasks.length ≤ q.tasks.length
  rl : p.reqs.length ≤ q.reqs.length
  rg : p.RegIn → q.RegIn
  mc : p.McIn → q.McIn

variable {X : Nat → Prop} {E : Nat → Prop}

theorem Afr.refl (p : Pool) : Afr X p p := by
  refine ⟨rfl, ?_, rfl, rfl, Nat.le_refl _, Nat.le_refl _, id, id⟩
  intro j
  cases h : p.gathers[j]? with
  | none => exact Or.inl ⟨rfl, rfl⟩
  | some G => exact Or.inr ⟨G, G, rfl, rfl, rfl, rfl, fun _ => rfl⟩

theorem Afr.trans {p q r : Pool} (h1 : Afr X p q) (h2 : Afr X q r) : Afr X p r := by
  refine ⟨h2.apis.trans h1.apis, ?_, h2.cw.trans h1.cw, h2.closed.trans h1.closed, Nat.le_trans h1.tl h2.tl,
    Nat.le_trans h1.rl h2.rl, fun h => h2.rg (h1.rg h), fun h => h2.mc (h1.mc h)⟩
  intro j
  rcases h1.ga j with ⟨a, b⟩ | ⟨G, G', a, b, c, d, e⟩
  · rcases h2.ga j with ⟨a', b'⟩ | ⟨G1, G1', a', b', _⟩
    · exact Or.inl ⟨a, b'⟩
    · rw [b] at a'; cases a'
  · rcases h2.ga j with ⟨a', b'⟩ | ⟨G1, G1', a', b', c', d', e'⟩
    · rw [b] at a'; cases a'
    · rw [b] at a'; cases a'
      exact Or.inr ⟨G, G1', a, b', c'.trans c, d'.trans d, fun hx => (e' hx).trans (e hx)⟩

/-- nothing the invariant reads has changed (tasks and requests may have been rewritten or appended) -/
theorem afr_of (p q : Pool) (ha : q.apis = p.apis) (hg : q.gathers = p.gathers) (hw : q.closedWaiters = p.closedWaiters)
    (hc : q.closed = p.closed) (h1 : q.running = p.running) (h2 : q.cancelledR = p.cancelledR) (h3 : q.ended = p.ended)
    (h4 : q.metaCancelled = p.metaCancelled) (htl : p.tasks.length ≤ q.tasks.length) (hrl : p.reqs.length ≤ q.reqs.length) :
    Afr X p q := by
  refine ⟨ha, ?_, hw, hc, htl, hrl, ?_, ?_⟩
  · intro j
    rw [hg]
    cases h : p.gathers[j]? with
    | none => exact Or.inl ⟨rfl, rfl⟩
    | some G => exact Or.inr ⟨G, G, rfl, rfl, rfl, rfl, fun _ => rfl⟩
  · intro h t ht
    rw [h1, h2, h3] at ht
    exact Nat.lt_of_lt_of_le (h t ht) htl
  · intro h m hm
    rw [h4] at hm
    exact Nat.lt_of_lt_of_le (h m hm) hrl

theorem childExists_mono {p q : Pool} (htl : p.tasks.length ≤ q.tasks.length) (hrl : p.reqs.length ≤ q.reqs.length)
    (c : Child) (h : p.childExists c) : q.childExists c := by
  cases c with
  | task t => exact Nat.lt_of_lt_of_le h htl
  | spawner m => exact Nat.lt_of_lt_of_le h hrl

/-- the transfer: no call that counts is suspended on a gather that may have completed -/
theorem ApiOK.afr {p q : Pool} (h : ApiOK E p) (hr : Afr X p q)
    (hx : ∀ (a : Nat) (A : Api) (g : Nat), p.apis[a]? = some A → ¬ E a → (A.frame = .gather1 g ∨ A.frame = .gather2 g) → ¬ X g) :
    ApiOK E q := by
  refine ⟨?_, ?_, ?_, ?_, ?_, ?_, ?_, ?_, ?_⟩
  · intro a A hA; rw [hr.apis] at hA; exact h.ns a A hA
  · intro a A hA; rw [hr.apis] at hA; exact h.dn a A hA
  · intro a A g hA hE hf
    rw [hr.apis] at hA
    obtain ⟨G, hG, ho, hs⟩ := h.gw a A g hA hE hf
    rcases hr.ga g with ⟨a', _⟩ | ⟨G0, G', a', b', c', d', e'⟩
    · rw [hG] at a'; cases a'
    · rw [hG] at a'; cases a'
      refine ⟨G', b', c'.trans ho, ?_⟩
      rw [e' (hx a A g hA hE hf)]
      exact hs
  · intro a A g hA; rw [hr.apis] at hA; exact h.kd a A g hA
  · intro a A hA; rw [hr.apis] at hA; rw [hr.cw]; exact h.cw a A hA
  · rw [hr.closed, hr.cw]; exact h.cl
  · exact hr.rg h.rg
  · exact hr.mc h.mc
  · intro g G' hG' c hc
    rcases hr.ga g with ⟨_, b'⟩ | ⟨G0, G1, a', b', c', d', e'⟩
    · rw [hG'] at b'; cases b'
    · rw [hG'] at b'; cases b'
      rw [d'] at hc
      exact childExists_mono hr.tl hr.rl c (h.ch g G0 a' c hc)

theorem ApiOK.afr0 {p q : Pool} (h : ApiOK E p) (hr : Afr (fun _ => False) p q) : ApiOK E q :=
  h.afr hr (fun _ _ _ _ _ _ => id)

/-! ### leaves -/

/-- as `afr_of`, the registries changed -/
theorem afr_of' (p q : Pool) (ha : q.apis = p.apis) (hg : q.gathers = p.gathers) (hw : q.closedWaiters = p.closedWaiters)
    (hc : q.closed = p.closed) (htl : p.tasks.length ≤ q.tasks.length) (hrl : p.reqs.length ≤ q.reqs.length)
    (hrg : p.RegIn → q.RegIn) (hmc : p.McIn → q.McIn) : Afr X p q := by
  refine ⟨ha, ?_, hw, hc, htl, hrl, hrg, hmc⟩
  intro j
  rw [hg]
  cases h : p.gathers[j]? with
  | none => exact Or.inl ⟨rfl, rfl⟩
  | some G => exact Or.inr ⟨G, G, rfl, rfl, rfl, rfl, fun _ => rfl⟩

macro "afr_eq" : tactic =>
  `(tactic| exact afr_of _ _ rfl rfl rfl rfl rfl rfl rfl rfl (by first | exact Nat.le_refl _ | simp [modTask, modReq])
      (by first | exact Nat.le_refl _ | simp [modTask, modReq]))

theorem afr_emitRef (p : Pool) (x : Ref) : Afr X p (p.emitRef x) := by afr_eq
theorem afr_logEv (p : Pool) (e : Ev) : Afr X p (p.logEv e) := by afr_eq
theorem afr_modTask (p : Pool) (t : Nat) (f : PTask → PTask) : Afr X p (p.modTask t f) := by afr_eq
theorem afr_modReq (p : Pool) (m : Nat) (f : Req → Req) : Afr X p (p.modReq m f) := by afr_eq
theorem afr_schedTask (p : Pool) (t : Nat) : Afr X p (p.schedTask t) := (afr_modTask p t _).trans (afr_emitRef _ _)
theorem afr_schedMeta (p : Pool) (m : Nat) : Afr X p (p.schedMeta m) := (afr_modReq p m _).trans (afr_emitRef _ _)

theorem afr_schedOpt (p : Pool) (o : Option Nat) : Afr X p (p.schedOpt o) := by
  cases o with
  | none => exact Afr.refl p
  | some m => exact afr_schedMeta p m

theorem afr_foldl {α} (f : Pool → α → Pool) (h : ∀ p a, Afr X p (f p a)) (l : List α) (p : Pool) : Afr X p (l.foldl f p) := by
  induction l generalizing p with
  | nil => exact Afr.refl p
  | cons a as ih => exact (h p a).trans (ih (f p a))

theorem indicesWhere_lt (l : List Req) (f : Req → Bool) (m : Nat) (h : m ∈ indicesWhere l f) : m < l.length := by
  unfold indicesWhere at h
  simp only [List.mem_map, List.mem_filter] at h
  obtain ⟨⟨r, i⟩, ⟨h1, _⟩, rfl⟩ := h
  have := List.mem_zipIdx h1
  simp at this
  omega

/-! ### the walk: everything that is not part of a background call -/

theorem afr_emitChildren (p : Pool) (cbs : List (Nat × Nat)) : Afr X p (p.emitChildren cbs) := by
  unfold emitChildren
  exact afr_foldl _ (fun q gi => afr_emitRef q _) _ _

theorem afr_releasePool (p : Pool) : Afr X p p.releasePool := by
  unfold releasePool
  refine Afr.trans ?_ (afr_schedOpt _ _)
  afr_eq

theorem afr_releaseMap (p : Pool) (m : Nat) : Afr X p (p.releaseMap m) := by
  unfold releaseMap
  split
  · exact Afr.refl p
  · refine Afr.trans ?_ (afr_schedOpt _ _)
    exact afr_modReq _ _ _

/-! ### asyncio `Task.cancel()` -/

theorem afr_taskCancel (p : Pool) (t : Nat) : Afr X p (p.taskCancel t) := by
  unfold taskCancel
  split
  · exact Afr.refl p
  · split
    · exact Afr.refl p
    · split
      · refine Afr.trans ?_ (afr_schedTask _ _)
        exact afr_modTask _ _ _
      · exact afr_modTask _ _ _

theorem afr_cancelTask (p : Pool) (t : Nat) : Afr X p (p.cancelTask t) := by
  unfold cancelTask
  split
  · exact Afr.refl p
  · split
    · exact afr_modTask _ _ _
    · exact afr_taskCancel p t

theorem afr_metaCancel (p : Pool) (m : Nat) : Afr X p (p.metaCancel m) := by
  unfold metaCancel
  split
  · exact Afr.refl p
  · split
    · exact Afr.refl p
    · split
      · refine Afr.trans ?_ (afr_schedMeta _ _)
        refine Afr.trans ?_ (afr_modReq _ _ _)
        afr_eq
      · split
        · refine Afr.trans ?_ (afr_schedMeta _ _)
          exact afr_modReq _ _ _
        · exact afr_modReq _ _ _

/-! ### synchronous API -/

theorem afr_register (p : Pool) (r : Req) : Afr X p (p.register r) := by
  unfold register
  simp only
  refine Afr.trans ?_ (afr_emitRef _ _)
  afr_eq

theorem afr_ite_fst {c : Prop} [Decidable c] (a b : Pool × Res) (p : Pool) (ha : Afr X p a.1) (hb : Afr X p b.1) :
    Afr X p (if c then a else b).1 := by split <;> assumption

theorem afr_doApply (p : Pool) (num : Int) (group : Option String) (sp : SpawnSpec) : Afr X p (p.doApply num group sp).1 := by
  unfold doApply
  repeat' split
  all_goals first | exact Afr.refl p | exact afr_ite_fst _ _ p (Afr.refl p) (afr_register p _)

theorem afr_doMap (p : Pool) (stars : Nat) (items : List Item) (nc : Int) (group : Option String) (sp : SpawnSpec) :
    Afr X p (p.doMap stars items nc group sp).1 := by
  unfold doMap
  repeat' split
  all_goals first | exact Afr.refl p | exact afr_ite_fst _ _ p (Afr.refl p) (afr_register p _)

theorem afr_doStart (p : Pool) (num : Int) : Afr X p (p.doStart num).1 := by
  unfold doStart
  split
  · exact Afr.refl p
  · split
    · exact Afr.refl p
    · simp only
      refine Afr.trans ?_ (afr_register _ _)
      afr_eq

theorem afr_doCancel (p : Pool) (ids : List Int) : Afr X p (p.doCancel ids).1 := by
  unfold doCancel
  split
  · exact Afr.refl p
  · exact afr_foldl _ (fun q id => afr_cancelTask q _) _ _

theorem afr_doStop (p : Pool) (n : Int) : Afr X p (p.doStop n).1 := by
  unfold doStop
  split
  · exact Afr.refl p
  · exact afr_doCancel p _

theorem afr_popOrder (p : Pool) : Afr X p p.popOrder.1 := by
  unfold popOrder
  split
  · exact Afr.refl p
  · afr_eq

theorem afr_cancelGroupMetas (p : Pool) (g : String) : Afr X p (p.cancelGroupMetas g) := by
  unfold cancelGroupMetas
  simp only
  have h1 : Afr X p _ := afr_foldl (fun q m => q.metaCancel m) (fun q m => afr_metaCancel q m)
    (indicesWhere p.reqs fun r => r.inRunning && r.group == g) p
  refine h1.trans (afr_of' _ _ rfl rfl rfl rfl (Nat.le_refl _) (by simp) id ?_)
  intro hmc m hm
  simp only [List.mem_append] at hm
  simp only [List.length_map]
  rcases hm with hm | hm
  · exact hmc m hm
  · exact Nat.lt_of_lt_of_le (indicesWhere_lt _ _ m hm) h1.rl

theorem afr_cancelGroupBody (p : Pool) (g : String) (ids order : List Nat) (q : Pool)
    (h : p.cancelGroupBody g ids order = some q) : Afr X p q := by
  unfold cancelGroupBody at h
  simp only at h
  split at h
  · cases h
  · simp only [Option.some.injEq] at h
    subst h
    exact (afr_cancelGroupMetas p g).trans (afr_foldl _ (fun q t => afr_cancelTask q t) _ _)

theorem afr_doCancelGroup (p : Pool) (g : String) : Afr X p (p.doCancelGroup g).1 := by
  unfold doCancelGroup
  split
  · exact Afr.refl p
  · simp only
    split
    · exact Afr.refl p
    · rename_i p2 h2
      refine ((afr_popOrder p).trans ?_).trans (afr_cancelGroupBody _ _ _ _ _ h2)
      afr_eq

theorem afr_cancelAllLoop (gs : List (String × List Nat)) (order : List Nat) (p q : Pool)
    (h : cancelAllLoop gs order p = some q) : Afr X p q := by
  induction gs generalizing p with
  | nil => simp [cancelAllLoop] at h; subst h; exact Afr.refl p
  | cons x xs ih =>
    obtain ⟨g, ids⟩ := x
    simp only [cancelAllLoop] at h
    split at h
    · cases h
    · rename_i p1 h1
      exact (afr_cancelGroupBody _ _ _ _ _ h1).trans (ih _ h)

theorem afr_doCancelAll (p : Pool) : Afr X p p.doCancelAll.1 := by
  unfold doCancelAll
  simp only
  split
  · exact Afr.refl p
  · rename_i p2 h2
    refine ((afr_popOrder p).trans ?_).trans (afr_cancelAllLoop _ _ _ _ h2)
    afr_eq

theorem afr_doSetSize (p : Pool) (v : Int) : Afr X p (p.doSetSize v).1 := by
  unfold doSetSize
  split
  · exact Afr.refl p
  · afr_eq

theorem afr_doHook (p : Pool) (ctx : Nat) (h : HookOp) : Afr X p (p.doHook ctx h).1 := by
  cases h <;> simp only [doHook]
  · exact afr_doCancel p _
  · exact afr_doCancelGroup p _
  · split
    · exact afr_doCancelGroup p _
    · exact Afr.refl p
  · exact afr_doCancelAll p
  · afr_eq
  · afr_eq
  · exact afr_doStop p _
  · split
    · exact Afr.refl p
    · exact afr_doApply p _ _ _

theorem afr_runHooks (p : Pool) (ctx : Nat) (hs : List HookOp) : Afr X p (p.runHooks ctx hs) := by
  unfold runHooks
  exact afr_foldl _ (fun q h => (afr_doHook q ctx h).trans (afr_logEv _ _)) _ _

/-! ### the wrapper of a pool task -/

theorem afr_completeTask (p : Pool) (t : Nat) (o : Outcome) : Afr X p (p.completeTask t o) := by
  unfold completeTask
  split
  · exact Afr.refl p
  · refine Afr.trans ?_ (afr_emitChildren _ _)
    exact afr_modTask _ _ _

theorem afr_finishTask (p : Pool) (t : Nat) : Afr X p (p.finishTask t) := by
  unfold finishTask
  split
  · exact Afr.refl p
  · exact afr_completeTask p t _

theorem afr_suspendTask (p : Pool) (t : Nat) (ph : Phase) : Afr X p (p.suspendTask t ph) := by
  unfold suspendTask
  split
  · exact Afr.refl p
  · split
    · refine Afr.trans ?_ (afr_schedTask _ _)
      exact afr_modTask _ _ _
    · exact afr_modTask _ _ _

theorem afr_cbBegin (p : Pool) (t : Nat) (tk : PTask) (isEnd : Bool) : Afr X p (p.cbBegin t tk isEnd) := by
  unfold cbBegin
  simp only
  exact ((afr_modTask p t _).trans (afr_logEv _ _)).trans
    (afr_runHooks _ _ _)

theorem afr_runCb (p : Pool) (t : Nat) (tk : PTask) (isEnd : Bool) : Afr X p (p.runCb t tk isEnd).1 := by
  unfold runCb
  split
  · exact Afr.refl p
  · exact (afr_cbBegin p t tk isEnd).trans (afr_logEv _ _)
  · exact ((afr_cbBegin p t tk isEnd).trans (afr_logEv _ _)).trans (afr_modTask _ _ _)
  · exact (afr_cbBegin p t tk isEnd).trans (afr_suspendTask _ t _)

theorem contains_mem {l : List Nat} {t : Nat} (h : l.contains t = true) : t ∈ l := by simpa using h

theorem afr_moveToEnded (p : Pool) (t : Nat) (q : Pool) (h : p.moveToEnded t = some q) : Afr X p q := by
  unfold moveToEnded at h
  split at h
  · rename_i hc
    simp only [Option.some.injEq] at h; subst h
    refine afr_of' _ _ rfl rfl rfl rfl (Nat.le_refl _) (Nat.le_refl _) ?_ id
    intro hr x hx
    simp only [List.mem_append, List.mem_singleton] at hx
    rcases hx with hx | hx | hx | hx
    · exact hr x (Or.inl (List.mem_of_mem_erase hx))
    · exact hr x (Or.inr (Or.inl hx))
    · exact hr x (Or.inr (Or.inr hx))
    · subst hx; exact hr x (Or.inl (contains_mem hc))
  · split at h
    · rename_i hc
      simp only [Option.some.injEq] at h; subst h
      refine afr_of' _ _ rfl rfl rfl rfl (Nat.le_refl _) (Nat.le_refl _) ?_ id
      intro hr x hx
      simp only [List.mem_append, List.mem_singleton] at hx
      rcases hx with hx | hx | hx | hx
      · exact hr x (Or.inl hx)
      · exact hr x (Or.inr (Or.inl (List.mem_of_mem_erase hx)))
      · exact hr x (Or.inr (Or.inr hx))
      · subst hx; exact hr x (Or.inr (Or.inl (contains_mem hc)))
    · cases h

theorem afr_releaseMapSlot (p : Pool) (t : Nat) (tk : PTask) : Afr X p (p.releaseMapSlot t tk) := by
  unfold releaseMapSlot
  split
  · exact (afr_releaseMap p tk.req).trans (afr_modTask _ _ _)
  · exact Afr.refl p

theorem afr_endCallback (p : Pool) (t : Nat) (tk : PTask) : Afr X p (p.endCallback t tk) := by
  unfold endCallback
  simp only
  split
  · exact (afr_releaseMapSlot p t tk).trans (afr_runCb _ t tk true)
  · exact ((afr_releaseMapSlot p t tk).trans (afr_runCb _ t tk true)).trans (afr_finishTask _ t)

theorem afr_endingTail (p : Pool) (t : Nat) (tk : PTask) : Afr X p (p.endingTail t tk) := by
  unfold endingTail
  exact ((afr_releasePool p).trans (afr_modTask _ _ _)).trans (afr_endCallback _ t tk)

theorem afr_keyErrorFinish (p : Pool) (t : Nat) : Afr X p (p.keyErrorFinish t) := by
  unfold keyErrorFinish
  refine Afr.trans ?_ (afr_finishTask _ t)
  refine Afr.trans (q := ({ p with lost := true } : Pool)) ?_ ?_
  · afr_eq
  · exact afr_modTask _ _ _

theorem afr_taskEnding (p : Pool) (t : Nat) : Afr X p (p.taskEnding t) := by
  unfold taskEnding
  split
  · exact Afr.refl p
  · split
    · exact afr_keyErrorFinish p t
    · rename_i p1 hm
      exact (afr_moveToEnded p t p1 hm).trans (afr_endingTail p1 t _)

theorem afr_cancelCallback (p : Pool) (t : Nat) (tk : PTask) : Afr X p (p.cancelCallback t tk) := by
  unfold cancelCallback
  simp only
  split
  · exact afr_runCb p t tk false
  · exact (afr_runCb p t tk false).trans (afr_taskEnding _ t)

theorem afr_taskCancellation (p : Pool) (t : Nat) (tk : PTask) : Afr X p (p.taskCancellation t tk) := by
  unfold taskCancellation
  split
  · refine Afr.trans ?_ (afr_cancelCallback _ t tk)
    rename_i hc
    refine Afr.trans (q := ({ p with running := p.running.erase t, cancelledR := p.cancelledR ++ [t] } : Pool)) ?_ ?_
    · refine afr_of' _ _ rfl rfl rfl rfl (Nat.le_refl _) (Nat.le_refl _) ?_ id
      intro hr x hx
      simp only [List.mem_append, List.mem_singleton] at hx
      rcases hx with hx | (hx | hx) | hx
      · exact hr x (Or.inl (List.mem_of_mem_erase hx))
      · exact hr x (Or.inr (Or.inl hx))
      · subst hx; exact hr x (Or.inl (contains_mem hc))
      · exact hr x (Or.inr (Or.inr hx))
    · exact afr_modTask _ _ _
  · refine Afr.trans ?_ (afr_taskEnding _ t)
    refine Afr.trans (q := ({ p with lost := true } : Pool)) ?_ ?_
    · afr_eq
    · exact afr_modTask _ _ _

theorem afr_afterWorker (p : Pool) (t : Nat) (e : Option Err) : Afr X p (p.afterWorker t e) := by
  unfold afterWorker
  split
  · exact ((afr_logEv p _).trans (afr_modTask _ _ _)).trans (afr_taskEnding _ t)
  · exact ((afr_logEv p _).trans (afr_modTask _ _ _)).trans (afr_taskEnding _ t)

theorem afr_stepCreated (p : Pool) (t : Nat) (tk : PTask) : Afr X p (p.stepCreated t tk) := by
  unfold stepCreated
  split
  · refine Afr.trans ?_ (afr_taskCancellation _ t tk)
    exact afr_modTask _ _ _
  · simp only
    have h0 : Afr X p (((p.logEv (.started t tk.arg)).modTask t fun k => { k with phase := .inWorker, fut := .ok, unstarted := false }).runHooks tk.req (p.reqOf tk).hooks.start) := by
      exact ((afr_logEv p _).trans (afr_modTask _ _ _)).trans (afr_runHooks _ _ _)
    split
    · exact h0.trans (afr_afterWorker _ t _)
    · exact h0.trans (afr_afterWorker _ t _)
    · exact (h0.trans (afr_modTask _ _ _)).trans (afr_suspendTask _ t _)

theorem afr_workerNext (p : Pool) (t : Nat) (tk : PTask) : Afr X p (p.workerNext t tk) := by
  unfold workerNext
  exact (((afr_logEv p _).trans (afr_modTask _ _ _)).trans (afr_runHooks _ _ _)).trans (afr_suspendTask _ t _)

theorem afr_workerCancelled (p : Pool) (t : Nat) (tk : PTask) : Afr X p (p.workerCancelled t tk) := by
  unfold workerCancelled
  split
  · exact ((afr_logEv p _).trans (afr_modTask _ _ _)).trans (afr_suspendTask _ t _)
  · simp only
    have h0 : Afr X p ((p.logEv (.sawCancel t)).modTask t fun k => { k with sawCancel := true, phase := .wrapUp, nSaw := k.nSaw + 1 }) := by
      exact (afr_logEv p _).trans (afr_modTask _ _ _)
    split
    · exact h0.trans (afr_afterWorker _ t _)
    · exact h0.trans (afr_taskCancellation _ t tk)

theorem afr_stepInWorker (p : Pool) (t : Nat) (tk : PTask) : Afr X p (p.stepInWorker t tk) := by
  unfold stepInWorker
  split
  · refine Afr.trans ?_ (afr_workerCancelled _ t tk)
    exact afr_modTask _ _ _
  · split
    · split
      · exact afr_workerNext p t tk
      · exact afr_afterWorker p t _
    · exact afr_afterWorker p t _
    · exact Afr.refl p

theorem afr_stepInCancelCb (p : Pool) (t : Nat) (tk : PTask) : Afr X p (p.stepInCancelCb t tk) := by
  unfold stepInCancelCb
  split
  · exact ((afr_logEv p _).trans (afr_modTask _ _ _)).trans (afr_taskEnding _ t)
  · exact ((afr_logEv p _).trans (afr_modTask _ _ _)).trans (afr_taskEnding _ t)
  · exact ((afr_logEv p _).trans (afr_modTask _ _ _)).trans (afr_taskEnding _ t)
  · exact Afr.refl p

theorem afr_stepInEndCb (p : Pool) (t : Nat) (tk : PTask) : Afr X p (p.stepInEndCb t tk) := by
  unfold stepInEndCb
  split
  · exact (afr_logEv p _).trans (afr_finishTask _ t)
  · exact ((afr_logEv p _).trans (afr_modTask _ _ _)).trans (afr_finishTask _ t)
  · exact ((afr_logEv p _).trans (afr_modTask _ _ _)).trans (afr_finishTask _ t)
  · exact Afr.refl p

/-- the remainder of a task step, after the task's own flag was cleared -/
theorem afr_stepTask_rest (p : Pool) (t : Nat) (tk : PTask) :
    Afr X p (match tk.phase with
      | .created => p.stepCreated t tk
      | .wrapUp => p
      | .inWorker => p.stepInWorker t tk
      | .inCancelCb => p.stepInCancelCb t tk
      | .inEndCb => p.stepInEndCb t tk
      | .finished => p) := by
  split
  · exact afr_stepCreated p t tk
  · exact Afr.refl p
  · exact afr_stepInWorker p t tk
  · exact afr_stepInCancelCb p t tk
  · exact afr_stepInEndCb p t tk
  · exact Afr.refl p

theorem afr_stepTask (p : Pool) (t : Nat) : Afr X p (p.stepTask t) := by
  unfold stepTask
  split
  · exact Afr.refl p
  · rename_i tk htk
    split
    · exact Afr.refl p
    · simp only
      refine Afr.trans ?_ (afr_stepTask_rest _ t tk)
      exact afr_modTask _ _ _

/-! ### spawners -/

theorem afr_finishMeta (p : Pool) (m : Nat) (o : Outcome) : Afr X p (p.finishMeta m o) := by
  unfold finishMeta
  split
  · exact Afr.refl p
  · simp only
    exact Afr.trans (afr_modReq _ _ _) (afr_emitChildren _ _)

theorem afr_createTask (p : Pool) (m : Nat) (isMap : Bool) : Afr X p (p.createTask m isMap) := by
  unfold createTask
  simp only
  refine Afr.trans ?_ (afr_emitRef _ _)
  refine Afr.trans ?_ (afr_modReq _ _ _)
  refine afr_of' _ _ rfl rfl rfl rfl (by simp) (Nat.le_refl _) ?_ id
  intro hr x hx
  simp only [List.mem_append, List.mem_singleton, List.length_append, List.length_cons, List.length_nil] at hx ⊢
  rcases hx with (hx | hx) | hx | hx
  · exact Nat.lt_succ_of_lt (hr x (Or.inl hx))
  · omega
  · exact Nat.lt_succ_of_lt (hr x (Or.inr (Or.inl hx)))
  · exact Nat.lt_succ_of_lt (hr x (Or.inr (Or.inr hx)))

theorem afr_takeSlotAndCreate (p : Pool) (m : Nat) (isMap : Bool) : Afr X p (p.takeSlotAndCreate m isMap) := by
  unfold takeSlotAndCreate
  refine Afr.trans ?_ (afr_createTask _ m isMap)
  afr_eq

theorem afr_waitRoom (p : Pool) (m : Nat) : Afr X p (p.waitRoom m) := by
  unfold waitRoom
  simp only
  have h0 : ∀ w : Waiter, Afr X p (({ p with sem := { p.sem with waiters := p.sem.waiters ++ [w] } } : Pool).modReq m
      fun x => { x with frame := MFrame.waitRoom, mustCancel := false }) := fun w => by
    refine Afr.trans (q := ({ p with sem := { p.sem with waiters := p.sem.waiters ++ [w] } } : Pool)) ?_ ?_
    · afr_eq
    · exact afr_modReq _ _ _
  split
  · exact (h0 _).trans (afr_schedMeta _ m)
  · exact h0 _

theorem afr_waitMapSem (p : Pool) (m : Nat) : Afr X p (p.waitMapSem m) := by
  unfold waitMapSem
  simp only
  split
  · exact Afr.trans (afr_modReq _ _ _) (afr_schedMeta _ m)
  · exact afr_modReq _ _ _

theorem afr_applyLoop (m n : Nat) (p : Pool) : Afr X p (applyLoop m n p) := by
  induction n generalizing p with
  | zero =>
    unfold applyLoop
    exact Afr.trans (afr_modReq _ _ _) (afr_finishMeta _ m _)
  | succ n ih =>
    unfold applyLoop
    simp only
    have h0 : Afr X p (p.modReq m fun x => { x with remaining := n + 1 }) := by exact afr_modReq _ _ _
    split
    · exact (h0.trans (afr_modReq _ _ _)).trans (ih _)
    · split
      · exact h0.trans (afr_finishMeta _ m _)
      · split
        · exact h0.trans (afr_finishMeta _ m _)
        · split
          · exact h0.trans (afr_waitRoom _ m)
          · exact (h0.trans (afr_takeSlotAndCreate _ m false)).trans (ih _)

theorem afr_mapStartTask (p : Pool) (m : Nat) : Afr X p (p.mapStartTask m).1 := by
  unfold mapStartTask
  split
  · exact afr_finishMeta p m _
  · split
    · exact afr_waitRoom p m
    · exact afr_takeSlotAndCreate p m true

theorem afr_pullItem (p : Pool) (m : Nat) (rest : List Item) : Afr X p (p.pullItem m rest) := by
  unfold pullItem
  simp only
  exact (Afr.trans (afr_modReq _ _ _) (afr_logEv _ _)).trans (afr_runHooks _ m _)

theorem afr_takeMapSlot (p : Pool) (m : Nat) : Afr X p (p.takeMapSlot m) := by
  unfold takeMapSlot
  exact afr_modReq _ _ _

theorem afr_mapLoop (m : Nat) (items : List Item) (p : Pool) : Afr X p (mapLoop m items p) := by
  induction items generalizing p with
  | nil =>
    unfold mapLoop
    exact Afr.trans (afr_modReq _ _ _) (afr_finishMeta _ m _)
  | cons it rest ih =>
    unfold mapLoop
    simp only
    have h0 : Afr X p _ := afr_pullItem p m rest
    split
    · exact h0.trans (afr_finishMeta _ m _)
    · split
      · exact (h0.trans (afr_modReq _ _ _)).trans (ih _)
      · split
        · exact h0.trans (afr_waitMapSem _ m)
        · have h1 := (h0.trans (afr_takeMapSlot _ m)).trans (afr_mapStartTask _ m)
          split
          · exact h1.trans (ih _)
          · exact h1

theorem afr_continueSpawner (p : Pool) (m : Nat) : Afr X p (p.continueSpawner m) := by
  unfold continueSpawner
  simp only
  split
  · exact afr_applyLoop m _ p
  · exact afr_mapLoop m _ p

theorem afr_stepMetaNotStarted (p : Pool) (m : Nat) (r : Req) : Afr X p (p.stepMetaNotStarted m r) := by
  unfold stepMetaNotStarted
  split
  · exact afr_finishMeta p m _
  · split
    · exact afr_applyLoop m _ p
    · exact afr_mapLoop m _ p

theorem afr_roomWaitCancelled (p : Pool) (m : Nat) (r : Req) (st : Option WaitSt) : Afr X p (p.roomWaitCancelled m r st) := by
  unfold roomWaitCancelled
  simp only
  refine Afr.trans ?_ (afr_finishMeta _ m _)
  have h1 : Afr X p (if (st == some WaitSt.granted) = true then p.releasePool else p) := by
    split
    · exact afr_releasePool p
    · exact Afr.refl p
  generalize (if (st == some WaitSt.granted) = true then p.releasePool else p) = q at h1 ⊢
  refine h1.trans ?_
  split
  · exact afr_releaseMap q m
  · exact Afr.refl q

theorem afr_roomGranted (p : Pool) (m : Nat) (r : Req) : Afr X p (p.roomGranted m r) := by
  unfold roomGranted
  simp only
  refine Afr.trans ?_ (afr_continueSpawner _ m)
  refine Afr.trans ?_ (afr_createTask _ m _)
  have h0 : Afr X p (p.modReq m fun x => { x with frame := MFrame.running }) := by exact afr_modReq _ _ _
  refine h0.trans ?_
  split
  · refine Afr.trans ?_ (afr_schedOpt _ _)
    afr_eq
  · exact Afr.refl _

theorem afr_wakeWaitRoomCore (p : Pool) (m : Nat) (r : Req) : Afr X p (p.wakeWaitRoomCore m r) := by
  unfold wakeWaitRoomCore
  simp only
  have h0 : Afr X p (({ p with sem := { p.sem with waiters := (removeWaiterL m p.sem.waiters).2 } } : Pool).modReq m
      fun x => { x with mustCancel := false }) := by
    refine Afr.trans (q := ({ p with sem := { p.sem with waiters := (removeWaiterL m p.sem.waiters).2 } } : Pool)) ?_ ?_
    · afr_eq
    · exact afr_modReq _ _ _
  split
  · exact h0.trans (afr_roomWaitCancelled _ m r _)
  · split
    · exact h0.trans (afr_roomGranted _ m r)
    · exact h0

theorem afr_wakeWaitRoom (p : Pool) (m : Nat) (r : Req) : Afr X p (p.wakeWaitRoom m r) := by
  unfold wakeWaitRoom
  split
  · exact afr_wakeWaitRoomCore p m r
  · exact Afr.refl p

theorem afr_mapSemGranted (p : Pool) (m : Nat) (r : Req) : Afr X p (p.mapSemGranted m r) := by
  unfold mapSemGranted
  simp only
  have h0 : Afr X p (p.modReq m fun x => { x with acquired := true, frame := MFrame.running }) := by exact afr_modReq _ _ _
  have h1 := h0.trans (afr_mapStartTask _ m)
  split
  · exact h1.trans (afr_mapLoop m _ _)
  · exact h1

theorem afr_wakeWaitMapSemCore (p : Pool) (m : Nat) (r : Req) : Afr X p (p.wakeWaitMapSemCore m r) := by
  unfold wakeWaitMapSemCore
  simp only
  generalize (if ((removeWaiterL m r.mapSem.waiters).1 == some WaitSt.granted) = true then _ else _ : Sem × Option Nat) = s2
  have h0 : Afr X p ((p.modReq m fun x => { x with mapSem := s2.1, mustCancel := false }).schedOpt s2.2) :=
    Afr.trans (afr_modReq _ _ _) (afr_schedOpt _ _)
  split
  · exact h0.trans (afr_finishMeta _ m _)
  · split
    · exact h0.trans (afr_mapSemGranted _ m r)
    · exact h0

theorem afr_wakeWaitMapSem (p : Pool) (m : Nat) (r : Req) : Afr X p (p.wakeWaitMapSem m r) := by
  unfold wakeWaitMapSem
  split
  · exact afr_wakeWaitMapSemCore p m r
  · exact Afr.refl p

/-- the remainder of a spawner step, after the spawner's own flag was cleared -/
theorem afr_stepMeta_rest (p : Pool) (m : Nat) (r : Req) :
    Afr X p (match r.frame with
      | .done => p
      | .running => p
      | .notStarted => p.stepMetaNotStarted m r
      | .waitRoom => p.wakeWaitRoom m r
      | .waitMapSem => p.wakeWaitMapSem m r) := by
  split
  · exact Afr.refl p
  · exact Afr.refl p
  · exact afr_stepMetaNotStarted p m r
  · exact afr_wakeWaitRoom p m r
  · exact afr_wakeWaitMapSem p m r

theorem afr_stepMeta (p : Pool) (m : Nat) : Afr X p (p.stepMeta m) := by
  unfold stepMeta
  split
  · exact Afr.refl p
  · rename_i r hr
    split
    · exact Afr.refl p
    · simp only
      exact Afr.trans (afr_modReq _ _ _) (afr_stepMeta_rest _ m r)

/-! ### the synchronous operations -/

theorem afr_doGate (p : Pool) (t : Nat) (o : FutSt) : Afr X p (p.doGate t o).1 := by
  unfold doGate
  split
  · exact Afr.trans (afr_modTask _ _ _) (afr_schedTask _ _)
  · exact Afr.refl p

theorem afr_doLock (p : Pool) : Afr X p p.doLock := by unfold doLock; afr_eq
theorem afr_doUnlock (p : Pool) : Afr X p p.doUnlock := by unfold doUnlock; afr_eq

/-! ### gather -/

theorem afr_modGather (p : Pool) (g : Nat) (f : Gather → Gather) (ho : ∀ G, (f G).owner = G.owner)
    (hc : ∀ G, (f G).children = G.children) (hx : X g ∨ ∀ G, (f G).outer = G.outer) : Afr X p (p.modGather g f) := by
  refine ⟨rfl, ?_, rfl, rfl, Nat.le_refl _, Nat.le_refl _, id, id⟩
  intro j
  simp only [modGather, List.getElem?_modify]
  cases h : p.gathers[j]? with
  | none => left; simp
  | some G =>
    right
    by_cases e : g = j
    · subst e
      refine ⟨G, f G, rfl, by simp, ho G, hc G, ?_⟩
      intro hn
      rcases hx with hx | hx
      · exact absurd hx hn
      · exact hx G
    · exact ⟨G, G, rfl, by simp [e], rfl, rfl, fun _ => rfl⟩

/-- the callback of a child that was already done when the gather was made: only that gather changes -/
theorem afr_gatherChildDone (p : Pool) (g i : Nat) : Afr (· = g) p (p.gatherChildDone g i false) := by
  unfold gatherChildDone
  split
  · exact Afr.refl p
  · split
    · exact Afr.refl p
    · simp only
      have h1 : Afr (· = g) p (p.modGather g fun x => { x with nfinished := x.nfinished + 1 }) :=
        afr_modGather p g _ (fun _ => rfl) (fun _ => rfl) (Or.inl rfl)
      split
      · exact h1
      · split
        · exact h1
        · split
          · exact h1
          · simp only [Bool.false_eq_true, if_false]
            exact h1.trans (afr_modGather _ g _ (fun _ => rfl) (fun _ => rfl) (Or.inl rfl))

theorem afr_registerChild (p : Pool) (c : Child) (g i : Nat) : Afr X p (p.registerChild c g i) := by
  unfold registerChild
  split
  · exact afr_modTask _ _ _
  · exact afr_modReq _ _ _

theorem afr_gatherScan (g : Nat) (cs : List Child) (i : Nat) (p : Pool) : Afr (· = g) p (gatherScan g cs i p) := by
  induction cs generalizing i p with
  | nil => unfold gatherScan; exact Afr.refl p
  | cons c cs ih =>
    unfold gatherScan
    refine Afr.trans ?_ (ih _ _)
    split
    · exact afr_gatherChildDone p g i
    · exact afr_registerChild p c g i

/-! ### raising flags, the exempt call -/

/-- flags may be raised; the calls in `Fl` are flagged afterwards (whoever waited on a gather in `X` or was in the list
of waiters of the closing event and is no longer is among them) -/
theorem ApiOK.raise {p q : Pool} (Fl : Nat → Prop) (h : ApiOK E p)
    (hapi : ∀ (b : Nat) (B : Api), q.apis[b]? = some B → ∃ A, p.apis[b]? = some A ∧ B.kind = A.kind ∧ B.frame = A.frame ∧
      B.outcome = A.outcome ∧ (A.sched = true → B.sched = true) ∧ (Fl b → B.sched = true))
    (hga : ∀ j, (p.gathers[j]? = none ∧ q.gathers[j]? = none) ∨
        ∃ G G', p.gathers[j]? = some G ∧ q.gathers[j]? = some G' ∧ G'.owner = G.owner ∧ G'.children = G.children ∧
          (¬ X j → G'.outer = G.outer))
    (hcw : ∀ a, a ∈ p.closedWaiters → a ∈ q.closedWaiters ∨ Fl a)
    (hcl : q.closed = true → q.closedWaiters = [])
    (htl : p.tasks.length ≤ q.tasks.length) (hrl : p.reqs.length ≤ q.reqs.length) (hrg : q.RegIn) (hmc : q.McIn)
    (hx : ∀ (a : Nat) (A : Api) (g : Nat), p.apis[a]? = some A → ¬ E a → (A.frame = .gather1 g ∨ A.frame = .gather2 g) →
      X g → Fl a) : ApiOK E q := by
  refine ⟨?_, ?_, ?_, ?_, ?_, hcl, hrg, hmc, ?_⟩
  · intro a B hB hE hf
    obtain ⟨A, hA, _, e2, _, e4, _⟩ := hapi a B hB
    exact e4 (h.ns a A hA hE (e2 ▸ hf))
  · intro a B hB hE
    obtain ⟨A, hA, _, e2, e3, _, _⟩ := hapi a B hB
    rw [e2, e3]; exact h.dn a A hA hE
  · intro a B g hB hE hf
    obtain ⟨A, hA, _, e2, _, e4, e5⟩ := hapi a B hB
    rw [e2] at hf
    obtain ⟨G, hG, ho, hs⟩ := h.gw a A g hA hE hf
    rcases hga g with ⟨a', _⟩ | ⟨G0, G', a', b', c', d', e'⟩
    · rw [hG] at a'; cases a'
    · rw [hG] at a'; cases a'
      refine ⟨G', b', c'.trans ho, ?_⟩
      intro hs'
      by_cases hX : X g
      · exact e5 (hx a A g hA hE hf hX)
      · rw [e' hX] at hs'; exact e4 (hs hs')
  · intro a B g hB hE hf
    obtain ⟨A, hA, e1, e2, _⟩ := hapi a B hB
    rw [e1]; exact h.kd a A g hA hE (e2 ▸ hf)
  · intro a B hB hE hf
    obtain ⟨A, hA, _, e2, _, e4, e5⟩ := hapi a B hB
    rcases h.cw a A hA hE (e2 ▸ hf) with hw | hw
    · rcases hcw a hw with hw' | hw'
      · exact Or.inl hw'
      · exact Or.inr (e5 hw')
    · exact Or.inr (e4 hw)
  · intro g G' hG' c hc
    rcases hga g with ⟨_, b'⟩ | ⟨G0, G1, a', b', c', d', e'⟩
    · rw [hG'] at b'; cases b'
    · rw [hG'] at b'; cases b'
      rw [d'] at hc
      exact childExists_mono htl hrl c (h.ch g G0 a' c hc)

theorem ga_refl (p : Pool) : ∀ j, (p.gathers[j]? = none ∧ p.gathers[j]? = none) ∨
    ∃ G G', p.gathers[j]? = some G ∧ p.gathers[j]? = some G' ∧ G'.owner = G.owner ∧ G'.children = G.children ∧
      (¬ X j → G'.outer = G.outer) := (Afr.refl (X := X) p).ga

/-- exempting more calls -/
theorem ApiOK.weaken {E' : Nat → Prop} {p : Pool} (h : ApiOK E p) (hE : ∀ a, ¬ E' a → ¬ E a) : ApiOK E' p :=
  ⟨fun a A hA e => h.ns a A hA (hE a e), fun a A hA e => h.dn a A hA (hE a e), fun a A g hA e => h.gw a A g hA (hE a e),
   fun a A g hA e => h.kd a A g hA (hE a e), fun a A hA e => h.cw a A hA (hE a e), h.cl, h.rg, h.mc, h.ch⟩

theorem getElem?_modify_ne {α} (l : List α) (a b : Nat) (f : α → α) (hne : ¬ b = a) : (l.modify a f)[b]? = l[b]? := by
  rw [List.getElem?_modify]
  have : ¬ a = b := fun e => hne e.symm
  simp [this]

/-- the record of the exempt call may be rewritten freely -/
theorem ApiOK.modApi_self {p : Pool} {a : Nat} (h : ApiOK (· = a) p) (f : Api → Api) : ApiOK (· = a) (p.modApi a f) := by
  refine ⟨?_, ?_, ?_, ?_, ?_, h.cl, h.rg, h.mc, h.ch⟩
  · intro b B hB hE
    simp only [modApi, getElem?_modify_ne _ _ _ _ hE] at hB
    exact h.ns b B hB hE
  · intro b B hB hE
    simp only [modApi, getElem?_modify_ne _ _ _ _ hE] at hB
    exact h.dn b B hB hE
  · intro b B g hB hE
    simp only [modApi, getElem?_modify_ne _ _ _ _ hE] at hB
    exact h.gw b B g hB hE
  · intro b B g hB hE
    simp only [modApi, getElem?_modify_ne _ _ _ _ hE] at hB
    exact h.kd b B g hB hE
  · intro b B hB hE
    simp only [modApi, getElem?_modify_ne _ _ _ _ hE] at hB
    exact h.cw b B hB hE

/-- what the record of a call must satisfy when its step is over -/
def ClosedAt (p : Pool) (a : Nat) (A : Api) : Prop :=
  (A.frame = .notStarted → A.sched = true) ∧ (A.outcome.isSome = true ↔ A.frame = .done) ∧
  (∀ g, (A.frame = .gather1 g ∨ A.frame = .gather2 g) →
    (∃ G : Gather, p.gathers[g]? = some G ∧ G.owner = a ∧ (G.outer.isSome = true → A.sched = true)) ∧ A.kind ≠ .untilClosed) ∧
  (A.frame = .waitClosed → a ∈ p.closedWaiters ∨ A.sched = true)

/-- the end of the exemption -/
theorem ApiOK.close {p : Pool} {a : Nat} (h : ApiOK (· = a) p) (hA : ∀ A, p.apis[a]? = some A → ClosedAt p a A) :
    ApiWant p := by
  refine ⟨?_, ?_, ?_, ?_, ?_, h.cl, h.rg, h.mc, h.ch⟩
  · intro b B hB _
    by_cases e : b = a
    · subst e; exact (hA B hB).1
    · exact h.ns b B hB e
  · intro b B hB _
    by_cases e : b = a
    · subst e; exact (hA B hB).2.1
    · exact h.dn b B hB e
  · intro b B g hB _ hf
    by_cases e : b = a
    · subst e; exact ((hA B hB).2.2.1 g hf).1
    · exact h.gw b B g hB e hf
  · intro b B g hB _ hf
    by_cases e : b = a
    · subst e; exact ((hA B hB).2.2.1 g hf).2
    · exact h.kd b B g hB e hf
  · intro b B hB _
    by_cases e : b = a
    · subst e; exact (hA B hB).2.2.2
    · exact h.cw b B hB e

theorem getElem?_modify_self {α} {l : List α} {a : Nat} {f : α → α} {y : α} (h : (l.modify a f)[a]? = some y) :
    ∃ x, l[a]? = some x ∧ y = f x := by
  rw [List.getElem?_modify] at h
  simp only [if_true] at h
  cases hx : l[a]? with
  | none => simp [hx] at h
  | some x => simp [hx] at h; exact ⟨x, rfl, h.symm⟩

theorem api_finishApi {p : Pool} {a : Nat} (h : ApiOK (· = a) p) (o : Outcome) : ApiWant (p.finishApi a o) := by
  unfold finishApi
  refine (h.modApi_self _).close ?_
  intro A hA
  obtain ⟨x, _, rfl⟩ := getElem?_modify_self hA
  simp [ClosedAt]

/-! ### gather, with respect to the invariant -/

/-- the callback of a child, run from its handle: the owner of a gather that completes is flagged -/
theorem api_gatherChildDone {p : Pool} (h : ApiOK E p) (g i : Nat) : ApiOK E (p.gatherChildDone g i true) := by
  unfold gatherChildDone
  split
  · exact h
  · rename_i G hG
    split
    · exact h
    · simp only
      have h1 : ∀ Y : Nat → Prop, Afr Y p (p.modGather g fun x => { x with nfinished := x.nfinished + 1 }) :=
        fun Y => afr_modGather p g _ (fun _ => rfl) (fun _ => rfl) (Or.inr fun _ => rfl)
      split
      · exact h.afr0 (h1 _)
      · split
        · exact h.afr0 (h1 _)
        · split
          · exact h.afr0 (h1 _)
          · rename_i o _ _
            simp only [if_true]
            have h2 : Afr (· = g) p ((p.modGather g fun x => { x with nfinished := x.nfinished + 1 }).modGather g
                fun x => { x with outer := some o }) :=
              (h1 _).trans (afr_modGather _ g _ (fun _ => rfl) (fun _ => rfl) (Or.inl rfl))
            refine h.raise (X := (· = g)) (· = G.owner) ?_ h2.ga (fun a ha => Or.inl ha) h.cl (Nat.le_refl _) (Nat.le_refl _)
              h.rg h.mc ?_
            · intro b B hB
              simp only [schedApi, emitRef, modApi, modGather] at hB
              by_cases e : b = G.owner
              · subst e
                obtain ⟨x, hx, rfl⟩ := getElem?_modify_self hB
                exact ⟨x, hx, rfl, rfl, rfl, fun _ => rfl, fun _ => rfl⟩
              · rw [getElem?_modify_ne _ _ _ _ e] at hB
                exact ⟨B, hB, rfl, rfl, rfl, id, fun e' => absurd e' e⟩
            · intro a A g' hA hE hf hX
              obtain ⟨G', hG', ho, _⟩ := h.gw a A g' hA hE hf
              subst hX
              rw [hG] at hG'; cases hG'
              exact ho.symm

theorem ch_tasks (p : Pool) (l : List Nat) (hl : ∀ t ∈ l, t < p.tasks.length) : ∀ c ∈ l.map Child.task, p.childExists c := by
  intro c hc
  simp only [List.mem_map] at hc
  obtain ⟨t, ht, rfl⟩ := hc
  exact hl t ht

theorem ch_spawners (p : Pool) (l : List Nat) (hl : ∀ m ∈ l, m < p.reqs.length) :
    ∀ c ∈ l.map Child.spawner, p.childExists c := by
  intro c hc
  simp only [List.mem_map] at hc
  obtain ⟨m, hm, rfl⟩ := hc
  exact hl m hm

theorem ch_append (p : Pool) (l1 l2 : List Child) (h1 : ∀ c ∈ l1, p.childExists c) (h2 : ∀ c ∈ l2, p.childExists c) :
    ∀ c ∈ l1 ++ l2, p.childExists c := by
  intro c hc
  rcases List.mem_append.mp hc with hc | hc
  · exact h1 c hc
  · exact h2 c hc

theorem api_gatherStart_aux {p : Pool} (h : ApiOK E p) (G0 : Gather) (amb : Bool) (cs : List Child)
    (hc : ∀ c ∈ G0.children, p.childExists c) :
    ApiOK E (gatherScan p.gathers.length cs 0 ({ p with gathers := p.gathers ++ [G0], ambiguous := amb } : Pool)) ∧
    (gatherScan p.gathers.length cs 0 ({ p with gathers := p.gathers ++ [G0], ambiguous := amb } : Pool)).apis = p.apis ∧
    ∃ G, (gatherScan p.gathers.length cs 0 ({ p with gathers := p.gathers ++ [G0], ambiguous := amb } : Pool)).gathers[p.gathers.length]? = some G ∧
      G.owner = G0.owner := by
  have h0 : ApiOK E ({ p with gathers := p.gathers ++ [G0], ambiguous := amb } : Pool) := by
    refine ⟨h.ns, h.dn, ?_, h.kd, h.cw, h.cl, h.rg, h.mc, ?_⟩
    · intro a A g hA hE hf
      obtain ⟨G, hG, r⟩ := h.gw a A g hA hE hf
      refine ⟨G, ?_, r⟩
      have hlt : g < p.gathers.length := by
        rcases Nat.lt_or_ge g p.gathers.length with hl | hl
        · exact hl
        · rw [List.getElem?_eq_none hl] at hG; cases hG
      simp only [List.getElem?_append_left hlt]
      exact hG
    · intro g G hG c hcc
      simp only at hG
      rcases Nat.lt_or_ge g p.gathers.length with hl | hl
      · rw [List.getElem?_append_left hl] at hG
        exact h.ch g G hG c hcc
      · rw [List.getElem?_append_right hl] at hG
        cases hi : g - p.gathers.length with
        | zero =>
          rw [hi] at hG
          simp only [List.getElem?_cons_zero, Option.some.injEq] at hG
          subst hG
          exact hc c hcc
        | succ k => rw [hi] at hG; simp at hG
  have hs := afr_gatherScan p.gathers.length cs 0 ({ p with gathers := p.gathers ++ [G0], ambiguous := amb } : Pool)
  refine ⟨h0.afr hs ?_, hs.apis, ?_⟩
  · intro a A g hA hE hf hX
    obtain ⟨G, hG, _⟩ := h.gw a A g hA hE hf
    subst hX
    rw [List.getElem?_eq_none (Nat.le_refl _)] at hG
    cases hG
  · rcases hs.ga p.gathers.length with ⟨a', _⟩ | ⟨G, G', a', b', c', _⟩
    · simp at a'
    · simp only [List.getElem?_append_right (Nat.le_refl _), Nat.sub_self, List.getElem?_cons_zero, Option.some.injEq] at a'
      subst a'
      exact ⟨G', b', c'⟩

/-- a new gather over existing children, whoever is exempt: nobody that counts waits on it yet -/
theorem api_gatherStart {p : Pool} (h : ApiOK E p) (children : List Child) (re : Bool) (owner n : Nat)
    (hc : ∀ c ∈ children, p.childExists c) :
    ApiOK E (p.gatherStart children re owner n).1 ∧ (p.gatherStart children re owner n).1.apis = p.apis ∧
    ∃ G, (p.gatherStart children re owner n).1.gathers[(p.gatherStart children re owner n).2]? = some G ∧ G.owner = owner := by
  unfold gatherStart
  simp only
  exact api_gatherStart_aux h
    ({ children := children, nfinished := 0, owner := owner, retExc := re, outer := (if children.isEmpty then some .ok else none) } : Gather)
    _ children hc

/-! ### the stages of a background call, the call itself exempt -/

/-- the running call has no outcome yet and is a `flush` or a `gather_and_close` -/
def Own (p : Pool) (a : Nat) : Prop := ∀ A, p.apis[a]? = some A → A.outcome = none ∧ A.kind ≠ .untilClosed

theorem Own.modApi {p : Pool} {a : Nat} (h : Own p a) (f : Api → Api) (hf : ∀ x, (f x).outcome = x.outcome ∧ (f x).kind = x.kind) :
    Own (p.modApi a f) a := by
  intro A hA
  obtain ⟨x, hx, rfl⟩ := getElem?_modify_self hA
  rw [(hf x).1, (hf x).2]
  exact h x hx

theorem Own.of_eq {p q : Pool} {a : Nat} (h : Own p a) (he : q.apis = p.apis) : Own q a := by
  intro A hA; rw [he] at hA; exact h A hA

/-- the call suspends on a gather it has just made and that has not completed -/
theorem api_setFrame {p : Pool} {a : Nat} (h : ApiOK (· = a) p) (own : Own p a) (g : Nat) (fr : AFrame)
    (hfr : fr = .gather1 g ∨ fr = .gather2 g) (hG : ∃ G, p.gathers[g]? = some G ∧ G.owner = a)
    (ho : p.gatherOuter g = none) : ApiWant (p.modApi a fun x => { x with frame := fr }) := by
  refine (h.modApi_self _).close ?_
  intro A hA
  obtain ⟨x, hx, rfl⟩ := getElem?_modify_self hA
  obtain ⟨G, hG, hGo⟩ := hG
  have hno : G.outer = none := by simpa [gatherOuter, hG] using ho
  have hx1 := (own x hx).1
  have hx2 := (own x hx).2
  refine ⟨?_, ?_, ?_, ?_⟩
  · intro hf; rcases hfr with rfl | rfl <;> cases hf
  · simp only [hx1]
    constructor
    · intro hh; cases hh
    · intro hf; rcases hfr with rfl | rfl <;> cases hf
  · intro g' hf
    have : g' = g := by
      rcases hfr with rfl | rfl <;> rcases hf with hf | hf <;> cases hf <;> rfl
    subst this
    refine ⟨⟨G, hG, hGo, ?_⟩, hx2⟩
    intro hs; rw [hno] at hs; cases hs
  · intro hf; rcases hfr with rfl | rfl <;> cases hf

/-- what every stage does after having made a gather: go on if it is complete already, else suspend on it -/
theorem api_afterGather {p : Pool} {a : Nat} (h : ApiOK (· = a) p) (own : Own p a) (children : List Child) (re : Bool) (n : Nat)
    (hc : ∀ c ∈ children, p.childExists c) :
    ApiOK (· = a) (p.gatherStart children re a n).1 ∧ Own (p.gatherStart children re a n).1 a ∧
    ((p.gatherStart children re a n).1.gatherOuter (p.gatherStart children re a n).2 = none → ∀ fr : AFrame,
      (fr = .gather1 (p.gatherStart children re a n).2 ∨ fr = .gather2 (p.gatherStart children re a n).2) →
      ApiWant ((p.gatherStart children re a n).1.modApi a fun x => { x with frame := fr })) := by
  obtain ⟨h1, h2, h3⟩ := api_gatherStart h children re a n hc
  exact ⟨h1, own.of_eq h2, fun ho fr hfr => api_setFrame h1 (own.of_eq h2) _ fr hfr h3 ho⟩

theorem api_flushAfter2 {p : Pool} {a : Nat} (h : ApiOK (· = a) p) (o : Outcome) : ApiWant (p.flushAfter2 a o) := by
  unfold flushAfter2
  split
  · simp only
    apply api_finishApi
    refine h.afr0 (afr_of' _ _ rfl rfl rfl rfl (Nat.le_refl _) (Nat.le_refl _) ?_ id)
    intro hr x hx
    simp only [List.mem_filter] at hx
    rcases hx with hx | hx | hx
    · exact hr x (Or.inl hx)
    · exact hr x (Or.inr (Or.inl hx.1))
    · exact hr x (Or.inr (Or.inr hx.1))
  · exact api_finishApi h _

theorem api_flushAfter1 {p : Pool} {a : Nat} (h : ApiOK (· = a) p) (own : Own p a) (re : Bool) (o : Outcome) :
    ApiWant (p.flushAfter1 a re o) := by
  unfold flushAfter1
  split
  · exact api_finishApi h _
  · simp only
    have h1 : ApiOK (· = a) ({ p with metaCancelled := [], reqs := p.reqs.map fun (r : Req) => { r with inCancelled := false } } : Pool) :=
      h.afr0 (afr_of' _ _ rfl rfl rfl rfl (Nat.le_refl _) (by simp) id (fun _ m hm => by cases hm))
    have H := api_afterGather (h1.modApi_self fun x => { x with snapE := p.ended, snapC := p.cancelledR })
      (Own.modApi (p := ({ p with metaCancelled := [], reqs := p.reqs.map fun (r : Req) => { r with inCancelled := false } } : Pool))
        own _ (fun _ => ⟨rfl, rfl⟩))
      (p.ended.map Child.task ++ p.cancelledR.map Child.task) re 0
      (ch_append _ _ _ (ch_tasks _ _ fun t ht => h.rg t (Or.inr (Or.inr ht))) (ch_tasks _ _ fun t ht => h.rg t (Or.inr (Or.inl ht))))
    split
    · exact api_flushAfter2 H.1 _
    · rename_i ho
      exact H.2.2 ho _ (Or.inr rfl)

theorem api_flushStage1 {p : Pool} {a : Nat} (h : ApiOK (· = a) p) (own : Own p a) (re : Bool) :
    ApiWant (p.flushStage1 a re) := by
  unfold flushStage1
  simp only
  have h1 : ApiOK (· = a) ({ p with reqs := p.reqs.map fun (r : Req) => if r.inRunning && r.outcome.isSome then { r with inRunning := false } else r } : Pool) :=
    h.afr0 (by afr_eq)
  have H := api_afterGather h1 own
    (p.metaCancelled.map Child.spawner ++ (indicesWhere p.reqs fun r => r.inRunning && r.outcome.isSome).map Child.spawner) re
    (p.metaCancelled.map Child.spawner ++ (indicesWhere p.reqs fun r => r.inRunning && r.outcome.isSome).map Child.spawner).length
    (ch_append _ _ _ (ch_spawners _ _ fun m hm => by simpa using h.mc m hm)
      (ch_spawners _ _ fun m hm => by simpa using indicesWhere_lt _ _ m hm))
  split
  · exact api_flushAfter1 H.1 H.2.1 _ _
  · rename_i ho
    exact H.2.2 ho _ (Or.inl rfl)

theorem foldl_schedApi (ws : List Nat) (p : Pool) :
    (ws.foldl (fun p w => p.schedApi w) p).gathers = p.gathers ∧
    (ws.foldl (fun p w => p.schedApi w) p).closedWaiters = p.closedWaiters ∧
    (ws.foldl (fun p w => p.schedApi w) p).closed = p.closed ∧
    (ws.foldl (fun p w => p.schedApi w) p).tasks = p.tasks ∧
    (ws.foldl (fun p w => p.schedApi w) p).reqs = p.reqs ∧
    (ws.foldl (fun p w => p.schedApi w) p).running = p.running ∧
    (ws.foldl (fun p w => p.schedApi w) p).cancelledR = p.cancelledR ∧
    (ws.foldl (fun p w => p.schedApi w) p).ended = p.ended ∧
    (ws.foldl (fun p w => p.schedApi w) p).metaCancelled = p.metaCancelled ∧
    ∀ (b : Nat) (B : Api), (ws.foldl (fun p w => p.schedApi w) p).apis[b]? = some B →
      ∃ A, p.apis[b]? = some A ∧ B.kind = A.kind ∧ B.frame = A.frame ∧ B.outcome = A.outcome ∧
        (A.sched = true → B.sched = true) ∧ (b ∈ ws → B.sched = true) := by
  induction ws generalizing p with
  | nil => exact ⟨rfl, rfl, rfl, rfl, rfl, rfl, rfl, rfl, rfl, fun b B hB => ⟨B, hB, rfl, rfl, rfl, id, fun h => nomatch h⟩⟩
  | cons w ws ih =>
    obtain ⟨e1, e2, e3, e4, e5, e6, e7, e8, e9, hap⟩ := ih (p.schedApi w)
    refine ⟨e1, e2, e3, e4, e5, e6, e7, e8, e9, ?_⟩
    intro b B hB
    obtain ⟨A1, hA1, k1, k2, k3, k4, k5⟩ := hap b B hB
    simp only [schedApi, emitRef, modApi] at hA1
    by_cases e : b = w
    · subst e
      obtain ⟨x, hx, rfl⟩ := getElem?_modify_self hA1
      exact ⟨x, hx, k1, k2, k3, fun _ => k4 rfl, fun _ => k4 rfl⟩
    · rw [getElem?_modify_ne _ _ _ _ e] at hA1
      refine ⟨A1, hA1, k1, k2, k3, k4, ?_⟩
      intro hm
      rcases List.mem_cons.mp hm with hm | hm
      · exact absurd hm e
      · exact k5 hm

theorem api_gacAfter2 {p : Pool} {a : Nat} (h : ApiOK (· = a) p) (o : Outcome) : ApiWant (p.gacAfter2 a o) := by
  unfold gacAfter2
  split
  · simp only
    apply api_finishApi
    obtain ⟨e1, e2, e3, e4, e5, e6, e7, e8, e9, hap⟩ := foldl_schedApi p.closedWaiters
      ({ p with ended := [], cancelledR := [], running := [], closed := true, closedWaiters := [],
                lost := p.lost || (p.running ++ p.cancelledR).any p.heldB } : Pool)
    refine h.raise (X := fun _ => False) (· ∈ p.closedWaiters) hap ?_ (fun a ha => Or.inr ha) (fun _ => e2)
      (by rw [e4]; exact Nat.le_refl _) (by rw [e5]; exact Nat.le_refl _) ?_ ?_ (fun _ _ _ _ _ _ hX => hX.elim)
    · rw [e1]; exact ga_refl p
    · intro t ht
      rw [e6, e7, e8] at ht
      rcases ht with ht | ht | ht <;> cases ht
    · intro m hm
      rw [e9] at hm; rw [e5]
      exact h.mc m hm
  · exact api_finishApi h _

theorem api_gacAfter1 {p : Pool} {a : Nat} (h : ApiOK (· = a) p) (own : Own p a) (re : Bool) (g : Nat) :
    ApiWant (p.gacAfter1 a re g) := by
  unfold gacAfter1
  simp only
  split
  · exact api_finishApi h _
  · have h1 : ApiOK (· = a) ({ p with metaCancelled := [], reqs := p.reqs.map fun (r : Req) => { r with inCancelled := false, inRunning := false } } : Pool) :=
      h.afr0 (afr_of' _ _ rfl rfl rfl rfl (Nat.le_refl _) (by simp) id (fun _ m hm => by cases hm))
    have H := api_afterGather h1 own
      (p.ended.map Child.task ++ p.cancelledR.map Child.task ++ p.running.map Child.task) re 0
      (ch_append _ _ _ (ch_append _ _ _ (ch_tasks _ _ fun t ht => h.rg t (Or.inr (Or.inr ht)))
        (ch_tasks _ _ fun t ht => h.rg t (Or.inr (Or.inl ht)))) (ch_tasks _ _ fun t ht => h.rg t (Or.inl ht)))
    split
    · exact api_gacAfter2 H.1 _
    · rename_i ho
      exact H.2.2 ho _ (Or.inr rfl)

theorem api_gacStage1 {p : Pool} {a : Nat} (h : ApiOK (· = a) p) (own : Own p a) (re : Bool) :
    ApiWant (p.gacStage1 a re) := by
  unfold gacStage1
  simp only
  have h1 : ∀ amb : Bool, ApiOK (· = a) ({ p with locked := true, ambiguous := amb } : Pool) := fun amb => h.afr0 (by afr_eq)
  have H := fun amb => api_afterGather (h1 amb) own
    (p.metaCancelled.map Child.spawner ++ (indicesWhere p.reqs fun r => r.inRunning).map Child.spawner) true 0
    (ch_append _ _ _ (ch_spawners _ _ fun m hm => h.mc m hm) (ch_spawners _ _ fun m hm => indicesWhere_lt p.reqs _ m hm))
  split
  · exact api_gacAfter1 (H _).1 (H _).2.1 _ _
  · rename_i ho
    exact (H _).2.2 ho _ (Or.inl rfl)

theorem api_untilClosedStart {p : Pool} {a : Nat} (h : ApiOK (· = a) p) (hno : ∀ A, p.apis[a]? = some A → A.outcome = none) :
    ApiWant (p.untilClosedStart a) := by
  unfold untilClosedStart
  split
  · exact api_finishApi h _
  · rename_i hcl
    have h1 : ApiOK (· = a) ({ p with closedWaiters := p.closedWaiters ++ [a] } : Pool) :=
      ⟨h.ns, h.dn, h.gw, h.kd, fun b B hB hE hf => (h.cw b B hB hE hf).imp (fun hm => List.mem_append_left _ hm) id,
       fun hc => absurd hc hcl, h.rg, h.mc, h.ch⟩
    refine (h1.modApi_self _).close ?_
    intro A hA
    obtain ⟨x, hx, rfl⟩ := getElem?_modify_self hA
    refine ⟨?_, ?_, ?_, ?_⟩
    · intro hf; cases hf
    · simp only [hno x hx]
      constructor
      · intro hh; cases hh
      · intro hf; cases hf
    · intro g hf; rcases hf with hf | hf <;> cases hf
    · intro _; exact Or.inl (List.mem_append_right _ (List.mem_singleton.mpr rfl))

/-! ### one step of a background call -/

/-- the remainder of a step of a background call, after its own flag was cleared (`A` is its record then) -/
theorem api_stepApi_rest {p : Pool} {a : Nat} {A : Api} (h : ApiOK (· = a) p) (hA : p.apis[a]? = some A)
    (hdn : A.outcome.isSome = true ↔ A.frame = .done)
    (hgw : ∀ g, (A.frame = .gather1 g ∨ A.frame = .gather2 g) → (∃ G : Gather, p.gathers[g]? = some G ∧ G.owner = a) ∧ A.kind ≠ .untilClosed) :
    ApiWant (match A.frame, A.kind with
      | .done, _ => p
      | .notStarted, .flush re => p.flushStage1 a re
      | .notStarted, .gac re => p.gacStage1 a re
      | .notStarted, .untilClosed => p.untilClosedStart a
      | .waitClosed, _ => p.finishApi a .ok
      | .gather1 g, .flush re => match p.gatherOuter g with | some o => p.flushAfter1 a re o | none => p
      | .gather1 g, .gac re => match p.gatherOuter g with | some _ => p.gacAfter1 a re g | none => p
      | .gather2 g, .flush _ => match p.gatherOuter g with | some o => p.flushAfter2 a o | none => p
      | .gather2 g, .gac _ => match p.gatherOuter g with | some o => p.gacAfter2 a o | none => p
      | _, _ => p) := by
  have hno : A.frame ≠ .done → ∀ B, p.apis[a]? = some B → B.outcome = none := by
    intro hf B hB
    rw [hA] at hB; cases hB
    cases ho : A.outcome with
    | none => rfl
    | some o => exact absurd (hdn.mp (by simp [ho])) hf
  have own : A.frame ≠ .done → A.kind ≠ .untilClosed → Own p a := by
    intro hf hk B hB
    refine ⟨hno hf B hB, ?_⟩
    rw [hA] at hB; cases hB; exact hk
  -- the call stays suspended on its gather, whose outer future has not completed
  have stay : ∀ g, (A.frame = .gather1 g ∨ A.frame = .gather2 g) → p.gatherOuter g = none → ApiWant p := by
    intro g hf ho
    refine h.close ?_
    intro B hB
    rw [hA] at hB; cases hB
    obtain ⟨⟨G, hG, hGo⟩, hk⟩ := hgw g hf
    have hnone : G.outer = none := by simpa [gatherOuter, hG] using ho
    refine ⟨?_, hdn, ?_, ?_⟩
    · intro hn; rcases hf with hf | hf <;> rw [hf] at hn <;> cases hn
    · intro g' hf'
      have : g' = g := by
        rcases hf with hf | hf <;> rcases hf' with hf' | hf' <;> rw [hf] at hf' <;> cases hf' <;> rfl
      subst this
      refine ⟨⟨G, hG, hGo, ?_⟩, hk⟩
      intro hs; rw [hnone] at hs; cases hs
    · intro hn; rcases hf with hf | hf <;> rw [hf] at hn <;> cases hn
  split
  · rename_i hf
    refine h.close ?_
    intro B hB
    rw [hA] at hB; cases hB
    refine ⟨?_, hdn, ?_, ?_⟩
    · intro hn; rw [hf] at hn; cases hn
    · intro g hg; rcases hg with hg | hg <;> rw [hf] at hg <;> cases hg
    · intro hn; rw [hf] at hn; cases hn
  · rename_i re hf hk
    exact api_flushStage1 h (own (by rw [hf]; intro e; cases e) (by rw [hk]; intro e; cases e)) re
  · rename_i re hf hk
    exact api_gacStage1 h (own (by rw [hf]; intro e; cases e) (by rw [hk]; intro e; cases e)) re
  · rename_i hf hk
    exact api_untilClosedStart h (hno (by rw [hf]; intro e; cases e))
  · exact api_finishApi h _
  · rename_i g re hf hk
    split
    · exact api_flushAfter1 h (own (by rw [hf]; intro e; cases e) (by rw [hk]; intro e; cases e)) re _
    · rename_i ho; exact stay g (Or.inl hf) ho
  · rename_i g re hf hk
    split
    · exact api_gacAfter1 h (own (by rw [hf]; intro e; cases e) (by rw [hk]; intro e; cases e)) re _
    · rename_i ho; exact stay g (Or.inl hf) ho
  · rename_i g re hf hk
    split
    · exact api_flushAfter2 h _
    · rename_i ho; exact stay g (Or.inr hf) ho
  · rename_i g re hf hk
    split
    · exact api_gacAfter2 h _
    · rename_i ho; exact stay g (Or.inr hf) ho
  · -- a frame/kind pair from which nothing is resumed: by `kd` there is none
    rename_i n1 n2 n3 n4 n5 n6 n7 n8 n9
    exfalso
    cases hf : A.frame with
    | done => exact n1 hf
    | waitClosed => exact n2 hf
    | notStarted =>
      cases hk : A.kind with
      | flush re => exact n3 re hf hk
      | gac re => exact n4 re hf hk
      | untilClosed => exact n5 hf hk
    | gather1 g =>
      cases hk : A.kind with
      | flush re => exact n6 g re hf hk
      | gac re => exact n7 g re hf hk
      | untilClosed => exact (hgw g (Or.inl hf)).2 hk
    | gather2 g =>
      cases hk : A.kind with
      | flush re => exact n8 g re hf hk
      | gac re => exact n9 g re hf hk
      | untilClosed => exact (hgw g (Or.inr hf)).2 hk

theorem api_stepApi {p : Pool} (h : ApiWant p) (a : Nat) : ApiWant (p.stepApi a) := by
  unfold stepApi
  split
  · exact h
  · rename_i A hA
    split
    · exact h
    · simp only
      have h1 : ApiOK (· = a) (p.modApi a fun x => { x with sched := false }) :=
        (h.weaken (E' := (· = a)) fun _ _ => id).modApi_self _
      have hA1 : (p.modApi a fun x => { x with sched := false }).apis[a]? = some { A with sched := false } := by
        simp [modApi, hA]
      exact api_stepApi_rest (A := { A with sched := false }) h1 hA1 (h.dn a A hA id)
        (fun g hf => by
          obtain ⟨G, hG, ho, _⟩ := h.gw a A g hA id hf
          exact ⟨⟨G, hG, ho⟩, h.kd a A g hA id hf⟩)

/-! ### every handle, every operation -/

theorem api_runRef {p : Pool} (h : ApiWant p) (r : Ref) : ApiWant (p.runRef r) := by
  cases r with
  | task t => exact h.afr0 (afr_stepTask p t)
  | spawner m => exact h.afr0 (afr_stepMeta p m)
  | api a => exact api_stepApi h a
  | gchild g i => exact api_gatherChildDone h g i

/-- a new background call is flagged -/
theorem api_addApi {p : Pool} (h : ApiOK E p) (k : ApiKind) : ApiOK E (p.addApi k) := by
  unfold addApi
  simp only
  have key : ∀ (b : Nat) (B : Api),
      (p.apis ++ [({ kind := k, frame := .notStarted, sched := true, outcome := none } : Api)])[b]? = some B →
      p.apis[b]? = some B ∨ B = ({ kind := k, frame := .notStarted, sched := true, outcome := none } : Api) := by
    intro b B hB
    rcases Nat.lt_or_ge b p.apis.length with hl | hl
    · rw [List.getElem?_append_left hl] at hB; exact Or.inl hB
    · rw [List.getElem?_append_right hl] at hB
      cases hi : b - p.apis.length with
      | zero => rw [hi] at hB; simp at hB; exact Or.inr hB.symm
      | succ n => rw [hi] at hB; simp at hB
  refine ⟨?_, ?_, ?_, ?_, ?_, h.cl, h.rg, h.mc, h.ch⟩
  · intro b B hB hE hf
    rcases key b B hB with hB | rfl
    · exact h.ns b B hB hE hf
    · rfl
  · intro b B hB hE
    rcases key b B hB with hB | rfl
    · exact h.dn b B hB hE
    · simp
  · intro b B g hB hE hf
    rcases key b B hB with hB | rfl
    · exact h.gw b B g hB hE hf
    · rcases hf with hf | hf <;> cases hf
  · intro b B g hB hE hf
    rcases key b B hB with hB | rfl
    · exact h.kd b B g hB hE hf
    · rcases hf with hf | hf <;> cases hf
  · intro b B hB hE hf
    rcases key b B hB with hB | rfl
    · exact h.cw b B hB hE hf
    · cases hf

theorem api_applyOp {p : Pool} (h : ApiOK E p) (op : Op) : ApiOK E (p.applyOp op).1 := by
  cases op <;> simp only [applyOp]
  · exact h.afr0 (afr_doApply p _ _ _)
  · exact h.afr0 (afr_doMap p _ _ _ _ _)
  · exact h.afr0 (afr_doStart p _)
  · exact h.afr0 (afr_doStop p _)
  · exact h.afr0 (afr_doStop p _)
  · exact h.afr0 (afr_doCancel p _)
  · exact h.afr0 (afr_doCancelGroup p _)
  · exact h.afr0 (afr_doCancelAll p)
  · exact h.afr0 (afr_doLock p)
  · exact h.afr0 (afr_doUnlock p)
  · exact h.afr0 (afr_doSetSize p _)
  · exact h
  · exact api_addApi h _
  · exact api_addApi h _
  · exact api_addApi h _
  · exact h.afr0 (afr_doGate p _ _)

end Pool

/-- **a background call that has something to do is flagged**, in every pool of every reachable world -/
theorem apiInvariant : PoolInvariant (fun _ p => Pool.ApiWant p) allOps where
  init := by
    intro c simple _
    refine ⟨?_, ?_, ?_, ?_, ?_, ?_, ?_, ?_, ?_⟩ <;> simp [Pool.init]
  op := by
    intro c p orders o _ h
    exact Pool.api_applyOp (h.afr0 (q := ({ p with orders := orders } : Pool)) (by afr_eq)) o
  run := by
    intro c p orders r h
    exact Pool.api_runRef (h.afr0 (q := ({ p with orders := orders } : Pool)) (by afr_eq)) r
  drain := by
    intro c p h
    exact h.afr0 (q := ({ p with emit := [] } : Pool)) (by afr_eq)

end Taskpool
