import Taskpool.Model.Control.Server
/-! Invariant of the server life cycle (C19). -/
namespace Taskpool.Control

/-- holds before `settle` has looked at the state -/
structure SrvPre (s : Srv) : Prop where
  running : s.stopRequested = false → s.listening = true ∧ s.serveDone = false ∧ s.socketFile = s.unix
  stopped : s.stopRequested = true → s.listening = false
  done_only : s.serveDone = true → s.stopRequested = true ∧ s.allGone = true
  file : s.serveDone = true → s.socketFile = false
  fileUnix : s.socketFile = true → s.unix = true

structure SrvInv (s : Srv) : Prop extends SrvPre s where
  done_if : s.stopRequested = true → s.allGone = true → s.serveDone = true

theorem srvInv_start (u : Bool) : SrvInv (Srv.start u) := by
  refine ⟨⟨?_, ?_, ?_, ?_, ?_⟩, ?_⟩ <;> simp [Srv.start]

theorem all_set_false : ∀ (l : List Bool) (i : Nat), l.all (fun c => !c) = true → (l.set i false).all (fun c => !c) = true
  | [], _, _ => by simp
  | a :: l, 0, h => by simp_all
  | a :: l, i + 1, h => by
    simp only [List.all_cons, Bool.and_eq_true] at h
    simp [List.set, h.1, all_set_false l i h.2]

theorem srvInv_settle {s : Srv} (h : SrvPre s) : SrvInv s.settle := by
  unfold Srv.settle
  by_cases hc : (s.stopRequested && s.allGone) = true
  · simp only [hc, if_true]
    simp only [Bool.and_eq_true] at hc
    refine ⟨⟨?_, ?_, ?_, ?_, ?_⟩, ?_⟩
    · intro h0; simp [hc.1] at h0
    · intro _; exact h.stopped hc.1
    · intro _; exact ⟨hc.1, hc.2⟩
    · intro _; rfl
    · intro h0; simp at h0
    · intro _ _; rfl
  · have hc' : (s.stopRequested && s.allGone) = false := by simpa using hc
    rw [hc']
    simp only [Bool.false_eq_true, if_false]
    refine ⟨h, ?_⟩
    intro h1 h2
    simp [h1, h2] at hc'

theorem srvPre_drop {s : Srv} (h : SrvPre s) (i : Nat) : SrvPre (s.drop i) := by
  refine ⟨h.running, h.stopped, ?_, h.file, h.fileUnix⟩
  intro hd
  have := h.done_only hd
  exact ⟨this.1, all_set_false _ i this.2⟩

theorem srvInv_step {s : Srv} (h : SrvInv s) (x : SIn) : SrvInv (s.step x) := by
  cases x with
  | connect =>
    simp only [Srv.step]
    split
    · rename_i hl
      have hs : s.stopRequested = false := by
        cases hsr : s.stopRequested
        · rfl
        · have := h.stopped hsr; simp [this] at hl
      have hr := h.running hs
      refine ⟨⟨?_, ?_, ?_, ?_, ?_⟩, ?_⟩
      · intro _; exact hr
      · intro h0; simp [hs] at h0
      · intro h0; simp [hr.2.1] at h0
      · intro h0; simp [hr.2.1] at h0
      · exact h.fileUnix
      · intro h0; simp [hs] at h0
    · exact h
  | line i =>
    simp only [Srv.step]
    split
    · have h1 : SrvPre { s with commands := s.commands + 1 } :=
        ⟨h.running, h.stopped, h.done_only, h.file, h.fileUnix⟩
      split
      · exact srvInv_settle (srvPre_drop h1 i)
      · exact ⟨h1, h.done_if⟩
    · exact h
  | clientClose i => exact srvInv_settle (srvPre_drop h.toSrvPre i)
  | exitCmd i => exact srvInv_settle (srvPre_drop h.toSrvPre i)
  | stop =>
    simp only [Srv.step]
    apply srvInv_settle
    refine ⟨?_, ?_, ?_, ?_, ?_⟩
    · intro h0; simp at h0
    · intro _; rfl
    · intro hd
      exact ⟨rfl, (h.done_only hd).2⟩
    · exact h.file
    · exact h.fileUnix
  | restart =>
    simp only [Srv.step]
    split
    · refine ⟨⟨?_, ?_, ?_, ?_, ?_⟩, ?_⟩
      · intro _; exact ⟨rfl, rfl, rfl⟩
      · intro h0; simp at h0
      · intro h0; simp at h0
      · intro h0; simp at h0
      · intro h0; exact h0
      · intro h0; simp at h0
    · exact h

theorem srvInv_run : ∀ (ins : List SIn) {s : Srv}, SrvInv s → SrvInv (s.run ins)
  | [], _, h => h
  | x :: ins, s, h => by
    simp only [Srv.run, List.foldl_cons]
    exact srvInv_run ins (srvInv_step h x)

theorem settle_unix (s : Srv) : s.settle.unix = s.unix := by
  unfold Srv.settle; split <;> rfl

theorem step_unix (s : Srv) (x : SIn) : (s.step x).unix = s.unix := by
  cases x <;> simp only [Srv.step]
  · split <;> rfl
  · split
    · split
      · rw [settle_unix]; rfl
      · rfl
    · rfl
  · rw [settle_unix]; rfl
  · rw [settle_unix]; rfl
  · rw [settle_unix]
  · split <;> rfl

theorem run_unix : ∀ (ins : List SIn) (s : Srv), (s.run ins).unix = s.unix
  | [], _ => rfl
  | x :: ins, s => by
    simp only [Srv.run, List.foldl_cons]
    have := run_unix ins (s.step x)
    simp only [Srv.run] at this
    rw [this, step_unix]

end Taskpool.Control
