import Taskpool.Inv.Emptied
import Taskpool.Inv.SealWalk2
/-! **A closed pool holds no tasks — for good: the walk.**

`CStep p q` relates a state `p` to a later state `q` reached by steps that keep everything `Pool.EmptiedOK` reads:

* `closed` is the same (`cl`);
* **if the pool is closed**: a spawner filed as running in `q` was filed so in `p` — in particular no request is
  registered (`rq`) —, and an id filed in one of the three registries in `q` was filed in one of them in `p` (`ru`).

The relation is hypothesis-free, reflexive and transitive, and `EmptiedOK` is preserved along it (`CStep.emptied`).
Every function of the machine is such a step **except**

* `createTask` when the pool is closed.  `_start_task` checks `closed` itself (`applyLoop`, `mapStartTask`), so the only
  unguarded occurrence is `roomGranted` — a spawner waking up in `_enough_room.acquire()` with a slot in hand, not
  cancelled.  In a closed pool no spawner is filed as running (`EmptiedOK.nr`), so by `SealOK.fr` every live spawner is
  doomed: that branch is not taken (`cstep_stepMeta`);
* the closing step `gacAfter2`, which sets `closed` and clears the registries at once; it is reached from a
  `gather_and_close()` in its second gather (`SealOK.g2`: nobody filed as running) or synchronously from `gacAfter1`,
  which has just un-filed every spawner (`emptied_gacAfter1`). -/
namespace Taskpool
namespace Pool

/-! ### the frame relation -/

structure CStep (p q : Pool) : Prop where
  cl : q.closed = p.closed
  rq : p.closed = true → ∀ (i : Nat) (r' : Req), q.reqs[i]? = some r' → r'.inRunning = true →
        ∃ r, p.reqs[i]? = some r ∧ r.inRunning = true
  ru : p.closed = true → ∀ t, t ∈ q.running ++ q.cancelledR ++ q.ended → t ∈ p.running ++ p.cancelledR ++ p.ended

theorem CStep.refl (p : Pool) : CStep p p := ⟨rfl, fun _ _ r' h hi => ⟨r', h, hi⟩, fun _ _ h => h⟩

theorem CStep.trans {p q s : Pool} (h1 : CStep p q) (h2 : CStep q s) : CStep p s where
  cl := h2.cl.trans h1.cl
  rq := fun hc i r'' hs hi => by
    obtain ⟨r', hq, hi'⟩ := h2.rq (h1.cl.trans hc) i r'' hs hi
    exact h1.rq hc i r' hq hi'
  ru := fun hc t ht => h1.ru hc t (h2.ru (h1.cl.trans hc) t ht)

/-- nobody is filed as running -/
def NR (p : Pool) : Prop := ∀ (m : Nat) (r : Req), p.reqs[m]? = some r → r.inRunning = false

theorem eq_nil_of_sub_nil {l : List Nat} (h : ∀ t, t ∈ l → t ∈ ([] : List Nat)) : l = [] :=
  List.eq_nil_iff_forall_not_mem.mpr fun t ht => nomatch (h t ht)

/-- **the invariant is preserved along the frame relation** -/
theorem CStep.emptied {p q : Pool} (s : CStep p q) (h : EmptiedOK p) : EmptiedOK q where
  nr := fun hc m r' hq => by
    have hc' : p.closed = true := s.cl.symm.trans hc
    cases hi : r'.inRunning with
    | false => rfl
    | true =>
      obtain ⟨r, hp, hr⟩ := s.rq hc' m r' hq hi
      rw [h.nr hc' m r hp] at hr; cases hr
  em := fun hc => by
    have hc' : p.closed = true := s.cl.symm.trans hc
    obtain ⟨e1, e2, e3⟩ := h.em hc'
    have hsub := s.ru hc'
    rw [e1, e2, e3] at hsub
    refine ⟨eq_nil_of_sub_nil fun t ht => hsub t ?_, eq_nil_of_sub_nil fun t ht => hsub t ?_,
      eq_nil_of_sub_nil fun t ht => hsub t ?_⟩
    · exact List.mem_append_left _ (List.mem_append_left _ ht)
    · exact List.mem_append_left _ (List.mem_append_right _ ht)
    · exact List.mem_append_right _ ht

theorem cstep_foldl {α} (l : List α) (f : Pool → α → Pool) (h : ∀ p a, CStep p (f p a)) (p : Pool) :
    CStep p (l.foldl f p) := by
  induction l generalizing p with
  | nil => exact CStep.refl p
  | cons a as ih => exact (h p a).trans (ih _)

/-! ### constructors -/

/-- nothing the invariant reads has changed -/
theorem cstep_of_eq (p q : Pool) (hc : q.closed = p.closed := by rfl) (hr : q.reqs = p.reqs := by rfl)
    (h1 : q.running = p.running := by rfl) (h2 : q.cancelledR = p.cancelledR := by rfl)
    (h3 : q.ended = p.ended := by rfl) : CStep p q where
  cl := hc
  rq := fun _ _ r' h hi => by rw [hr] at h; exact ⟨r', h, hi⟩
  ru := fun _ _ h => by rw [h1, h2, h3] at h; exact h

/-- the pool is not closed, before and after -/
theorem cstep_open (p q : Pool) (hp : p.closed = false) (hq : q.closed = false) : CStep p q where
  cl := hq.trans hp.symm
  rq := fun hc => by rw [hp] at hc; cases hc
  ru := fun hc => by rw [hp] at hc; cases hc

/-- the pool is not closed, and the step does not touch `closed` -/
theorem CStep.of_open {p q : Pool} (hp : p.closed = false) (hq : q.closed = p.closed) : CStep p q :=
  cstep_open p q hp (hq.trans hp)

theorem cstep_modReq (p : Pool) (m : Nat) (f : Req → Req)
    (hi : ∀ r, (f r).inRunning = r.inRunning := by intro r; rfl) : CStep p (p.modReq m f) where
  cl := rfl
  rq := fun _ i r' h hir => by
    obtain ⟨r, hp, e⟩ := modify_inv (l := p.reqs) h
    refine ⟨r, hp, ?_⟩
    subst e
    split at hir
    · rw [hi r] at hir; exact hir
    · exact hir
  ru := fun _ _ h => h

/-- every request rewritten by the same function, which files nobody as running -/
theorem cstep_mapReqs (p q : Pool) (f : Req → Req) (hq : q.reqs = p.reqs.map f)
    (hf : ∀ r, (f r).inRunning = true → r.inRunning = true)
    (hc : q.closed = p.closed := by rfl)
    (h1 : q.running = p.running := by rfl) (h2 : q.cancelledR = p.cancelledR := by rfl)
    (h3 : q.ended = p.ended := by rfl) : CStep p q where
  cl := hc
  rq := fun _ i r' h hir => by
    rw [hq, List.getElem?_map] at h
    cases hp : p.reqs[i]? with
    | none => simp [hp] at h
    | some r =>
      simp only [hp, Option.map_some, Option.some.injEq] at h
      subst h
      exact ⟨r, rfl, hf r hir⟩
  ru := fun _ _ h => by rw [h1, h2, h3] at h; exact h

/-- only the registries change: no id comes in -/
theorem cstep_regs (p q : Pool)
    (hs : ∀ t, t ∈ q.running ++ q.cancelledR ++ q.ended → t ∈ p.running ++ p.cancelledR ++ p.ended)
    (hc : q.closed = p.closed := by rfl) (hr : q.reqs = p.reqs := by rfl) : CStep p q where
  cl := hc
  rq := fun _ _ r' h hi => by rw [hr] at h; exact ⟨r', h, hi⟩
  ru := fun _ => hs

theorem cstep_modTask (p : Pool) (t : Nat) (f : PTask → PTask) : CStep p (p.modTask t f) := cstep_of_eq _ _
theorem cstep_modApi (p : Pool) (a : Nat) (f : Api → Api) : CStep p (p.modApi a f) := cstep_of_eq _ _
theorem cstep_modGather (p : Pool) (g : Nat) (f : Gather → Gather) : CStep p (p.modGather g f) := cstep_of_eq _ _
theorem cstep_emitRef (p : Pool) (r : Ref) : CStep p (p.emitRef r) := cstep_of_eq _ _
theorem cstep_logEv (p : Pool) (e : Ev) : CStep p (p.logEv e) := cstep_of_eq _ _

/-- `cstep_modReq` for a visible rewriting function that does not touch the filing -/
macro "cs_mr" : term => `(cstep_modReq _ _ _)

/-! ### plumbing -/

theorem cstep_schedTask (p : Pool) (t : Nat) : CStep p (p.schedTask t) := by
  unfold schedTask; exact (cstep_modTask p _ _).trans (cstep_emitRef _ _)

theorem cstep_schedMeta (p : Pool) (m : Nat) : CStep p (p.schedMeta m) := by
  unfold schedMeta
  exact CStep.trans (q := p.modReq m fun x => { x with sched := true }) cs_mr (cstep_emitRef _ _)

theorem cstep_schedApi (p : Pool) (a : Nat) : CStep p (p.schedApi a) := by
  unfold schedApi; exact (cstep_modApi p _ _).trans (cstep_emitRef _ _)

theorem cstep_schedOpt (p : Pool) (o : Option Nat) : CStep p (p.schedOpt o) := by
  cases o with
  | none => exact CStep.refl p
  | some m => exact cstep_schedMeta p m

theorem cstep_emitChildren (p : Pool) (cbs : List (Nat × Nat)) : CStep p (p.emitChildren cbs) := by
  unfold emitChildren
  exact cstep_foldl _ _ (fun q gi => cstep_emitRef q _) p

theorem cstep_releasePool (p : Pool) : CStep p p.releasePool := by
  unfold releasePool
  exact (cstep_of_eq p _).trans (cstep_schedOpt _ _)

theorem cstep_releaseMap (p : Pool) (m : Nat) : CStep p (p.releaseMap m) := by
  unfold releaseMap
  split
  · exact CStep.refl p
  · rename_i r hp
    exact CStep.trans (q := p.modReq m fun x => { x with mapSem := r.mapSem.release.1 }) cs_mr (cstep_schedOpt _ _)

/-! ### asyncio `Task.cancel()` -/

theorem cstep_taskCancel (p : Pool) (t : Nat) : CStep p (p.taskCancel t) := by
  unfold taskCancel
  split
  · exact CStep.refl p
  · split
    · exact CStep.refl p
    · split
      · exact (cstep_modTask p _ _).trans (cstep_schedTask _ _)
      · exact cstep_modTask p _ _

theorem cstep_cancelTask (p : Pool) (t : Nat) : CStep p (p.cancelTask t) := by
  unfold cancelTask
  split
  · exact CStep.refl p
  · split
    · exact cstep_modTask p _ _
    · exact cstep_taskCancel p t

theorem cstep_metaCancel (p : Pool) (m : Nat) : CStep p (p.metaCancel m) := by
  unfold metaCancel
  split
  · exact CStep.refl p
  · split
    · exact CStep.refl p
    · split
      · exact ((cstep_of_eq p _).trans (cstep_modReq _ m snapReq snapReq_inRunning)).trans (cstep_schedMeta _ m)
      · split
        · exact (cstep_modReq p m _ (fun r => by rw [snapReq_inRunning])).trans (cstep_schedMeta _ m)
        · exact cstep_modReq p m _ (fun r => by rw [snapReq_inRunning])

theorem cstep_cancelGroupMetas (p : Pool) (g : String) : CStep p (p.cancelGroupMetas g) := by
  unfold cancelGroupMetas
  simp only
  have h1 := cstep_foldl (indicesWhere p.reqs fun r => r.inRunning && r.group == g) (fun p m => p.metaCancel m)
    (fun q m => cstep_metaCancel q m) p
  generalize (indicesWhere p.reqs fun r => r.inRunning && r.group == g).foldl (fun p m => p.metaCancel m) p = q at h1 ⊢
  refine h1.trans ?_
  refine cstep_mapReqs q _ (fun (r : Req) =>
    if r.inRunning && r.group == g then { r with inRunning := false, inCancelled := true, everCancelled := true } else r)
    rfl (fun r h => ?_)
  split at h
  · cases h
  · exact h

/-! ### synchronous API -/

theorem checkStart_open {p : Pool} {c : Bool} (h : p.checkStart c = none) : p.closed = false := by
  unfold checkStart at h
  split at h
  · cases h
  · split at h
    · cases h
    · rename_i hc; simpa using hc

theorem register_closed (p : Pool) (r : Req) : (p.register r).closed = p.closed := rfl

theorem cstep_ite_fst {c : Prop} [Decidable c] (p : Pool) (a b : Pool × Res) (ha : CStep p a.1) (hb : CStep p b.1) :
    CStep p (if c then a else b).1 := by split <;> assumption

theorem cstep_doApply (p : Pool) (num : Int) (group : Option String) (sp : SpawnSpec) :
    CStep p (p.doApply num group sp).1 := by
  unfold doApply
  split
  · exact CStep.refl p
  · rename_i hc
    exact cstep_ite_fst p _ _ (CStep.refl p) (CStep.of_open (checkStart_open hc) rfl)

theorem cstep_doMap (p : Pool) (stars : Nat) (items : List Item) (nc : Int) (group : Option String) (sp : SpawnSpec) :
    CStep p (p.doMap stars items nc group sp).1 := by
  unfold doMap
  simp only
  split
  · exact CStep.refl p
  · rename_i hc
    refine cstep_ite_fst p _ _ (CStep.refl p) ?_
    exact cstep_ite_fst p _ _ (CStep.refl p) (CStep.of_open (checkStart_open hc) rfl)

theorem cstep_doStart (p : Pool) (num : Int) : CStep p (p.doStart num).1 := by
  unfold doStart
  split
  · exact CStep.refl p
  · split
    · exact CStep.refl p
    · rename_i hc
      exact CStep.of_open (checkStart_open hc) rfl

theorem cstep_doCancel (p : Pool) (ids : List Int) : CStep p (p.doCancel ids).1 := by
  unfold doCancel
  split
  · exact CStep.refl p
  · exact cstep_foldl _ _ (fun q id => cstep_cancelTask q _) p

theorem cstep_doStop (p : Pool) (n : Int) : CStep p (p.doStop n).1 := by
  unfold doStop
  split
  · exact CStep.refl p
  · exact cstep_doCancel p _

theorem cstep_popOrder (p : Pool) : CStep p p.popOrder.1 := by
  unfold popOrder
  split
  · exact CStep.refl p
  · exact cstep_of_eq _ _

theorem cstep_cancelGroupBody (p : Pool) (g : String) (ids order : List Nat) (q : Pool)
    (hq : p.cancelGroupBody g ids order = some q) : CStep p q := by
  unfold cancelGroupBody at hq
  simp only at hq
  split at hq
  · cases hq
  · simp only [Option.some.injEq] at hq
    subst hq
    exact (cstep_cancelGroupMetas p g).trans (cstep_foldl _ _ (fun q t => cstep_cancelTask q t) _)

theorem cstep_doCancelGroup (p : Pool) (g : String) : CStep p (p.doCancelGroup g).1 := by
  unfold doCancelGroup
  split
  · exact CStep.refl p
  · simp only
    split
    · exact CStep.refl p
    · rename_i p2 h2
      refine ((cstep_popOrder p).trans ?_).trans (cstep_cancelGroupBody _ _ _ _ _ h2)
      exact cstep_of_eq _ _

theorem cstep_cancelAllLoop (gs : List (String × List Nat)) (order : List Nat) (p q : Pool)
    (hq : cancelAllLoop gs order p = some q) : CStep p q := by
  induction gs generalizing p with
  | nil => simp [cancelAllLoop] at hq; subst hq; exact CStep.refl p
  | cons x xs ih =>
    obtain ⟨g, ids⟩ := x
    simp only [cancelAllLoop] at hq
    split at hq
    · cases hq
    · rename_i p1 h1
      exact (cstep_cancelGroupBody p _ _ _ _ h1).trans (ih _ hq)

theorem cstep_doCancelAll (p : Pool) : CStep p p.doCancelAll.1 := by
  unfold doCancelAll
  simp only
  split
  · exact CStep.refl p
  · rename_i p2 h2
    refine ((cstep_popOrder p).trans ?_).trans (cstep_cancelAllLoop _ _ _ _ h2)
    exact cstep_of_eq _ _

theorem cstep_doSetSize (p : Pool) (v : Int) : CStep p (p.doSetSize v).1 := by
  unfold doSetSize
  split
  · exact CStep.refl p
  · exact cstep_of_eq _ _

/-- a pool call from user code (`unlock()` included: the lock is not read) -/
theorem cstep_doHook (p : Pool) (ctx : Nat) (x : HookOp) : CStep p (p.doHook ctx x).1 := by
  cases x <;> simp only [doHook]
  · exact cstep_doCancel p _
  · exact cstep_doCancelGroup p _
  · split
    · exact cstep_doCancelGroup p _
    · exact CStep.refl p
  · exact cstep_doCancelAll p
  · exact cstep_of_eq _ _
  · exact cstep_of_eq _ _
  · exact cstep_doStop p _
  · split
    · exact CStep.refl p
    · exact cstep_doApply p _ _ _

theorem cstep_runHooks (p : Pool) (ctx : Nat) (hs : List HookOp) : CStep p (p.runHooks ctx hs) := by
  unfold runHooks
  exact cstep_foldl _ _ (fun q h => (cstep_doHook q ctx h).trans (cstep_logEv _ _)) p

/-! ### the wrapper of a pool task -/

theorem cstep_completeTask (p : Pool) (t : Nat) (o : Outcome) : CStep p (p.completeTask t o) := by
  unfold completeTask
  split
  · exact CStep.refl p
  · exact (cstep_modTask p _ _).trans (cstep_emitChildren _ _)

theorem cstep_finishTask (p : Pool) (t : Nat) : CStep p (p.finishTask t) := by
  unfold finishTask
  split
  · exact CStep.refl p
  · exact cstep_completeTask p _ _

theorem cstep_suspendTask (p : Pool) (t : Nat) (ph : Phase) : CStep p (p.suspendTask t ph) := by
  unfold suspendTask
  split
  · exact CStep.refl p
  · split
    · exact (cstep_modTask p _ _).trans (cstep_schedTask _ _)
    · exact cstep_modTask p _ _

theorem cstep_cbBegin (p : Pool) (t : Nat) (tk : PTask) (isEnd : Bool) : CStep p (p.cbBegin t tk isEnd) := by
  unfold cbBegin
  simp only
  exact ((cstep_modTask p _ _).trans (cstep_logEv _ _)).trans (cstep_runHooks _ _ _)

theorem cstep_runCb (p : Pool) (t : Nat) (tk : PTask) (isEnd : Bool) : CStep p (p.runCb t tk isEnd).1 := by
  unfold runCb
  split
  · exact CStep.refl p
  · exact (cstep_cbBegin p t tk isEnd).trans (cstep_logEv _ _)
  · exact (cstep_cbBegin p t tk isEnd).trans ((cstep_logEv _ _).trans (cstep_modTask _ _ _))
  · exact (cstep_cbBegin p t tk isEnd).trans (cstep_suspendTask _ _ _)

/-- an id enters the ended registry only from the running or the cancelled one -/
theorem cstep_moveToEnded (p : Pool) (t : Nat) (q : Pool) (hq : p.moveToEnded t = some q) : CStep p q := by
  unfold moveToEnded at hq
  split at hq
  · rename_i c
    simp only [Option.some.injEq] at hq; subst hq
    refine cstep_regs p _ (fun x hx => ?_)
    simp only [List.mem_append, List.mem_singleton] at hx ⊢
    rcases hx with (a | a) | a | a
    · exact Or.inl (Or.inl (List.mem_of_mem_erase a))
    · exact Or.inl (Or.inr a)
    · exact Or.inr a
    · subst a; exact Or.inl (Or.inl (by simpa using c))
  · split at hq
    · rename_i c
      simp only [Option.some.injEq] at hq; subst hq
      refine cstep_regs p _ (fun x hx => ?_)
      simp only [List.mem_append, List.mem_singleton] at hx ⊢
      rcases hx with (a | a) | a | a
      · exact Or.inl (Or.inl a)
      · exact Or.inl (Or.inr (List.mem_of_mem_erase a))
      · exact Or.inr a
      · subst a; exact Or.inl (Or.inr (by simpa using c))
    · cases hq

theorem cstep_releaseMapSlot (p : Pool) (t : Nat) (tk : PTask) : CStep p (p.releaseMapSlot t tk) := by
  unfold releaseMapSlot
  split
  · exact (cstep_releaseMap p _).trans (cstep_modTask _ _ _)
  · exact CStep.refl p

theorem cstep_endCallback (p : Pool) (t : Nat) (tk : PTask) : CStep p (p.endCallback t tk) := by
  unfold endCallback
  simp only
  have hr := (cstep_releaseMapSlot p t tk).trans (cstep_runCb (p.releaseMapSlot t tk) t tk true)
  split
  · exact hr
  · exact hr.trans (cstep_finishTask _ t)

theorem cstep_endingTail (p : Pool) (t : Nat) (tk : PTask) : CStep p (p.endingTail t tk) := by
  unfold endingTail
  exact ((cstep_releasePool p).trans (cstep_modTask _ _ _)).trans (cstep_endCallback _ t tk)

theorem cstep_keyErrorFinish (p : Pool) (t : Nat) : CStep p (p.keyErrorFinish t) := by
  unfold keyErrorFinish
  exact ((cstep_of_eq p { p with lost := true }).trans (cstep_modTask _ _ _)).trans (cstep_finishTask _ t)

theorem cstep_taskEnding (p : Pool) (t : Nat) : CStep p (p.taskEnding t) := by
  unfold taskEnding
  split
  · exact CStep.refl p
  · split
    · exact cstep_keyErrorFinish p t
    · rename_i p1 hm
      exact (cstep_moveToEnded p t p1 hm).trans (cstep_endingTail p1 t _)

theorem cstep_cancelCallback (p : Pool) (t : Nat) (tk : PTask) : CStep p (p.cancelCallback t tk) := by
  unfold cancelCallback
  simp only
  have hr := cstep_runCb p t tk false
  split
  · exact hr
  · exact hr.trans (cstep_taskEnding _ t)

/-- an id enters the cancelled registry only from the running one -/
theorem cstep_taskCancellation (p : Pool) (t : Nat) (tk : PTask) : CStep p (p.taskCancellation t tk) := by
  unfold taskCancellation
  split
  · rename_i c
    have h1 : CStep p ({ p with running := p.running.erase t, cancelledR := p.cancelledR ++ [t] } : Pool) := by
      refine cstep_regs p _ (fun x hx => ?_)
      simp only [List.mem_append, List.mem_singleton] at hx ⊢
      rcases hx with (a | a | a) | a
      · exact Or.inl (Or.inl (List.mem_of_mem_erase a))
      · exact Or.inl (Or.inr a)
      · subst a; exact Or.inl (Or.inl (by simpa using c))
      · exact Or.inr a
    exact (h1.trans (cstep_modTask _ _ _)).trans (cstep_cancelCallback _ t tk)
  · exact ((cstep_of_eq p { p with lost := true }).trans (cstep_modTask _ _ _)).trans (cstep_taskEnding _ t)

theorem cstep_afterWorker (p : Pool) (t : Nat) (e : Option Err) : CStep p (p.afterWorker t e) := by
  unfold afterWorker
  split
  · exact ((cstep_logEv p _).trans (cstep_modTask _ _ _)).trans (cstep_taskEnding _ t)
  · exact ((cstep_logEv p _).trans (cstep_modTask _ _ _)).trans (cstep_taskEnding _ t)

theorem cstep_stepCreated (p : Pool) (t : Nat) (tk : PTask) : CStep p (p.stepCreated t tk) := by
  unfold stepCreated
  split
  · exact (cstep_modTask p _ _).trans (cstep_taskCancellation _ t tk)
  · simp only
    have h0 : CStep p (((p.logEv (.started t tk.arg)).modTask t fun k => { k with phase := .inWorker, fut := .ok, unstarted := false }).runHooks tk.req (p.reqOf tk).hooks.start) :=
      ((cstep_logEv p _).trans (cstep_modTask _ _ _)).trans (cstep_runHooks _ _ _)
    split
    · exact h0.trans (cstep_afterWorker _ _ _)
    · exact h0.trans (cstep_afterWorker _ _ _)
    · exact h0.trans ((cstep_modTask _ _ _).trans (cstep_suspendTask _ _ _))

theorem cstep_workerNext (p : Pool) (t : Nat) (tk : PTask) : CStep p (p.workerNext t tk) := by
  unfold workerNext
  exact (((cstep_logEv p _).trans (cstep_modTask _ _ _)).trans (cstep_runHooks _ _ _)).trans (cstep_suspendTask _ _ _)

theorem cstep_workerCancelled (p : Pool) (t : Nat) (tk : PTask) : CStep p (p.workerCancelled t tk) := by
  unfold workerCancelled
  split
  · exact ((cstep_logEv p _).trans (cstep_modTask _ _ _)).trans (cstep_suspendTask _ _ _)
  · simp only
    have h0 : CStep p ((p.logEv (.sawCancel t)).modTask t fun k => { k with sawCancel := true, phase := .wrapUp, nSaw := k.nSaw + 1 }) :=
      (cstep_logEv p _).trans (cstep_modTask _ _ _)
    split
    · exact h0.trans (cstep_afterWorker _ _ _)
    · exact h0.trans (cstep_taskCancellation _ t tk)

theorem cstep_stepInWorker (p : Pool) (t : Nat) (tk : PTask) : CStep p (p.stepInWorker t tk) := by
  unfold stepInWorker
  split
  · exact (cstep_modTask p _ _).trans (cstep_workerCancelled _ t tk)
  · split
    · split
      · exact cstep_workerNext p t tk
      · exact cstep_afterWorker p _ _
    · exact cstep_afterWorker p _ _
    · exact CStep.refl p

theorem cstep_stepInCancelCb (p : Pool) (t : Nat) (tk : PTask) : CStep p (p.stepInCancelCb t tk) := by
  unfold stepInCancelCb
  split
  · exact ((cstep_logEv p _).trans (cstep_modTask _ _ _)).trans (cstep_taskEnding _ t)
  · exact ((cstep_logEv p _).trans (cstep_modTask _ _ _)).trans (cstep_taskEnding _ t)
  · exact ((cstep_logEv p _).trans (cstep_modTask _ _ _)).trans (cstep_taskEnding _ t)
  · exact CStep.refl p

theorem cstep_stepInEndCb (p : Pool) (t : Nat) (tk : PTask) : CStep p (p.stepInEndCb t tk) := by
  unfold stepInEndCb
  split
  · exact (cstep_logEv p _).trans (cstep_finishTask _ t)
  · exact ((cstep_logEv p _).trans (cstep_modTask _ _ _)).trans (cstep_finishTask _ t)
  · exact ((cstep_logEv p _).trans (cstep_modTask _ _ _)).trans (cstep_finishTask _ t)
  · exact CStep.refl p

/-- a pool task takes a step -/
theorem cstep_stepTask (p : Pool) (t : Nat) : CStep p (p.stepTask t) := by
  unfold stepTask
  split
  · exact CStep.refl p
  · rename_i tk htk
    split
    · exact CStep.refl p
    · simp only
      have h1 : CStep p (p.modTask t fun k => { k with sched := false }) := cstep_modTask p _ _
      split
      · exact h1.trans (cstep_stepCreated _ t tk)
      · exact h1
      · exact h1.trans (cstep_stepInWorker _ t tk)
      · exact h1.trans (cstep_stepInCancelCb _ t tk)
      · exact h1.trans (cstep_stepInEndCb _ t tk)
      · exact h1

/-! ### spawners -/

theorem cstep_finishMeta (p : Pool) (m : Nat) (o : Outcome) : CStep p (p.finishMeta m o) := by
  unfold finishMeta
  split
  · exact CStep.refl p
  · simp only
    exact CStep.trans cs_mr (cstep_emitChildren _ _)

theorem createTask_closed (p : Pool) (m : Nat) (isMap : Bool) : (p.createTask m isMap).closed = p.closed := rfl

/-- a task is created: the pool is not closed -/
theorem cstep_createTask (p : Pool) (m : Nat) (isMap : Bool) (hc : p.closed = false) : CStep p (p.createTask m isMap) :=
  CStep.of_open hc rfl

theorem cstep_takeSlotAndCreate (p : Pool) (m : Nat) (isMap : Bool) (hc : p.closed = false) :
    CStep p (p.takeSlotAndCreate m isMap) := CStep.of_open hc rfl

theorem cstep_waitRoom (p : Pool) (m : Nat) : CStep p (p.waitRoom m) := by
  unfold waitRoom
  simp only
  split
  · exact ((cstep_of_eq p _).trans cs_mr).trans (cstep_schedMeta _ m)
  · exact (cstep_of_eq p _).trans cs_mr

theorem cstep_waitMapSem (p : Pool) (m : Nat) : CStep p (p.waitMapSem m) := by
  unfold waitMapSem
  simp only
  split
  · exact CStep.trans cs_mr (cstep_schedMeta _ m)
  · exact cs_mr

/-- `_start_task` checks `closed` before it creates the task -/
theorem cstep_applyLoop (m n : Nat) (p : Pool) : CStep p (applyLoop m n p) := by
  induction n generalizing p with
  | zero =>
    unfold applyLoop
    exact CStep.trans cs_mr (cstep_finishMeta _ m _)
  | succ n ih =>
    unfold applyLoop
    simp only
    have h0 : CStep p (p.modReq m fun x => { x with remaining := n + 1 }) := cs_mr
    split
    · exact (h0.trans cs_mr).trans (ih _)
    · split
      · exact h0.trans (cstep_finishMeta _ m _)
      · rename_i hc
        split
        · exact h0.trans (cstep_finishMeta _ m _)
        · split
          · exact h0.trans (cstep_waitRoom _ m)
          · exact (h0.trans (cstep_takeSlotAndCreate _ m false (by simpa using hc))).trans (ih _)

theorem cstep_mapStartTask (p : Pool) (m : Nat) : CStep p (p.mapStartTask m).1 := by
  unfold mapStartTask
  split
  · exact cstep_finishMeta p m _
  · rename_i hc
    split
    · exact cstep_waitRoom p m
    · exact cstep_takeSlotAndCreate p m true (by simpa using hc)

theorem cstep_pullItem (p : Pool) (m : Nat) (rest : List Item) : CStep p (p.pullItem m rest) := by
  unfold pullItem
  simp only
  exact (CStep.trans cs_mr (cstep_logEv _ _)).trans (cstep_runHooks _ _ _)

theorem cstep_takeMapSlot (p : Pool) (m : Nat) : CStep p (p.takeMapSlot m) := by
  unfold takeMapSlot
  exact cs_mr

theorem cstep_mapLoop (m : Nat) (items : List Item) (p : Pool) : CStep p (mapLoop m items p) := by
  induction items generalizing p with
  | nil =>
    unfold mapLoop
    exact CStep.trans cs_mr (cstep_finishMeta _ m _)
  | cons it rest ih =>
    unfold mapLoop
    simp only
    have h0 := cstep_pullItem p m rest
    split
    · exact h0.trans (cstep_finishMeta _ m _)
    · split
      · exact (h0.trans cs_mr).trans (ih _)
      · split
        · exact h0.trans (cstep_waitMapSem _ m)
        · have h1 := (h0.trans (cstep_takeMapSlot _ m)).trans (cstep_mapStartTask _ m)
          split
          · exact h1.trans (ih _)
          · exact h1

theorem cstep_continueSpawner (p : Pool) (m : Nat) : CStep p (p.continueSpawner m) := by
  unfold continueSpawner
  simp only
  split
  · exact cstep_applyLoop m _ p
  · exact cstep_mapLoop m _ p

theorem cstep_stepMetaNotStarted (p : Pool) (m : Nat) (r : Req) : CStep p (p.stepMetaNotStarted m r) := by
  unfold stepMetaNotStarted
  split
  · exact cstep_finishMeta p m _
  · split
    · exact cstep_applyLoop m _ p
    · exact cstep_mapLoop m _ p

theorem cstep_roomWaitCancelled (p : Pool) (m : Nat) (r : Req) (st : Option WaitSt) :
    CStep p (p.roomWaitCancelled m r st) := by
  unfold roomWaitCancelled
  simp only
  have h1 : CStep p (if (st == some WaitSt.granted) = true then p.releasePool else p) := by
    split
    · exact cstep_releasePool p
    · exact CStep.refl p
  generalize (if (st == some WaitSt.granted) = true then p.releasePool else p) = q at h1 ⊢
  have h2 : CStep q (if (r.kind == ReqKind.map && r.acquired) = true then q.releaseMap m else q) := by
    split
    · exact cstep_releaseMap q m
    · exact CStep.refl q
  exact (h1.trans h2).trans (cstep_finishMeta _ m _)

/-- the one place where a task is created without a look at `closed`: the pool is not closed -/
theorem cstep_roomGranted (p : Pool) (m : Nat) (r : Req) (hc : p.closed = false) : CStep p (p.roomGranted m r) := by
  unfold roomGranted
  simp only
  have h0 : CStep p (p.modReq m fun x => { x with frame := MFrame.running }) := cs_mr
  have h1 : CStep (p.modReq m fun x => { x with frame := MFrame.running })
      (if (!(p.modReq m fun x => { x with frame := MFrame.running }).sem.value.isZero) = true then
        (({ (p.modReq m fun x => { x with frame := MFrame.running }) with
            sem := (p.modReq m fun x => { x with frame := MFrame.running }).sem.wakeNext.1 } : Pool).schedOpt
          (p.modReq m fun x => { x with frame := MFrame.running }).sem.wakeNext.2)
       else (p.modReq m fun x => { x with frame := MFrame.running })) := by
    split
    · exact (cstep_of_eq _ _).trans (cstep_schedOpt _ _)
    · exact CStep.refl _
  have h01 := h0.trans h1
  refine (h01.trans (cstep_createTask _ m _ ?_)).trans (cstep_continueSpawner _ m)
  exact h01.cl.trans hc

theorem cstep_mapSemGranted (p : Pool) (m : Nat) (r : Req) : CStep p (p.mapSemGranted m r) := by
  unfold mapSemGranted
  simp only
  have h1 := CStep.trans (p := p) (q := p.modReq m fun x => { x with acquired := true, frame := MFrame.running }) cs_mr
    (cstep_mapStartTask _ m)
  split
  · exact h1.trans (cstep_mapLoop m _ _)
  · exact h1

theorem cstep_wakeWaitMapSemCore (p : Pool) (m : Nat) (r : Req) : CStep p (p.wakeWaitMapSemCore m r) := by
  unfold wakeWaitMapSemCore
  simp only
  generalize (if ((removeWaiterL m r.mapSem.waiters).1 == some WaitSt.granted) = true then _ else _ : Sem × Option Nat) = s2
  have h0 : CStep p ((p.modReq m fun x => { x with mapSem := s2.1, mustCancel := false }).schedOpt s2.2) :=
    CStep.trans cs_mr (cstep_schedOpt _ _)
  split
  · exact h0.trans (cstep_finishMeta _ m _)
  · split
    · exact h0.trans (cstep_mapSemGranted _ m r)
    · exact h0

theorem cstep_wakeWaitMapSem (p : Pool) (m : Nat) (r : Req) : CStep p (p.wakeWaitMapSem m r) := by
  unfold wakeWaitMapSem
  split
  · exact cstep_wakeWaitMapSemCore p m r
  · exact CStep.refl p

/-- the spawner wakes up in `_enough_room.acquire()`: in a closed pool only to find itself cancelled -/
theorem cstep_wakeWaitRoomCore (p : Pool) (m : Nat) (r : Req)
    (hd : p.closed = true → (removeWaiterL m p.sem.waiters).1 = some .cancelled ∨ r.mustCancel = true) :
    CStep p (p.wakeWaitRoomCore m r) := by
  unfold wakeWaitRoomCore
  simp only
  have h0 : CStep p (({ p with sem := { p.sem with waiters := (removeWaiterL m p.sem.waiters).2 } } : Pool).modReq m
      fun x => { x with mustCancel := false }) := (cstep_of_eq p _).trans cs_mr
  split
  · exact h0.trans (cstep_roomWaitCancelled _ m r _)
  · rename_i c1
    simp only [Bool.or_eq_true, beq_iff_eq, not_or] at c1
    split
    · rcases Bool.eq_false_or_eq_true p.closed with hc | hc
      · rcases hd hc with x | x
        · exact absurd x c1.1
        · exact absurd x c1.2
      · exact h0.trans (cstep_roomGranted _ m r (h0.cl.trans hc))
    · exact h0

/-- **a spawner takes a step**: in a closed pool nobody is filed as running, so every live spawner is doomed
(`SealOK.fr`) and the unguarded `createTask` of `roomGranted` is not reached -/
theorem cstep_stepMeta (p : Pool) (m : Nat) (hs : Seal p) (hW : Want p) (hnr : p.closed = true → NR p) :
    CStep p (p.stepMeta m) := by
  unfold stepMeta
  split
  · exact CStep.refl p
  · rename_i r hp
    split
    · exact CStep.refl p
    · simp only
      have h1 : CStep p (p.modReq m fun x => { x with sched := false }) := cs_mr
      split
      · exact h1
      · exact h1
      · exact h1.trans (cstep_stepMetaNotStarted _ m r)
      · rename_i hfr
        unfold wakeWaitRoom
        split
        · refine h1.trans (cstep_wakeWaitRoomCore _ m r (fun hc => ?_))
          have hc' : p.closed = true := hc
          have ho : r.outcome = none := by
            cases hout : r.outcome with
            | none => rfl
            | some o =>
              have := hW.od m r hp id (by simp [hout])
              rw [hfr] at this; cases this
          rcases hs.fr m r hp id ho with x | x
          · rw [hnr hc' m r hp] at x; cases x
          · rcases x with d | ⟨_, d⟩ | ⟨d, _⟩
            · exact Or.inr d
            · exact Or.inl d
            · rw [hfr] at d; cases d
        · exact h1
      · exact h1.trans (cstep_wakeWaitMapSem _ m r)

/-! ### gather -/

theorem cstep_gatherChildDone (p : Pool) (g i : Nat) (viaHandle : Bool) : CStep p (p.gatherChildDone g i viaHandle) := by
  unfold gatherChildDone
  split
  · exact CStep.refl p
  · split
    · exact CStep.refl p
    · simp only
      have h1 : CStep p (p.modGather g fun x => { x with nfinished := x.nfinished + 1 }) := cstep_modGather p g _
      split
      · exact h1
      · split
        · exact h1
        · split
          · exact h1
          · split
            · exact (h1.trans (cstep_modGather _ _ _)).trans (cstep_schedApi _ _)
            · exact h1.trans (cstep_modGather _ _ _)

theorem cstep_registerChild (p : Pool) (c : Child) (g i : Nat) : CStep p (p.registerChild c g i) := by
  unfold registerChild
  split
  · exact cstep_modTask p _ _
  · exact cs_mr

theorem cstep_gatherScan (g : Nat) (cs : List Child) (i : Nat) (p : Pool) : CStep p (gatherScan g cs i p) := by
  induction cs generalizing i p with
  | nil => unfold gatherScan; exact CStep.refl p
  | cons c cs ih =>
    unfold gatherScan
    refine CStep.trans ?_ (ih _ _)
    split
    · exact cstep_gatherChildDone p g i false
    · exact cstep_registerChild p c g i

theorem cstep_gatherStart (p : Pool) (children : List Child) (re : Bool) (owner : Nat) (setPrefix : Nat) :
    CStep p (p.gatherStart children re owner setPrefix).1 := by
  unfold gatherStart
  simp only
  exact (cstep_of_eq p _).trans (cstep_gatherScan _ _ _ _)

/-! … a gather files nobody as running, whether the pool is closed or not -/

/-- the filing of the spawners is the same, no request is added -/
def SameIR (p q : Pool) : Prop :=
  ∀ (i : Nat) (r' : Req), q.reqs[i]? = some r' → ∃ r, p.reqs[i]? = some r ∧ r'.inRunning = r.inRunning

theorem SameIR.refl (p : Pool) : SameIR p p := fun _ r' h => ⟨r', h, rfl⟩

theorem SameIR.trans {p q s : Pool} (h1 : SameIR p q) (h2 : SameIR q s) : SameIR p s := fun i r'' hs => by
  obtain ⟨r', hq, e2⟩ := h2 i r'' hs
  obtain ⟨r, hp, e1⟩ := h1 i r' hq
  exact ⟨r, hp, e2.trans e1⟩

theorem SameIR.nr {p q : Pool} (h : SameIR p q) (hn : NR p) : NR q := fun m r' hq => by
  obtain ⟨r, hp, e⟩ := h m r' hq
  rw [e]; exact hn m r hp

theorem sameIR_of_eq (p q : Pool) (hr : q.reqs = p.reqs := by rfl) : SameIR p q :=
  fun _ r' h => by rw [hr] at h; exact ⟨r', h, rfl⟩

theorem sameIR_modReq (p : Pool) (m : Nat) (f : Req → Req)
    (hi : ∀ r, (f r).inRunning = r.inRunning := by intro r; rfl) : SameIR p (p.modReq m f) := fun i r' h => by
  obtain ⟨r, hp, e⟩ := modify_inv (l := p.reqs) h
  refine ⟨r, hp, ?_⟩
  subst e
  split
  · exact hi r
  · rfl

theorem sameIR_gatherChildDone (p : Pool) (g i : Nat) (viaHandle : Bool) : SameIR p (p.gatherChildDone g i viaHandle) := by
  unfold gatherChildDone
  split
  · exact SameIR.refl p
  · split
    · exact SameIR.refl p
    · simp only
      split
      · exact sameIR_of_eq _ _
      · split
        · exact sameIR_of_eq _ _
        · split
          · exact sameIR_of_eq _ _
          · split
            · exact sameIR_of_eq _ _
            · exact sameIR_of_eq _ _

theorem sameIR_registerChild (p : Pool) (c : Child) (g i : Nat) : SameIR p (p.registerChild c g i) := by
  unfold registerChild
  split
  · exact sameIR_of_eq _ _
  · exact sameIR_modReq _ _ _

theorem sameIR_gatherScan (g : Nat) (cs : List Child) (i : Nat) (p : Pool) : SameIR p (gatherScan g cs i p) := by
  induction cs generalizing i p with
  | nil => unfold gatherScan; exact SameIR.refl p
  | cons c cs ih =>
    unfold gatherScan
    refine SameIR.trans ?_ (ih _ _)
    split
    · exact sameIR_gatherChildDone p g i false
    · exact sameIR_registerChild p c g i

theorem sameIR_gatherStart (p : Pool) (children : List Child) (re : Bool) (owner : Nat) (setPrefix : Nat) :
    SameIR p (p.gatherStart children re owner setPrefix).1 := by
  unfold gatherStart
  simp only
  exact (sameIR_of_eq p _).trans (sameIR_gatherScan _ _ _ _)

/-! ### flush / until_closed -/

theorem cstep_finishApi (p : Pool) (a : Nat) (o : Outcome) : CStep p (p.finishApi a o) := by
  unfold finishApi; exact cstep_modApi p a _

theorem cstep_flushAfter2 (p : Pool) (a : Nat) (o : Outcome) : CStep p (p.flushAfter2 a o) := by
  unfold flushAfter2
  split
  · simp only
    refine CStep.trans ?_ (cstep_finishApi _ a _)
    refine cstep_regs p _ (fun x hx => ?_)
    simp only [List.mem_append] at hx ⊢
    rcases hx with (b | b) | b
    · exact Or.inl (Or.inl b)
    · exact Or.inl (Or.inr (List.mem_filter.mp b).1)
    · exact Or.inr (List.mem_filter.mp b).1
  · exact cstep_finishApi p a _

theorem cstep_flushAfter1 (p : Pool) (a : Nat) (re : Bool) (o : Outcome) : CStep p (p.flushAfter1 a re o) := by
  unfold flushAfter1
  split
  · exact cstep_finishApi p a _
  · simp only
    have t1 : CStep p ({ p with metaCancelled := [], reqs := p.reqs.map fun (r : Req) => { r with inCancelled := false } } : Pool) :=
      cstep_mapReqs p _ (fun (r : Req) => { r with inCancelled := false }) rfl (fun _ h => h)
    have t2 := t1.trans (cstep_modApi _ a fun x => { x with snapE := p.ended, snapC := p.cancelledR })
    have t3 := t2.trans (cstep_gatherStart _ (p.ended.map Child.task ++ p.cancelledR.map Child.task) re a 0)
    split
    · exact t3.trans (cstep_flushAfter2 _ a _)
    · exact t3.trans (cstep_modApi _ a _)

theorem cstep_flushStage1 (p : Pool) (a : Nat) (re : Bool) : CStep p (p.flushStage1 a re) := by
  unfold flushStage1
  simp only
  have t1 : CStep p ({ p with reqs := p.reqs.map fun (r : Req) => if r.inRunning && r.outcome.isSome then { r with inRunning := false } else r } : Pool) := by
    refine cstep_mapReqs p _ (fun (r : Req) => if r.inRunning && r.outcome.isSome then { r with inRunning := false } else r) rfl
      (fun r h => ?_)
    split at h
    · cases h
    · exact h
  have t2 := t1.trans (cstep_gatherStart _ (p.metaCancelled.map Child.spawner ++
    (indicesWhere p.reqs fun r => r.inRunning && r.outcome.isSome).map Child.spawner) re a
    (p.metaCancelled.map Child.spawner ++ (indicesWhere p.reqs fun r => r.inRunning && r.outcome.isSome).map Child.spawner).length)
  split
  · exact t2.trans (cstep_flushAfter1 _ a re _)
  · exact t2.trans (cstep_modApi _ a _)

theorem cstep_untilClosedStart (p : Pool) (a : Nat) : CStep p (p.untilClosedStart a) := by
  unfold untilClosedStart
  split
  · exact cstep_finishApi p a _
  · exact (cstep_of_eq p { p with closedWaiters := p.closedWaiters ++ [a] }).trans (cstep_modApi _ a _)

theorem cstep_addApi (p : Pool) (k : ApiKind) : CStep p (p.addApi k) := by
  unfold addApi
  exact (cstep_of_eq p _).trans (cstep_emitRef _ _)

theorem cstep_doGate (p : Pool) (t : Nat) (o : FutSt) : CStep p (p.doGate t o).1 := by
  unfold doGate
  split
  · exact (cstep_modTask p _ _).trans (cstep_schedTask _ _)
  · exact CStep.refl p

/-- every external operation -/
theorem cstep_applyOp (p : Pool) (op : Op) : CStep p (p.applyOp op).1 := by
  cases op <;> simp only [applyOp]
  · exact cstep_doApply p _ _ _
  · exact cstep_doMap p _ _ _ _ _
  · exact cstep_doStart p _
  · exact cstep_doStop p _
  · exact cstep_doStop p _
  · exact cstep_doCancel p _
  · exact cstep_doCancelGroup p _
  · exact cstep_doCancelAll p
  · exact cstep_of_eq _ _
  · exact cstep_of_eq _ _
  · exact cstep_doSetSize p _
  · exact CStep.refl p
  · exact cstep_addApi p _
  · exact cstep_addApi p _
  · exact cstep_addApi p _
  · exact cstep_doGate p _ _

/-! ### `gather_and_close` -/

/-- **the closing step**: nobody is filed as running; the registries are cleared as `closed` is set -/
theorem emptied_gacAfter2 {p : Pool} (he : EmptiedOK p) (a : Nat) (o : Outcome) (hnr : NR p) :
    EmptiedOK (p.gacAfter2 a o) := by
  unfold gacAfter2
  split
  · simp only
    refine CStep.emptied ((cstep_foldl _ _ (fun q w => cstep_schedApi q w) _).trans (cstep_finishApi _ a _)) ?_
    exact ⟨fun _ => hnr, fun _ => ⟨rfl, rfl, rfl⟩⟩
  · exact (cstep_finishApi p a _).emptied he

/-- the second half of `gather_and_close()` (`gacTail`): everything is gathered and — if that gather is complete at once —
the pool is closed -/
theorem emptied_gacTail {P : Pool} (he : EmptiedOK P) (a : Nat) (re : Bool) (hn : NR P) : EmptiedOK (gacTail P a re) := by
  unfold gacTail
  simp only
  have t2 := cstep_gatherStart P (P.ended.map Child.task ++ P.cancelledR.map Child.task ++ P.running.map Child.task) re a 0
  have n2 := (sameIR_gatherStart P (P.ended.map Child.task ++ P.cancelledR.map Child.task ++ P.running.map Child.task) re a 0).nr hn
  generalize P.gatherStart (P.ended.map Child.task ++ P.cancelledR.map Child.task ++ P.running.map Child.task) re a 0 = q at t2 n2 ⊢
  have hq : EmptiedOK q.1 := t2.emptied he
  split
  · exact emptied_gacAfter2 hq a _ n2
  · exact (cstep_modApi _ a _).emptied hq

/-- the first gather of a `gather_and_close()` is complete: every spawner is un-filed, then `gacTail` -/
theorem emptied_gacAfter1 {p : Pool} (he : EmptiedOK p) (a : Nat) (re : Bool) (g : Nat) : EmptiedOK (p.gacAfter1 a re g) := by
  unfold gacAfter1
  simp only
  split
  · exact (cstep_finishApi p a _).emptied he
  · have t1 : CStep p ({ p with metaCancelled := [], reqs := p.reqs.map fun (r : Req) => { r with inCancelled := false, inRunning := false } } : Pool) :=
      cstep_mapReqs p _ (fun (r : Req) => { r with inCancelled := false, inRunning := false }) rfl (fun _ h => nomatch h)
    refine emptied_gacTail (t1.emptied he) a re (fun m r' hr' => ?_)
    simp only [List.getElem?_map] at hr'
    cases hq : p.reqs[m]? with
    | none => simp [hq] at hr'
    | some r =>
      simp only [hq, Option.map_some, Option.some.injEq] at hr'
      subst hr'; rfl

theorem emptied_gacStage1 {p : Pool} (he : EmptiedOK p) (a : Nat) (re : Bool) : EmptiedOK (p.gacStage1 a re) := by
  rw [gacStage1_eq]
  have hpre : CStep p (p.gacStage1Pre a re).1 := by
    unfold gacStage1Pre
    simp only
    exact (cstep_of_eq p _).trans (cstep_gatherStart _ _ _ _ _)
  have hq := hpre.emptied he
  generalize p.gacStage1Pre a re = q at hq ⊢
  split
  · exact emptied_gacAfter1 hq a re q.2
  · exact (cstep_modApi _ a _).emptied hq

/-! ### background calls -/

theorem emptied_stepApi {p : Pool} (hs : Seal p) (he : EmptiedOK p) (a : Nat) : EmptiedOK (p.stepApi a) := by
  unfold stepApi
  split
  · exact he
  · rename_i A hA
    split
    · exact he
    · simp only
      have t1 : CStep p (p.modApi a fun x => { x with sched := false }) := cstep_modApi p a _
      have hp1 := t1.emptied he
      split
      · exact hp1
      · exact (cstep_flushStage1 _ a _).emptied hp1
      · exact emptied_gacStage1 hp1 a _
      · exact (cstep_untilClosedStart _ a).emptied hp1
      · exact (cstep_finishApi _ a _).emptied hp1
      · split
        · exact (cstep_flushAfter1 _ a _ _).emptied hp1
        · exact hp1
      · split
        · exact emptied_gacAfter1 hp1 a _ _
        · exact hp1
      · split
        · exact (cstep_flushAfter2 _ a _).emptied hp1
        · exact hp1
      · rename_i g re hf hk
        split
        · refine emptied_gacAfter2 hp1 a _ ?_
          have hkg : A.kind.isGac = true := by rw [hk]; rfl
          exact (hs.g2 a A g hA hkg hf).1
        · exact hp1
      · exact hp1

/-! ### the five theorems -/

theorem emptied_init (cap : Cap) (simple : Option SpawnSpec) : EmptiedOK (Pool.init cap simple) :=
  ⟨fun h => (nomatch h), fun h => (nomatch h)⟩

set_option linter.unusedVariables false in
theorem emptied_applyOp {cap : Cap} (p : Pool) (o : Op) (ho : o.noUnlock = true)
    (hg : Good cap true false p) (hw : Want p) (hs : Seal p) (he : EmptiedOK p) : EmptiedOK (p.applyOp o).1 :=
  (cstep_applyOp p o).emptied he

set_option linter.unusedVariables false in
theorem emptied_runRef {cap : Cap} (p : Pool) (r : Ref)
    (hg : Good cap true false p) (hw : Want p) (hs : Seal p) (he : EmptiedOK p) : EmptiedOK (p.runRef r) := by
  cases r with
  | task t => exact (cstep_stepTask p t).emptied he
  | spawner m => exact (cstep_stepMeta p m hs hw he.nr).emptied he
  | api a => exact emptied_stepApi hs he a
  | gchild g i => exact (cstep_gatherChildDone p g i true).emptied he

theorem emptied_orders (p : Pool) (orders : List (List Nat)) (he : EmptiedOK p) : EmptiedOK { p with orders := orders } :=
  (cstep_of_eq p _).emptied he

theorem emptied_drain (p : Pool) (he : EmptiedOK p) : EmptiedOK { p with emit := [] } :=
  (cstep_of_eq p _).emptied he

end Pool
end Taskpool
