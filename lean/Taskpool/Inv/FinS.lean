import Taskpool.Inv.Fin
import Taskpool.Inv.Seal
/-! **A spawner that was never cancelled ends only when its work is done — in pools that nobody unlocks**, i.e. with
`gather_and_close()` in the history.

`FinOK` (`Inv/Fin.lean`) has "no `gather_and_close` call exists" and "the pool is not closed" built in: a spawner that
finds the pool closed ends with `PoolIsClosed`, and the step from the first to the second gather of `gather_and_close()`
un-files every spawner.  In a sealed pool (`Inv/Seal.lean`) both happen only when every live spawner is doomed — hence
(`cg`/`cw`/`cm`) was cancelled through the pool.  `FinSOK` is `FinOK` with the two clauses replaced by `cl`: once the
pool is closed every live spawner was cancelled. -/
namespace Taskpool
namespace Pool

structure FinSOK (p : Pool) : Prop where
  cl : p.closed = true → ∀ (m : Nat) (r : Req), p.reqs[m]? = some r → r.outcome = none → r.everCancelled = true
  cg : ∀ (m : Nat) (r : Req), p.reqs[m]? = some r → r.mustCancel = true → r.everCancelled = true
  cw : ∀ w ∈ p.sem.waiters, w.st = .cancelled → ∀ (r : Req), p.reqs[w.owner]? = some r → r.everCancelled = true
  cm : ∀ (m : Nat) (r : Req), p.reqs[m]? = some r → ∀ w ∈ r.mapSem.waiters, w.st = .cancelled → r.everCancelled = true
  ir : ∀ (m : Nat) (r : Req), p.reqs[m]? = some r → r.outcome = none → r.everCancelled = false → r.inRunning = true
  ok : ∀ (m : Nat) (r : Req), p.reqs[m]? = some r → r.everCancelled = false → ∀ o, r.outcome = some o →
         (o = .ok ∧ r.remaining = 0 ∧ r.items = [] ∧ (r.kind = .map → r.pulled = r.created + r.skipped)) ∨
         (r.kind = .map ∧ o = .exc (.user 4))
  nc1 : ∀ (m : Nat) (r : Req), p.reqs[m]? = some r → r.kind = .map → 1 ≤ r.nc
  ka : ∀ (m : Nat) (r : Req), p.reqs[m]? = some r → r.kind = .apply → r.items = []
  km : ∀ (m : Nat) (r : Req), p.reqs[m]? = some r → r.kind = .map → r.remaining = 0
  kw : ∀ (m : Nat) (r : Req), p.reqs[m]? = some r → r.frame = .waitMapSem → r.kind = .map
  pc0 : ∀ (m : Nat) (r : Req), p.reqs[m]? = some r → r.kind = .map → r.outcome = none → r.frame = .notStarted →
          r.pulled = r.created + r.skipped
  pc1 : ∀ (m : Nat) (r : Req), p.reqs[m]? = some r → r.kind = .map → r.outcome = none →
          r.frame = .waitRoom ∨ r.frame = .waitMapSem → r.pulled = r.created + r.skipped + 1

end Pool
end Taskpool
