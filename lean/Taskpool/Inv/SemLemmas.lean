import Taskpool.Inv.Sync
import Taskpool.Inv.Reg
/-! Semaphore release / registry-move helper lemmas used by the task wrapper and the spawners. -/
namespace Taskpool
namespace Pool

/-! ### the release -/

theorem wakeNextL_sum (n : Nat) (ws : List Waiter) (hn : 0 < n) (c : Cap) (ws' : List Waiter) (o : Option Nat)
    (h : wakeNextL (.fin n) ws = (c, ws', o)) :
    ∃ v', c = .fin v' ∧ v' + grantsL ws' = n + grantsL ws := by
  induction ws generalizing c ws' o with
  | nil =>
    simp [wakeNextL] at h
    obtain ⟨rfl, rfl, _⟩ := h
    exact ⟨n, rfl, rfl⟩
  | cons w ws ih =>
    unfold wakeNextL at h
    split at h
    · rename_i hp
      simp at h
      obtain ⟨rfl, rfl, _⟩ := h
      refine ⟨n - 1, by simp [Cap.dec], ?_⟩
      simp [grantsL, hp]; omega
    · rename_i hp
      generalize hr : wakeNextL (.fin n) ws = r at h
      obtain ⟨c1, w1, o1⟩ := r
      simp at h
      obtain ⟨rfl, rfl, _⟩ := h
      obtain ⟨v', h1, h2⟩ := ih c1 w1 o1 hr
      refine ⟨v', h1, ?_⟩
      simp only [grantsL, List.countP_cons] at h2 ⊢
      omega

/-- `_wake_up_next` with a free slot: afterwards either some waiter holds a granted slot or nobody is pending -/
theorem wakeNextL_wake (c0 : Cap) (ws : List Waiter) (c : Cap) (ws' : List Waiter) (o : Option Nat)
    (h : wakeNextL c0 ws = (c, ws', o)) (hg : grantsL ws' = 0) : ∀ w ∈ ws', w.st ≠ .pending := by
  induction ws generalizing c ws' o with
  | nil =>
    simp [wakeNextL] at h
    obtain ⟨_, rfl, _⟩ := h
    intro w hw; cases hw
  | cons w0 ws ih =>
    unfold wakeNextL at h
    split at h
    · simp at h
      obtain ⟨_, rfl, _⟩ := h
      simp [grantsL, List.countP_cons] at hg
    · rename_i hp
      generalize hr : wakeNextL c0 ws = r at h
      obtain ⟨c1, w1, o1⟩ := r
      simp at h
      obtain ⟨_, rfl, _⟩ := h
      have hg' : grantsL w1 = 0 := by
        simp only [grantsL, List.countP_cons] at hg ⊢; omega
      intro w hw
      rcases List.mem_cons.mp hw with rfl | hw'
      · exact hp
      · exact ih c1 w1 o1 hr hg' w hw'

theorem Sem.release_wake (s : Sem) (hg : grantsL s.release.1.waiters = 0) : ∀ w ∈ s.release.1.waiters, w.st ≠ .pending := by
  unfold Sem.release Sem.wakeNext at hg ⊢
  simp only at hg ⊢
  generalize hr : wakeNextL s.value.inc s.waiters = r at hg ⊢
  obtain ⟨c, ws', o⟩ := r
  exact wakeNextL_wake _ _ c ws' o hr hg

theorem Sem.wakeNext_wake (s : Sem) (hg : grantsL s.wakeNext.1.waiters = 0) : ∀ w ∈ s.wakeNext.1.waiters, w.st ≠ .pending := by
  unfold Sem.wakeNext at hg ⊢
  simp only at hg ⊢
  generalize hr : wakeNextL s.value s.waiters = r at hg ⊢
  obtain ⟨c, ws', o⟩ := r
  exact wakeNextL_wake _ _ c ws' o hr hg

@[simp] theorem schedOpt_resized (p : Pool) (o) : (p.schedOpt o).resized = p.resized := by cases o <;> rfl

theorem releasePool_resized (p : Pool) : p.releasePool.resized = p.resized := by
  unfold releasePool; simp

/-- a release re-establishes the no-lost-wake-up invariant outright -/
theorem wakeOK_releasePool (p : Pool) : WakeOK p.releasePool := by
  intro _ v _ _ hg
  have hs : p.releasePool.sem = p.sem.release.1 := by unfold releasePool; simp
  rw [hs] at hg ⊢
  exact Sem.release_wake p.sem hg

theorem moveToEnded_resized (p p1 : Pool) (t : Nat) (h : p.moveToEnded t = some p1) : p1.resized = p.resized := by
  unfold moveToEnded at h
  split at h
  · simp at h; subst h; rfl
  · split at h
    · simp at h; subst h; rfl
    · simp at h

theorem wakeNextL_inf (ws : List Waiter) : (wakeNextL .inf ws).1 = .inf := by
  induction ws with
  | nil => rfl
  | cons w ws ih =>
    unfold wakeNextL
    split
    · rfl
    · simp only; exact ih

theorem releasePool_inf (p : Pool) (hv : p.sem.value = .inf) (hw : p.sem.waiters = []) :
    p.releasePool.sem.value = .inf ∧ p.releasePool.sem.waiters = [] := by
  unfold releasePool Sem.release Sem.wakeNext
  simp [hv, hw, Cap.inc, wakeNextL]

theorem releasePool_tasks' (p : Pool) : p.releasePool.tasks = p.tasks := by
  unfold releasePool; simp

/-- `release()`: value + grants goes up by exactly one; tasks untouched -/
theorem releasePool_effect (p : Pool) (v : Nat) (hv : p.sem.value = .fin v) :
    ∃ v', p.releasePool.sem.value = .fin v' ∧
      v' + grantsL p.releasePool.sem.waiters = v + 1 + grantsL p.sem.waiters ∧
      p.releasePool.tasks = p.tasks := by
  unfold releasePool Sem.release Sem.wakeNext
  simp only [hv, Cap.inc]
  generalize hr : wakeNextL (Cap.fin (v + 1)) p.sem.waiters = r
  obtain ⟨c, ws', o⟩ := r
  obtain ⟨v', h1, h2⟩ := wakeNextL_sum (v+1) p.sem.waiters (by omega) c ws' o hr
  refine ⟨v', ?_, ?_, ?_⟩ <;> simp [h1, h2]

theorem moveToEnded_frame (p p1 : Pool) (t : Nat) (h : p.moveToEnded t = some p1) :
    p1.sem = p.sem ∧ p1.tasks = p.tasks := by
  unfold moveToEnded at h
  split at h
  · simp at h; subst h; exact ⟨rfl, rfl⟩
  · split at h
    · simp at h; subst h; exact ⟨rfl, rfl⟩
    · simp at h

@[simp] theorem schedOpt_running (p : Pool) (o) : (p.schedOpt o).running = p.running := by cases o <;> rfl
@[simp] theorem schedOpt_cancelledR (p : Pool) (o) : (p.schedOpt o).cancelledR = p.cancelledR := by cases o <;> rfl
@[simp] theorem schedOpt_ended (p : Pool) (o) : (p.schedOpt o).ended = p.ended := by cases o <;> rfl
@[simp] theorem schedOpt_lost (p : Pool) (o) : (p.schedOpt o).lost = p.lost := by cases o <;> rfl

theorem releasePool_regs (p : Pool) : p.releasePool.running = p.running ∧ p.releasePool.cancelledR = p.cancelledR ∧
    p.releasePool.ended = p.ended ∧ p.releasePool.lost = p.lost := by
  unfold releasePool; simp

@[simp] theorem schedOpt_groups (p : Pool) (o) : (p.schedOpt o).groups = p.groups := by cases o <;> rfl

theorem releasePool_groups (p : Pool) : p.releasePool.groups = p.groups := by
  unfold releasePool; simp

theorem moveToEnded_groups (p p1 : Pool) (t : Nat) (h : p.moveToEnded t = some p1) : p1.groups = p.groups := by
  unfold moveToEnded at h
  split at h
  · simp at h; subst h; rfl
  · split at h
    · simp at h; subst h; rfl
    · simp at h

theorem moveToEnded_lost (p p1 : Pool) (t : Nat) (h : p.moveToEnded t = some p1) : p1.lost = p.lost := by
  unfold moveToEnded at h
  split at h
  · simp at h; subst h; rfl
  · split at h
    · simp at h; subst h; rfl
    · simp at h
theorem moveToEnded_apis (p p1 : Pool) (t : Nat) (h : p.moveToEnded t = some p1) : p1.apis = p.apis := by
  unfold moveToEnded at h
  split at h
  · simp at h; subst h; rfl
  · split at h
    · simp at h; subst h; rfl
    · simp at h

theorem moveToEnded_gathers (p p1 : Pool) (t : Nat) (h : p.moveToEnded t = some p1) : p1.gathers = p.gathers := by
  unfold moveToEnded at h
  split at h
  · simp at h; subst h; rfl
  · split at h
    · simp at h; subst h; rfl
    · simp at h

@[simp] theorem schedOpt_gathers (p : Pool) (o) : (p.schedOpt o).gathers = p.gathers := by cases o <;> rfl

theorem releasePool_gathers (p : Pool) : p.releasePool.gathers = p.gathers := by
  unfold releasePool; simp

theorem moveToEnded_reqs (p p1 : Pool) (t : Nat) (h : p.moveToEnded t = some p1) : p1.reqs = p.reqs := by
  unfold moveToEnded at h
  split at h
  · simp at h; subst h; rfl
  · split at h
    · simp at h; subst h; rfl
    · simp at h

@[simp] theorem schedOpt_apis (p : Pool) (o) : (p.schedOpt o).apis = p.apis := by cases o <;> rfl

theorem releasePool_apis (p : Pool) : p.releasePool.apis = p.apis := by
  unfold releasePool; simp

end Pool
end Taskpool
