import Taskpool.Inv.GatherApi
import Taskpool.Inv.GoodInv
/-! The counting invariant of the gathers for **every reachable world**: the handles in the loop's ready queue are the
`R` of `PInv`.  A handle leaves the ready queue only by being run (a handle is addressed to an existing pool), so the
count per slot is tracked exactly. -/
namespace Taskpool

/-- handles of callback slot `gi` of pool `n` in the ready queue -/
def World.rdy (w : World) (n : Nat) (gi : Nat × Nat) : Nat :=
  w.ready.countP (fun x => x.1 == n && isCb gi x.2)

structure World.GInv (w : World) : Prop where
  /-- handles are addressed to existing pools -/
  idx : ∀ x ∈ w.ready, x.1 < w.pools.length
  inv : ∀ (n : Nat) (p : Pool), w.pools[n]? = some p → Pool.PInv (w.rdy n) p

theorem countP_eraseIdx {α} (l : List α) (k : Nat) (f : α → Bool) (x : α) (hx : l[k]? = some x) :
    (l.eraseIdx k).countP f + (if f x then 1 else 0) = l.countP f := by
  induction l generalizing k with
  | nil => simp at hx
  | cons a as ih =>
    cases k with
    | zero =>
      simp at hx; subst hx
      simp only [List.eraseIdx_zero, List.tail_cons, List.countP_cons]
    | succ n =>
      simp at hx
      have := ih n hx
      simp only [List.eraseIdx_cons_succ, List.countP_cons]
      omega

theorem countP_emit_map (n k : Nat) (gi : Nat × Nat) (l : List Ref) :
    (l.map fun r => (k, r)).countP (fun x => x.1 == n && isCb gi x.2) = if k = n then l.countP (isCb gi) else 0 := by
  induction l with
  | nil => simp
  | cons r rs ih =>
    simp only [List.map_cons, List.countP_cons, ih]
    by_cases e : k = n
    · subst e; simp
    · have : (k == n) = false := by simpa using e
      simp [e, this]

theorem drain_count (l : List Pool) (k n : Nat) (gi : Nat × Nat) :
    ((l.zipIdx k).map fun (p, i) => p.emit.map fun r => (i, r)).flatten.countP (fun x => x.1 == n && isCb gi x.2)
      = if k ≤ n then (match l[n - k]? with | some p => p.emit.countP (isCb gi) | none => 0) else 0 := by
  induction l generalizing k with
  | nil => simp
  | cons p ps ih =>
    simp only [List.zipIdx_cons, List.map_cons, List.flatten_cons, List.countP_append, countP_emit_map, ih (k + 1)]
    by_cases h1 : k = n
    · subst h1
      simp only [if_true, Nat.le_refl, Nat.sub_self, List.getElem?_cons_zero]
      have : ¬ k + 1 ≤ k := by omega
      simp [this]
    · by_cases h2 : k < n
      · have e1 : k + 1 ≤ n := h2
        have e2 : k ≤ n := by omega
        have e3 : n - k = (n - (k + 1)) + 1 := by omega
        simp only [h1, if_false, e1, e2, if_true, Nat.zero_add]
        rw [e3, List.getElem?_cons_succ]
      · have e1 : ¬ k + 1 ≤ n := by omega
        have e2 : ¬ k ≤ n := by omega
        simp [h1, e1, e2]

theorem World.rdy_drain (w : World) (n : Nat) (p : Pool) (hp : w.pools[n]? = some p) (gi : Nat × Nat) :
    w.drain.rdy n gi = w.rdy n gi + p.emit.countP (isCb gi) := by
  simp only [World.rdy, World.drain, List.countP_append]
  have := drain_count w.pools 0 n gi
  simp only [Nat.zero_le, if_true, Nat.sub_zero, hp] at this
  omega

theorem World.GInv.drain {w : World} (h : w.GInv) : w.drain.GInv := by
  refine ⟨?_, ?_⟩
  · intro x hx
    simp only [World.drain, List.mem_append, List.length_map] at hx ⊢
    rcases hx with hx | hx
    · exact h.idx x hx
    · simp only [List.mem_flatten, List.mem_map] at hx
      obtain ⟨l, ⟨⟨p, i⟩, hpi, rfl⟩, hxl⟩ := hx
      simp only [List.mem_map] at hxl
      obtain ⟨r, _, rfl⟩ := hxl
      have := List.mem_zipIdx hpi
      simp at this
      omega
  · intro n p' hp'
    simp only [World.drain, List.getElem?_map] at hp'
    cases hq : w.pools[n]? with
    | none => simp [hq] at hp'
    | some p =>
      simp only [hq, Option.map_some, Option.some.injEq] at hp'
      subst hp'
      exact (h.inv n p hq).drain.congr_R (fun gi => World.rdy_drain w n p hq gi)

theorem isCb_gchild (gi : Nat × Nat) (g j : Nat) : isCb gi (.gchild g j) = true ↔ gi = (g, j) := by
  obtain ⟨a, b⟩ := gi
  simp only [isCb, Bool.and_eq_true, beq_iff_eq, Prod.mk.injEq]
  constructor
  · rintro ⟨rfl, rfl⟩; exact ⟨rfl, rfl⟩
  · rintro ⟨rfl, rfl⟩; exact ⟨rfl, rfl⟩

theorem World.rdy_erase_le (w : World) (k : Nat) (n : Nat) (gi : Nat × Nat) :
    ({ w with ready := w.ready.eraseIdx k } : World).rdy n gi ≤ w.rdy n gi := by
  simp only [World.rdy]
  cases hx : w.ready[k]? with
  | none => rw [List.eraseIdx_of_length_le (by simpa using hx)]; exact Nat.le_refl _
  | some x => have := countP_eraseIdx w.ready k (fun x => x.1 == n && isCb gi x.2) x hx; omega

/-- erasing a handle that is not a handle of slot `gi` of pool `n` leaves the count of that slot alone -/
theorem World.rdy_erase_eq (w : World) (k : Nat) (n : Nat) (gi : Nat × Nat) (x : Nat × Ref) (hx : w.ready[k]? = some x)
    (hne : (x.1 == n && isCb gi x.2) = false) :
    ({ w with ready := w.ready.eraseIdx k } : World).rdy n gi = w.rdy n gi := by
  simp only [World.rdy]
  have := countP_eraseIdx w.ready k (fun x => x.1 == n && isCb gi x.2) x hx
  simp only [hne, Bool.false_eq_true, if_false] at this
  omega

theorem PInv_init (R : Nat × Nat → Nat) (cap : Cap) (simple : Option SpawnSpec) (hz : ∀ gi, R gi = 0) :
    Pool.PInv R (Pool.init cap simple) := by
  have hW : ∀ gi, Pool.W R (Pool.init cap simple) gi = 0 := by
    intro gi; simp [Pool.W, hz gi, Pool.pot, Pool.init]
  refine ⟨?_, ?_, ?_, ?_, ?_, ?_, ?_, ?_⟩
  · intro g i hp; rw [hW] at hp; exact absurd hp (Nat.lt_irrefl 0)
  · intro g G hG; simp [Pool.init] at hG
  · intro g G i t hG; simp [Pool.init] at hG
  · intro g G hG; simp [Pool.init] at hG
  · intro t g i hm; simp [Pool.dcb, Pool.init] at hm
  · intro m g i hm; simp [Pool.rcb, Pool.init] at hm
  · intro g G i m hG; simp [Pool.init] at hG
  · intro g G hG; simp [Pool.init] at hG

theorem World.GInv.step {w : World} (h : w.GInv) (hg : w.All BaseC) (hm : w.MCAll) (x : WOp) : (w.step x).1.GInv := by
  cases x with
  | mkpool size simple name =>
    simp only [World.step, World.mkpool]
    split
    · exact h
    · split
      · exact ⟨h.idx, h.inv⟩
      · refine ⟨?_, ?_⟩
        · intro x hx
          have := h.idx x hx
          simp only [List.length_append, List.length_cons, List.length_nil]; omega
        · intro n p hp
          simp only at hp
          rw [List.getElem?_append] at hp
          split at hp
          · exact h.inv n p hp
          · rename_i hge
            cases hi : n - w.pools.length with
            | succ m => rw [hi] at hp; simp at hp
            | zero =>
              rw [hi] at hp; simp at hp; subst hp
              have hz : ∀ gi, w.rdy n gi = 0 := by
                intro gi
                simp only [World.rdy, List.countP_eq_zero]
                intro x hx
                have := h.idx x hx
                have : ¬ x.1 = n := by omega
                simp [this]
              show Pool.PInv (w.rdy n) (Pool.init (mkCap size) simple)
              exact PInv_init _ _ _ hz
  | on i orders op =>
    simp only [World.step]
    split
    · exact h
    · rename_i p hp
      refine ⟨fun x hx => by simp only [List.length_set]; exact h.idx x hx, ?_⟩
      intro n p' hp'
      rcases getElem?_set_some _ _ _ _ _ hp' with ⟨rfl, rfl⟩ | ⟨_, hold⟩
      · refine (h.inv n p hp).frame ?_ ?_
        · exact (Pool.gv_applyOp _ op).trans (Pool.gv_orders p orders)
        · exact (Pool.tame_setOrders p orders).mono.trans (Pool.mono_applyOp _ op)
      · exact h.inv n p' hold
  | run k orders =>
    simp only [World.step]
    split
    · exact h
    · rename_i i r hk
      split
      · -- a handle is addressed to an existing pool
        rename_i hnone
        have := h.idx (i, r) (List.mem_of_getElem? hk)
        rw [List.getElem?_eq_none_iff] at hnone
        omega
      · rename_i p hp
        refine ⟨fun x hx => by simp only [List.length_set]; exact h.idx x (List.mem_of_mem_eraseIdx hx), ?_⟩
        intro n p' hp'
        rcases getElem?_set_some _ _ _ _ _ hp' with ⟨rfl, rfl⟩ | ⟨_, hold⟩
        · -- the pool the handle belongs to
          have hlt : n < w.cfgs.length := by rw [hg.len]; exact (List.getElem?_eq_some_iff.mp hp).1
          obtain ⟨cap, hgood⟩ := hg.inv n w.cfgs[n] p (by simp [hlt]) hp
          have hp0 : Pool.PInv (w.rdy n) ({ p with orders := orders } : Pool) :=
            (h.inv n p hp).frame (Pool.gv_orders p orders) (Pool.tame_setOrders p orders).mono
          have hof : Pool.OutFin ({ p with orders := orders } : Pool) := fun t k hk => Pool.Good.outFin hgood t k hk
          have hrv : Pool.RegValid ({ p with orders := orders } : Pool) := fun t ht => Pool.Good.regValid hgood t ht
          cases r with
          | task t =>
            exact (hp0.frame (Pool.gv_stepTask _ t) (Pool.mono_runRef _ (.task t))).congr_R
              (fun gi => World.rdy_erase_eq w k n gi _ hk (by simp [isCb]))
          | spawner m =>
            exact (hp0.frame (Pool.gv_stepMeta _ m) (Pool.mono_runRef _ (.spawner m))).congr_R
              (fun gi => World.rdy_erase_eq w k n gi _ hk (by simp [isCb]))
          | api a =>
            exact ((Pool.AInv.stepApi ⟨hp0, hof, hrv⟩ (hm n p hp) a).pinv).congr_R
              (fun gi => World.rdy_erase_eq w k n gi _ hk (by simp [isCb]))
          | gchild g j =>
            have hcnt : ∀ gi, ({ w with ready := w.ready.eraseIdx k } : World).rdy n gi
                + (if (n == n && isCb gi (.gchild g j)) then 1 else 0) = w.rdy n gi :=
              fun gi => countP_eraseIdx w.ready k (fun x => x.1 == n && isCb gi x.2) (n, .gchild g j) hk
            have hpos : 0 < w.rdy n (g, j) := by
              have := hcnt (g, j)
              have e : isCb (g, j) (.gchild g j) = true := (isCb_gchild (g, j) g j).mpr rfl
              simp only [beq_self_eq_true, e, Bool.and_self, if_true] at this
              omega
            refine (hp0.gchild hof g j hpos).congr_R ?_
            intro gi
            have := hcnt gi
            simp only [beq_self_eq_true, Bool.true_and] at this
            show ({ w with ready := w.ready.eraseIdx k } : World).rdy n gi = _
            unfold Pool.decAt
            by_cases e : gi = (g, j)
            · have e' : isCb gi (.gchild g j) = true := (isCb_gchild gi g j).mpr e
              simp only [e', if_true] at this
              simp only [e, if_true]; subst e; omega
            · have e' : isCb gi (.gchild g j) = false := by
                cases hx : isCb gi (.gchild g j) with
                | false => rfl
                | true => exact absurd ((isCb_gchild gi g j).mp hx) e
              simp only [e', Bool.false_eq_true, if_false] at this
              simp only [e, if_false]; omega
        · rename_i hne
          exact (h.inv n p' hold).congr_R
            (fun gi => World.rdy_erase_eq w k n gi _ hk (by
              have : ¬ i = n := fun e => hne e.symm
              simp [this]))

theorem World.GInv.next {w : World} (h : w.GInv) (hg : w.All BaseC) (hm : w.MCAll) (x : WOp) : (w.next x).GInv :=
  (h.step hg hm x).drain

theorem World.GInv.init (base : Nat) : (World.init base).GInv :=
  ⟨fun x hx => by simp [World.init] at hx, fun n p hp => by simp [World.init] at hp⟩

/-- **every reachable world** satisfies the counting invariant of the gathers -/
theorem World.ginv_run (base : Nat) (h : History) : ((World.init base).run h).GInv := by
  have key : ∀ (h : History) (w : World), w.GInv → w.All BaseC → w.MCAll → (w.run h).GInv := by
    intro h
    induction h with
    | nil => intro w a _ _; exact a
    | cons x xs ih =>
      intro w a b c
      simp only [World.run, List.foldl_cons]
      exact ih _ (a.next b c x) (World.all_next baseC_invariant w x (by cases x <;> rfl) b) (c.next x)
  exact key h _ (World.GInv.init base) (World.all_init BaseC base) (World.MCAll.init base)

end Taskpool
