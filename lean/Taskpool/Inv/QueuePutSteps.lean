import Taskpool.Inv.QueuePutters
/-! C20, bounded queues, part 3: every step of the shell preserves the no-lost-putter-wake-up invariant `PInv`. -/
namespace Taskpool.QueueM
namespace Q

/-! ### steps that leave the producers alone -/

theorem psame_k (q q' : Q) (hk : q'.k = q.k) (hp : q'.paux = q.paux) (hu : q'.putters = q.putters)
    (hr : ∀ i, Ref.producer i ∈ q.ready → Ref.producer i ∈ q'.ready) : PSame q q' :=
  ⟨by rw [hk], hp, hu, hr, by simp [Q.free, hk]⟩

theorem psame_modA (q : Q) (c : Nat) (f : Aux → Aux) : PSame q (q.modA c f) := psame_k _ _ rfl rfl rfl fun _ h => h
theorem psame_logEv (q : Q) (e : Ev) : PSame q (q.logEv e) := psame_k _ _ rfl rfl rfl fun _ h => h
theorem psame_schedC (q : Q) (c : Nat) : PSame q (q.schedC c) :=
  psame_k _ _ rfl rfl rfl fun _ h => by simp [schedC, h]

/-- a core step that leaves the producers, `maxsize` and the number of queued items alone (or lets the queue grow) -/
theorem psame_setK (q : Q) (k : K) (h1 : k.prods = q.k.prods) (h2 : k.maxsize = q.k.maxsize)
    (h3 : q.k.items.length ≤ k.items.length) : PSame q (q.setK k) :=
  ⟨h1, rfl, rfl, fun _ h => h, by simp only [Q.free, k_setK, h2]; omega⟩

theorem psame_wakeGetter (q : Q) : PSame q q.wakeGetter := by
  unfold wakeGetter
  simp only
  split
  · exact psame_k _ _ rfl rfl rfl fun _ h => h
  · refine PSame.trans ?_ (psame_schedC _ _)
    refine PSame.trans ?_ (psame_modA _ _ _)
    exact psame_k _ _ rfl rfl rfl fun _ h => h

theorem psame_armGate (q : Q) (c : Nat) : PSame q (q.armGate c) := by
  unfold armGate
  split
  · exact PSame.refl _
  · split
    · exact PSame.trans (psame_modA _ _ _) (psame_schedC _ _)
    · exact psame_modA _ _ _

theorem psame_waitGetter (q : Q) (c : Nat) : PSame q (q.waitGetter c) := by
  unfold waitGetter
  simp only
  have h0 : PSame q { q with getters := q.getters ++ [c] } := psame_k _ _ rfl rfl rfl fun _ h => h
  split
  · exact h0
  · split
    · exact PSame.trans (PSame.trans h0 (psame_modA _ _ _)) (psame_schedC _ _)
    · exact PSame.trans h0 (psame_modA _ _ _)

theorem psame_abortGet (q : Q) (c : Nat) (w : Bool) : PSame q (q.abortGet c w) := by
  unfold abortGet
  simp only
  have h0 : PSame q { q with getters := q.getters.erase c } := psame_k _ _ rfl rfl rfl fun _ h => h
  split
  · refine PSame.trans ?_ (psame_setK _ _ rfl rfl (Nat.le_refl _))
    refine PSame.trans ?_ (psame_logEv _ _)
    exact PSame.trans h0 (psame_wakeGetter _)
  · refine PSame.trans ?_ (psame_setK _ _ rfl rfl (Nat.le_refl _))
    exact PSame.trans h0 (psame_logEv _ _)

theorem psame_exitBlock (q : Q) (c : Nat) (e : Exit) : PSame q (q.exitBlock c e) := by
  obtain ⟨_, _, c', d, e'⟩ := K.pframe_exit q.k c e
  refine ⟨c', rfl, rfl, fun _ h => ?_, ?_⟩
  · simp [exitBlock, modA, h]
  · simp only [Q.free, k_exitBlock, d, e']; exact Nat.le_refl _

theorem psame_cancelConsumer (q : Q) (c : Nat) : PSame q (q.cancelConsumer c) := by
  unfold cancelConsumer
  split
  · split
    · exact PSame.refl _
    · split
      · exact PSame.trans (psame_modA _ _ _) (psame_schedC _ _)
      · exact psame_modA _ _ _
  · exact PSame.refl _

theorem psame_gate (q : Q) (c : Nat) (exc : Bool) : PSame q (q.gate c exc) := by
  unfold gate
  split
  · exact PSame.trans (psame_modA _ _ _) (psame_schedC _ _)
  · exact PSame.refl _

theorem psame_spawn (q : Q) : PSame q q.spawn :=
  ⟨rfl, rfl, rfl, fun _ h => by simp [spawn, h], Nat.le_refl _⟩

theorem psame_join (q : Q) : PSame q q.join :=
  ⟨rfl, rfl, rfl, fun _ h => by simp [join, h], Nat.le_refl _⟩

theorem psame_stepJoiner (q : Q) (j : Nat) : PSame q (q.stepJoiner j) := by
  obtain ⟨_, _, c', d, e'⟩ := K.pframe_stepJoiner q.k j
  exact ⟨c', rfl, rfl, fun _ h => h, by simp only [Q.free, k_stepJoiner, d, e']; exact Nat.le_refl _⟩

theorem psame_put (q : Q) (x : Nat) : PSame q (q.put x) := by
  unfold put
  split
  · exact PSame.refl _
  · exact PSame.trans (psame_setK q (q.k.put x) rfl rfl (by simp [K.put])) (psame_wakeGetter _)

/-- a handle that is not a producer's is taken off the ready queue -/
theorem psame_pop (q : Q) (n : Nat) (r : Ref) (hr : q.ready[n]? = some r) (hn : ∀ j, r ≠ .producer j) :
    PSame q { q with ready := q.ready.eraseIdx n } :=
  psame_k _ _ rfl rfl rfl fun i h => mem_eraseIdx_of_ne _ n _ _ hr (fun e => hn i e.symm) h

/-! ### `get_nowait()`: one item less, the next putter is woken -/

theorem pinv_tryGet (q : Q) (c : Nat) (hI : PInv q) : PInv (q.tryGet c) := by
  unfold tryGet
  split
  · exact PSame.pinv (PSame.trans (psame_setK q (q.k.wait c) rfl rfl (Nat.le_refl _)) (psame_waitGetter _ _)) hI
  · rename_i x rest hit
    obtain ⟨_, _, c', d, _, _⟩ := K.pframe_take q.k c
    have h1 : PInvF (q.setK (q.k.take c)) q.free :=
      hI.frame c' rfl (fun _ _ _ _ _ _ _ h => h) (fun _ h => h) (fun _ _ _ _ _ _ _ h => h) (fun _ => Nat.le_refl _)
    have h2 := pinvF_wakePutter _ _ h1
    have h3 := (PSame.trans (psame_logEv _ (.got c x)) (psame_armGate _ c)).pinvF h2
    refine h3.mono ?_
    have hl : (q.k.take c).items.length = rest.length := by
      unfold K.take; rw [hit]; rfl
    simp only [Q.free, k_armGate, k_logEv, k_wakePutter, k_setK, d, hl, hit, List.length_cons]
    omega

theorem pinv_handTake (q : Q) (hI : PInv q) : PInv q.handTake := by
  unfold handTake
  split
  · exact hI
  · rename_i x rest hit
    obtain ⟨_, _, c', d, _⟩ := K.pframe_handTake q.k
    have h2 := pinvF_wakePutter _ _ hI
    dsimp only
    refine h2.frame (by simpa using c') rfl (fun _ _ _ _ _ _ _ h => h) (fun _ h => h) (fun _ _ _ _ _ _ _ h => by simp [h]) (fun _ => ?_)
    have hl : q.k.handTake.items.length = rest.length := by
      rcases K.handTake_cases q.k with ⟨h0, _⟩ | ⟨y, rest', hit', e⟩
      · rw [hit] at h0; cases h0
      · rw [hit] at hit'; cases hit'
        rw [e, (K.pframe_taskDone _).2.2.2.2]
    simp only [Q.free, d, hl, hit, List.length_cons]
    omega

theorem pinv_stepConsumer (q : Q) (c : Nat) (hI : PInv q) : PInv (q.stepConsumer c) := by
  unfold stepConsumer
  split
  · rename_i kc a hk ha
    split
    · exact hI
    · simp only
      have h0 := (psame_modA q c fun x => { x with sched := false }).pinv hI
      split
      · unfold startConsumer
        split
        · exact PSame.pinv (PSame.trans (psame_modA _ _ _) (psame_setK _ _ rfl rfl (Nat.le_refl _))) h0
        · exact pinv_tryGet _ _ h0
      · unfold wakeWaiting
        simp only
        split
        · exact PSame.pinv (PSame.trans (psame_modA _ _ _) (psame_abortGet _ _ _)) h0
        · exact pinv_tryGet _ _ ((psame_modA _ _ _).pinv h0)
      · unfold leaveBlock
        simp only
        split
        · exact PSame.pinv (PSame.trans (PSame.trans (psame_modA _ _ _) (psame_logEv _ _)) (psame_exitBlock _ _ _)) h0
        · split
          · exact PSame.pinv (PSame.trans (psame_modA _ _ _) (psame_exitBlock _ _ _)) h0
          · exact PSame.pinv (PSame.trans (psame_modA _ _ _) (psame_exitBlock _ _ _)) h0
      · exact h0
  · exact hI

/-! ### producer tasks -/

theorem pointwise_id {α} (l : List α) (j : Nat) (x : α) (h : l[j]? = some x) :
    ∀ i, l[i]? = if i = j then some x else l[i]? := by
  intro i
  by_cases hij : i = j
  · subst hij; simp [h]
  · simp [hij]

theorem pointwise_modify {α} (l l0 : List α) (j : Nat) (x : α) (f : α → α)
    (h0 : ∀ i, l[i]? = if i = j then some x else l0[i]?) :
    ∀ i, (l.modify j f)[i]? = if i = j then some (f x) else l0[i]? := by
  intro i
  rw [List.getElem?_modify, h0 i]
  by_cases hij : i = j
  · subst hij; simp
  · have : ¬ j = i := fun e => hij e.symm
    simp [hij, this]

/-- the update lemma for the step of producer `j`, whose handle was just taken off the ready queue at index `n` -/
theorem _root_.Taskpool.QueueM.PInvF.update_run {q q' : Q} {f f' : Nat} (hI : PInvF q f) (n j : Nat) (p : Prod) (a : Aux) (p' : Prod) (a' : Aux)
    (hr : q.ready[n]? = some (.producer j)) (hp : q.k.prods[j]? = some p) (ha : q.paux[j]? = some a)
    (hP : ∀ i, q'.k.prods[i]? = if i = j then some p' else q.k.prods[i]?)
    (hA : ∀ i, q'.paux[i]? = if i = j then some a' else q.paux[i]?)
    (hready : ∀ r ∈ q.ready.eraseIdx n, r ∈ q'.ready)
    (hputters : q'.putters = q.putters ∨ q'.putters = q.putters ++ [j] ∨ q'.putters = q.putters.erase j)
    (hj1 : p'.phase = .waiting → a'.gate = .pending → a'.sched = false ∧ j ∈ q'.putters)
    (hj2 : p'.phase = .waiting → a'.gate ≠ .pending → a'.sched = true ∧ Ref.producer j ∈ q'.ready)
    (hj3 : j ∈ q'.putters → p'.phase ≠ .notStarted ∧ (a'.gate = .pending → p'.phase = .waiting))
    (hc : ∀ P W P' W' : Nat, P' + (if pendW p a then 1 else 0) = P + (if pendW p' a' then 1 else 0) →
            W' + (if wokenW p a then 1 else 0) = W + (if wokenW p' a' then 1 else 0) →
            (0 < P → f ≤ W) → 0 < P' → f' ≤ W') : PInvF q' f' := by
  refine hI.update j p a p' a' hp ha hP hA ?_ ?_ ?_ hj1 hj2 hj3 hc
  · intro i _ _ hij _ _ _ _ hi
    rcases hputters with e | e | e <;> rw [e]
    · exact hi
    · exact List.mem_append_left _ hi
    · exact (List.mem_erase_of_ne hij).2 hi
  · intro i hi
    rcases hputters with e | e | e <;> rw [e] at hi
    · exact .inr hi
    · rcases List.mem_append.1 hi with h | h
      · exact .inr h
      · exact .inl (by simpa using h)
    · exact .inr (List.mem_of_mem_erase hi)
  · intro i hij hi
    exact hready _ (mem_eraseIdx_of_ne _ n _ _ hr (by simp [hij]) hi)

theorem isWaitingP_iff (ph : PPhase) : isWaitingP ph = true ↔ ph = .waiting := by
  cases ph <;> simp [isWaitingP]

theorem free_zero_of_full (q : Q) (h : q.k.full = true) : q.free = 0 := by
  have := q.k.pos_of_full h
  simp only [Q.free]; omega

theorem K.full_pabort (k : K) (j : Nat) : (k.pabort j).full = k.full := rfl

theorem pendW_not_waiting (p : Prod) (a : Aux) (h : p.phase ≠ .waiting) : pendW p a = false := by
  cases hph : p.phase <;> simp_all [pendW, isWaitingP]
theorem wokenW_not_waiting (p : Prod) (a : Aux) (h : p.phase ≠ .waiting) : wokenW p a = false := by
  cases hph : p.phase <;> simp_all [wokenW, isWaitingP]
theorem pendW_waiting (p : Prod) (a : Aux) (h : p.phase = .waiting) : pendW p a = (a.gate == .pending) := by
  simp [pendW, isWaitingP, h]
theorem wokenW_waiting (p : Prod) (a : Aux) (h : p.phase = .waiting) : wokenW p a = (a.gate == .woken) := by
  simp [wokenW, isWaitingP, h]

/-- `put()` of producer `j`, at its first step or after its putter future was resolved -/
theorem pinv_tryPut (q q1 : Q) (n j : Nat) (p : Prod) (a a1 : Aux) (x : Nat) (hI : PInv q)
    (hr : q.ready[n]? = some (.producer j)) (hp : q.k.prods[j]? = some p) (ha : q.paux[j]? = some a)
    (hk : q1.k = q.k) (hA1 : ∀ i, q1.paux[i]? = if i = j then some a1 else q.paux[i]?)
    (hu : q1.putters = q.putters) (hrd : q1.ready = q.ready.eraseIdx n)
    (hg1 : a1.gate = a.gate) (hs1 : a1.sched = false)
    (hcase : p.phase = .notStarted ∨ (p.phase = .waiting ∧ a.gate = .woken)) : PInv (q1.tryPut j x) := by
  have hp1 : q1.k.prods[j]? = some p := by rw [hk]; exact hp
  have hpa : pendW p a = false := by
    rcases hcase with h | ⟨h1, h2⟩
    · exact pendW_not_waiting p a (by rw [h]; simp)
    · rw [pendW_waiting p a h1, h2]; rfl
  unfold tryPut
  split
  · rename_i hfull
    have hfree : ((q1.setK (q1.k.pwait j)).waitPutter j).free = 0 := by
      have := free_zero_of_full q1 hfull
      simpa [Q.free, waitPutter, modP, K.pwait, K.setPP] using this
    rw [PInv, hfree]
    refine hI.update_run n j p a { p with phase := .waiting } { a1 with gate := .pending, suspended := true } hr hp ha
      ?_ ?_ ?_ (.inr (.inl ?_)) ?_ ?_ ?_ ?_
    · have := pointwise_modify q1.k.prods q.k.prods j p (fun y => { y with phase := .waiting }) (by rw [hk]; exact pointwise_id _ j p hp)
      exact this
    · exact pointwise_modify q1.paux q.paux j a1 _ hA1
    · intro r h; simpa [waitPutter, modP, setK, hrd] using h
    · simp [waitPutter, modP, setK, hu]
    · intro _ _; exact ⟨hs1, by simp [waitPutter, modP, setK]⟩
    · intro _ h; simp at h
    · intro _; exact ⟨by simp, fun _ => rfl⟩
    · intro P W P' W' _ _ _ _
      exact Nat.zero_le _
  · rename_i hfull
    have hfull' : q1.k.full = false := by simpa using hfull
    have hmid : PInv (q1.setK (q1.k.pput j)) := by
      have hfree : (q1.setK (q1.k.pput j)).free = q.free - 1 := by
        rw [K.pput_eq q1.k j p hp1]
        simp only [Q.free, k_setK, K.setPP, List.length_append, List.length_singleton, hk]
        omega
      rw [PInv, hfree]
      refine hI.update_run n j p a { p with phase := .done true } a1 hr hp ha ?_ ?_ ?_ (.inl ?_) ?_ ?_ ?_ ?_
      · rw [K.pput_eq q1.k j p hp1]
        have := pointwise_modify q1.k.prods q.k.prods j p (fun y => { y with phase := .done true })
          (by rw [hk]; exact pointwise_id _ j p hp)
        exact this
      · exact hA1
      · intro r h; simpa [setK, hrd] using h
      · simp [setK, hu]
      · intro h; simp at h
      · intro h; simp at h
      · intro hj
        refine ⟨by simp, fun hg => ?_⟩
        rcases hcase with h | ⟨_, h⟩
        · obtain ⟨p2, a2, h1, _, h3, _⟩ := hI.mem j (by simpa [setK, hu] using hj)
          rw [hp] at h1; cases h1
          exact absurd h h3
        · rw [hg1, h] at hg; cases hg
      · intro P W P' W' e1 e2 h0 hpos
        have hp'1 : pendW { p with phase := .done true } a1 = false := pendW_not_waiting _ _ (by simp)
        have hp'2 : wokenW { p with phase := .done true } a1 = false := wokenW_not_waiting _ _ (by simp)
        rw [hpa, hp'1] at e1
        rw [hp'2] at e2
        simp only [Bool.false_eq_true, if_false, Nat.add_zero] at e1 e2
        have : 0 < P := by omega
        have := h0 this
        split at e2 <;> omega
    exact PSame.pinv (PSame.trans (psame_wakeGetter _) (psame_logEv _ _)) hmid

/-- `CancelledError` inside `put()`: the putter future of producer `j` was cancelled, or it had been resolved and the
task was cancelled before it ran — then the wake-up is handed to the next putter -/
theorem pinv_abortPut (q q1 : Q) (n j : Nat) (p : Prod) (a a1 : Aux) (w : Bool) (hI : PInv q)
    (hr : q.ready[n]? = some (.producer j)) (hp : q.k.prods[j]? = some p) (ha : q.paux[j]? = some a)
    (hk : q1.k = q.k) (hA1 : ∀ i, q1.paux[i]? = if i = j then some a1 else q.paux[i]?)
    (hu : q1.putters = q.putters) (hrd : q1.ready = q.ready.eraseIdx n)
    (hg1 : a1.gate = a.gate) (hw : p.phase = .waiting) (hg : a.gate ≠ .pending) (hwr : w = (a.gate == .woken)) :
    PInv (q1.abortPut j w) := by
  unfold abortPut
  simp only
  have hpa : pendW p a = false := by
    rw [pendW_waiting p a hw]; cases hga : a.gate <;> simp_all
  have hwa : wokenW p a = w := by rw [wokenW_waiting p a hw, hwr]
  have hm : PInvF (({ q1 with putters := q1.putters.erase j } : Q).setK (q1.k.pabort j)) (q.free - (if w then 1 else 0)) := by
    refine hI.update_run n j p a { p with phase := .done false } a1 hr hp ha ?_ ?_ ?_ (.inr (.inr ?_)) ?_ ?_ ?_ ?_
    · have := pointwise_modify q1.k.prods q.k.prods j p (fun y => { y with phase := .done false })
        (by rw [hk]; exact pointwise_id _ j p hp)
      exact this
    · exact hA1
    · intro r h; simpa [setK, hrd] using h
    · simp [setK, hu]
    · intro h; simp at h
    · intro h; simp at h
    · intro _; exact ⟨by simp, fun h => absurd (hg1 ▸ h) hg⟩
    · intro P W P' W' e1 e2 h0 hpos
      have hp'1 : pendW { p with phase := .done false } a1 = false := pendW_not_waiting _ _ (by simp)
      have hp'2 : wokenW { p with phase := .done false } a1 = false := wokenW_not_waiting _ _ (by simp)
      rw [hpa, hp'1] at e1
      rw [hwa, hp'2] at e2
      simp only [Bool.false_eq_true, if_false, Nat.add_zero] at e1 e2
      have : 0 < P := by omega
      have := h0 this
      split at e2 <;> simp_all <;> omega
  have hfree : ∀ q2 : Q, q2.k = q1.k.pabort j → q2.free = q.free := by
    intro q2 h2
    simp [Q.free, h2, K.pabort, K.setPP, hk]
  split
  · rename_i hc
    have h2 := pinvF_wakePutter _ _ hm
    have h3 := (psame_logEv _ (.pCancel j)).pinvF h2
    refine h3.mono ?_
    rw [hfree _ (by simp)]
    cases w <;> simp <;> omega
  · rename_i hc
    have h3 := (psame_logEv _ (.pCancel j)).pinvF hm
    refine h3.mono ?_
    rw [hfree _ (by simp)]
    cases hwt : w with
    | false => simp
    | true =>
      have hfull : q1.k.full = true := by
        simp only [k_setK, K.full_pabort, hwt] at hc
        cases hf : q1.k.full <;> simp_all
      have := free_zero_of_full q1 hfull
      simp only [Q.free, hk] at this
      simp only [Q.free]; omega

theorem pinv_stepProducer (q : Q) (n j : Nat) (hr : q.ready[n]? = some (.producer j)) (hI : PInv q) :
    PInv (({ q with ready := q.ready.eraseIdx n } : Q).stepProducer j) := by
  unfold stepProducer
  split
  · rename_i p a hp ha
    have hp : q.k.prods[j]? = some p := hp
    have ha : q.paux[j]? = some a := ha
    split
    · rename_i hs
      have hs : a.sched = false := by simpa using hs
      refine hI.frame rfl rfl (fun _ _ _ _ _ _ _ h => h) (fun _ h => h) ?_ (fun _ => Nat.le_refl _)
      intro i pi ai hpi hai hw hg hi
      by_cases hij : i = j
      · subst hij
        rw [hp] at hpi; rw [ha] at hai; cases hpi; cases hai
        have := (hI.fly i p a hp ha hw hg).1
        rw [hs] at this; cases this
      · exact mem_eraseIdx_of_ne _ n _ _ hr (by simp [hij]) hi
    · rename_i hs
      have hs : a.sched = true := by simpa using hs
      have hA0 := pointwise_modify q.paux q.paux j a (fun x => { x with sched := false }) (pointwise_id _ j a ha)
      simp only
      split
      · rename_i hph
        unfold startProducer
        split
        · -- cancelled before its first step
          refine hI.update_run n j p a { p with phase := .done false } { a with sched := false, mustCancel := false } hr hp ha
            ?_ ?_ ?_ (.inl rfl) ?_ ?_ ?_ ?_
          · exact pointwise_modify q.k.prods q.k.prods j p (fun y => { y with phase := .done false }) (pointwise_id _ j p hp)
          · exact pointwise_modify _ q.paux j _ (fun y => { y with mustCancel := false }) hA0
          · intro r h; exact h
          · intro h; simp at h
          · intro h; simp at h
          · intro hj
            obtain ⟨p2, a2, h1, _, h3, _⟩ := hI.mem j hj
            rw [hp] at h1; cases h1
            exact absurd hph h3
          · intro P W P' W' e1 e2 h0 hpos
            simp only [pendW, wokenW, isWaitingP, hph, Bool.false_and, Bool.false_eq_true, if_false, Nat.add_zero] at e1 e2
            have : 0 < P := by omega
            have := h0 this
            simp only [Q.free, k_setK, k_modP, K.pabort, K.setPP] at *
            omega
        · exact pinv_tryPut q _ n j p a _ p.item hI hr hp ha rfl hA0 rfl rfl rfl rfl (.inl hph)
      · rename_i hph
        have hgp : a.gate ≠ .pending := by
          intro hg
          have := (hI.pend j p a hp ha hph hg).1
          rw [hs] at this; cases this
        unfold wakeProducer
        simp only
        have hA1 := pointwise_modify _ q.paux j _ (fun y : Aux => { y with mustCancel := false, suspended := false }) hA0
        split
        · exact pinv_abortPut q _ n j p a _ _ hI hr hp ha rfl hA1 rfl rfl rfl hph hgp rfl
        · rename_i hc
          have hgw : a.gate = .woken := by
            cases hga : a.gate <;> simp_all
          exact pinv_tryPut q _ n j p a _ p.item hI hr hp ha rfl hA1 rfl rfl rfl rfl (.inr ⟨hph, hgw⟩)
      · rename_i b hph
        refine hI.update_run n j p a p { a with sched := false } hr hp ha (pointwise_id _ j p hp) hA0 (fun r h => h) (.inl rfl)
          ?_ ?_ ?_ ?_
        · intro h; rw [hph] at h; cases h
        · intro h; rw [hph] at h; cases h
        · intro hj
          obtain ⟨p2, a2, h1, h2, h3, h4⟩ := hI.mem j hj
          rw [hp] at h1; rw [ha] at h2; cases h1; cases h2
          exact ⟨h3, h4⟩
        · intro P W P' W' e1 e2 h0 hpos
          simp only [pendW, wokenW, isWaitingP, hph, Bool.false_and, Bool.false_eq_true, if_false, Nat.add_zero] at e1 e2
          have : 0 < P := by omega
          have := h0 this
          simp only [Q.free, k_modP] at *
          omega
  · rename_i hnone
    refine hI.frame rfl rfl (fun _ _ _ _ _ _ _ h => h) (fun _ h => h) ?_ (fun _ => Nat.le_refl _)
    intro i pi ai hpi hai _ _ hi
    by_cases hij : i = j
    · subst hij
      exact absurd hai (by intro h; exact hnone pi ai hpi h)
    · exact mem_eraseIdx_of_ne _ n _ _ hr (by simp [hij]) hi

theorem pinv_cancelProducer (q : Q) (j : Nat) (hI : PInv q) : PInv (q.cancelProducer j) := by
  unfold cancelProducer
  split
  · rename_i p a hp ha
    split
    · exact hI
    · rename_i hnd
      split
      · rename_i hc
        simp only [Bool.and_eq_true, beq_iff_eq] at hc
        refine hI.update j p a p { a with gate := .cancelled, suspended := false, sched := true } hp ha ?_ ?_
          (fun _ _ _ _ _ _ _ _ h => h) (fun _ h => .inr h) (fun _ _ h => by simp [schedP, modP, h]) ?_ ?_ ?_ ?_
        · exact pointwise_id _ j p hp
        · have h1 := pointwise_modify q.paux q.paux j a (fun x => { x with gate := .cancelled, suspended := false })
            (pointwise_id _ j a ha)
          exact pointwise_modify _ q.paux j _ (fun x => { x with sched := true }) h1
        · intro _ h; simp at h
        · intro _ _; simp [schedP, modP]
        · intro hj
          obtain ⟨p2, a2, h1, _, h3, _⟩ := hI.mem j hj
          rw [hp] at h1; cases h1
          exact ⟨h3, fun h => by simp at h⟩
        · intro P W P' W' e1 e2 h0 hpos
          have x1 : pendW p { a with gate := .cancelled, suspended := false, sched := true } = false := by simp [pendW]
          have x2 : wokenW p { a with gate := .cancelled, suspended := false, sched := true } = false := by simp [wokenW]
          have x3 : wokenW p a = false := by simp [wokenW, hc.2]
          rw [x1] at e1
          rw [x2, x3] at e2
          simp only [Bool.false_eq_true, if_false, Nat.add_zero] at e1 e2
          have : 0 < P := by omega
          have := h0 this
          simp only [Q.free, k_schedP, k_modP] at *
          omega
      · refine hI.update j p a p { a with mustCancel := true } hp ha (pointwise_id _ j p hp) ?_
          (fun _ _ _ _ _ _ _ _ h => h) (fun _ h => .inr h) (fun _ _ h => h) ?_ ?_ ?_ ?_
        · exact pointwise_modify q.paux q.paux j a (fun x => { x with mustCancel := true }) (pointwise_id _ j a ha)
        · intro hw hg; exact hI.pend j p a hp ha hw hg
        · intro hw hg; exact hI.fly j p a hp ha hw hg
        · intro hj
          obtain ⟨p2, a2, h1, h2, h3, h4⟩ := hI.mem j hj
          rw [hp] at h1; rw [ha] at h2; cases h1; cases h2
          exact ⟨h3, h4⟩
        · intro P W P' W' e1 e2 h0 hpos
          have x1 : pendW p { a with mustCancel := true } = pendW p a := rfl
          have x2 : wokenW p { a with mustCancel := true } = wokenW p a := rfl
          rw [x1] at e1
          rw [x2] at e2
          have : 0 < P := by omega
          have := h0 this
          simp only [Q.free, k_modP] at *
          omega
  · exact hI

theorem pinv_produce (q : Q) (x : Nat) (hI : PInv q) : PInv (q.produce x) := by
  have hl := hI.len
  constructor
  · simp [produce, K.produce, hl]
  · intro i p a hp ha hw hg
    simp only [produce, K.produce, List.getElem?_append] at hp ha
    split at hp
    · rename_i hlt
      rw [if_pos (hl ▸ hlt)] at ha
      exact hI.pend i p a hp ha hw hg
    · rename_i hge
      cases hi : i - q.k.prods.length with
      | zero => simp [hi] at hp; subst hp; cases hw
      | succ m => simp [hi] at hp
  · intro i p a hp ha hw hg
    simp only [produce, K.produce, List.getElem?_append] at hp ha
    split at hp
    · rename_i hlt
      rw [if_pos (hl ▸ hlt)] at ha
      obtain ⟨h1, h2⟩ := hI.fly i p a hp ha hw hg
      exact ⟨h1, by simp [produce, h2]⟩
    · rename_i hge
      cases hi : i - q.k.prods.length with
      | zero => simp [hi] at hp; subst hp; cases hw
      | succ m => simp [hi] at hp
  · intro i hi
    obtain ⟨p, a, h1, h2, h3, h4⟩ := hI.mem i hi
    have hlt : i < q.k.prods.length := (List.getElem?_eq_some_iff.1 h1).1
    refine ⟨p, a, ?_, ?_, h3, h4⟩
    · simp only [produce, K.produce]; rw [List.getElem?_append_left hlt]; exact h1
    · simp only [produce]; rw [List.getElem?_append_left (hl ▸ hlt)]; exact h2
  · have e1 := cnt2_append pendW q.k.prods q.paux { item := x, phase := .notStarted }
      { gate := .pending, gateExc := false, suspended := false, mustCancel := false, sched := true } hl
    have e2 := cnt2_append wokenW q.k.prods q.paux { item := x, phase := .notStarted }
      { gate := .pending, gateExc := false, suspended := false, mustCancel := false, sched := true } hl
    simp only [pendW, wokenW, isWaitingP, Bool.false_and, Bool.false_eq_true, if_false, Nat.add_zero] at e1 e2
    simp only [produce, K.produce, Q.free]
    rw [e1, e2]
    exact hI.cnt

/-! ### every step -/

theorem pinv_step (q : Q) (i : Input) (hI : PInv q) : PInv (q.step i) := by
  cases i with
  | put x => exact (psame_put q x).pinv hI
  | spawn => exact (psame_spawn q).pinv hI
  | join => exact (psame_join q).pinv hI
  | cancel c => exact (psame_cancelConsumer q c).pinv hI
  | gate c e => exact (psame_gate q c e).pinv hI
  | take => exact pinv_handTake q hI
  | produce x => exact pinv_produce q x hI
  | cancelp j => exact pinv_cancelProducer q j hI
  | run n =>
    simp only [step]
    split
    · exact hI
    · rename_i r hr
      cases r with
      | consumer c => exact pinv_stepConsumer _ c ((psame_pop q n _ hr (by simp)).pinv hI)
      | joiner j0 => exact (PSame.trans (psame_pop q n _ hr (by simp)) (psame_stepJoiner _ j0)).pinv hI
      | producer j0 => exact pinv_stepProducer q n j0 hr hI

theorem pinv_run (q : Q) (ins : List Input) (hI : PInv q) : PInv (q.run ins) := by
  induction ins generalizing q with
  | nil => exact hI
  | cons i is ih => exact ih _ (pinv_step q i hI)

/-- every reachable state has no lost putter wake-up -/
theorem pinv_reach (n : Nat) (ins : List Input) : PInv ((Q.initN n).run ins) := pinv_run _ _ (pinv_initN n)

end Q
end Taskpool.QueueM
