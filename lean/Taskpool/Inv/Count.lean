import Taskpool.Inv.GoodInv
/-! Counting: a duplicate-free list of ids of tasks with a property is no longer than the number of such tasks. -/
namespace Taskpool

theorem len_filter_range {α} (P : α → Bool) (ts : List α) :
    ((List.range ts.length).filter (fun i => (ts[i]?.map P).getD false)).length = ts.countP P := by
  induction ts with
  | nil => simp
  | cons a as ih =>
    rw [List.length_cons, List.range_succ_eq_map, List.filter_cons]
    simp only [List.getElem?_cons_zero, Option.map_some, Option.getD_some, List.filter_map, List.length_map,
      List.countP_cons]
    have : (List.filter ((fun i => (Option.map P (a :: as)[i]?).getD false) ∘ Nat.succ) (List.range as.length))
        = List.filter (fun i => (as[i]?.map P).getD false) (List.range as.length) := by
      apply List.filter_congr
      intro i _
      simp
    rw [this]
    split <;> simp_all <;> omega

theorem nodup_ids_le_countP {α} (P : α → Bool) (ts : List α) (l : List Nat) (hnd : l.Nodup)
    (h : ∀ i ∈ l, ∃ x, ts[i]? = some x ∧ P x = true) : l.length ≤ ts.countP P := by
  rw [← len_filter_range]
  apply List.Nodup.length_le_of_subset hnd
  intro i hi
  obtain ⟨x, hx, hp⟩ := h i hi
  simp only [List.mem_filter, List.mem_range]
  exact ⟨(List.getElem?_eq_some_iff.mp hx).1, by simp [hx, hp]⟩

/-- the tasks filed as running or cancelled are distinct tasks that still hold their slot -/
theorem inflight_le_held (p : Pool) (hr : RegOK p) : p.running.length + p.cancelledR.length ≤ heldL p.tasks := by
  have hnd : (p.running ++ p.cancelledR).Nodup := (List.nodup_append.mp hr.nd).1
  have := nodup_ids_le_countP (fun t : PTask => !t.released) p.tasks (p.running ++ p.cancelledR) hnd (by
    intro i hi
    rcases List.mem_append.mp hi with h | h
    · obtain ⟨tk, a, b⟩ := hr.run i h; exact ⟨tk, a, by simp [b]⟩
    · obtain ⟨tk, a, b, _⟩ := hr.can i h; exact ⟨tk, a, by simp [b]⟩)
  simpa [heldL] using this

/-- … and when nothing was lost they are *all* the tasks that still hold their slot -/
theorem held_le_inflight (p : Pool) (hr : RegOK p) (hl : p.lost = false) :
    heldL p.tasks ≤ p.running.length + p.cancelledR.length := by
  unfold heldL
  rw [← len_filter_range, ← List.length_append]
  apply List.Nodup.length_le_of_subset
  · exact (List.nodup_range).filter _
  · intro i hi
    simp only [List.mem_filter, List.mem_range] at hi
    cases hx : p.tasks[i]? with
    | none => simp [hx] at hi
    | some tk =>
      simp [hx] at hi
      exact List.mem_append.mpr (hr.cpl hl i tk hx hi.2)

end Taskpool
