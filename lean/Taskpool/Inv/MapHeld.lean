import Taskpool.Inv.Steps
/-! **A finished map task has handed back its map slot.**  The wrapped end callback of a map-style call releases the
call's own semaphore *before* the user's end callback runs; only a wrapper that dies of a `KeyError` (`lost`) skips it. -/
namespace Taskpool
namespace Pool

structure MHOK (p : Pool) : Prop where
  /-- a task of an apply/start request never holds a map slot -/
  nm : ∀ (t : Nat) (k : PTask), p.tasks[t]? = some k → k.isMap = false → k.mapHeld = false
  /-- inside the (coroutine) end callback the map slot is already released -/
  ec : ∀ (t : Nat) (k : PTask), p.tasks[t]? = some k → k.phase = .inEndCb → k.mapHeld = false
  /-- so is it once the wrapper has returned, unless a task was lost -/
  fin : ∀ (t : Nat) (k : PTask), p.tasks[t]? = some k → k.phase = .finished → p.lost = false → k.mapHeld = false

end Pool
end Taskpool
