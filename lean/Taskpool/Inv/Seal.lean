import Taskpool.Inv.Tame
import Taskpool.Model.World
/-! **A pending `gather_and_close()` seals the pool** (histories without `unlock()`).

Known finding R9 (DESIGN §6) is: `unlock()` while a `gather_and_close()` is pending re-admits requests whose tasks
end after the registries were cleared.  `SealOK` is the invariant that holds when nobody ever calls `unlock()` —
neither the caller nor user code the pool runs — and that makes `gather_and_close()` safe:

* `fr` — a live spawner is filed as running (`_group_meta_tasks_running`) or **doomed**: `must_cancel` is set, or the
  future it is suspended on — its entry in the waiter queue of the pool's resp. of its own semaphore — is cancelled
  (`DoomedAt`, the notion of `CancOK`).  Being filed as *cancelled* is not required: a `flush()` forgets
  `_meta_tasks_cancelled` wholesale, also spawners cancelled while it was waiting.  A doomed spawner creates no task
  (`C07_doomed_next_step`).  The spawner whose handle is being run (`E`) is exempt.
* `lk` — while a `gather_and_close()` waits in one of its two gathers the pool is locked.
* `g1` — its first gather (which collects exceptions) has **every spawner filed as running** among its children; no
  spawner is filed as running later, because the pool is locked.
* `g2` — once it has passed the first gather, no spawner is filed as running any more — so by `fr` every live spawner
  is doomed and no task is created from then on — and its second gather has **every task filed as running or
  cancelled** among its children, for as long as it waits: `gather_and_close()` awaits everything.
* `nh` — no user code of the pool calls `unlock()`.

With `FlushOK.gth` (a gather that completed normally has seen all its child tasks finish) `g2` gives: the closing step
drops no task that still holds its slot, i.e. the ghost bit `lost` is never set by `gather_and_close()`. -/
namespace Taskpool

def HookOp.isUnlock : HookOp → Bool
  | .unlock => true
  | _ => false

/-- no `unlock()` among the pool calls of this user code -/
def Hooks.noUnlock (h : Hooks) : Bool :=
  (h.start ++ h.endCb ++ h.cancelCb ++ h.pull ++ h.next).all fun o => !o.isUnlock

def SpawnSpec.noUnlock (sp : SpawnSpec) : Bool := sp.hooks.noUnlock

/-- the operations admitted by the theorems about sealed pools: no `unlock()` by the caller, none in the user code
handed to the pool with a request -/
def Op.noUnlock : Op → Bool
  | .unlock => false
  | .apply _ _ sp => sp.noUnlock
  | .map _ _ _ _ sp => sp.noUnlock
  | _ => true

/-- … and none in the function and callbacks a `SimpleTaskPool` is constructed with -/
def mkNoUnlock : Option SpawnSpec → Bool
  | some sp => sp.noUnlock
  | none => true

/-- a `gather_and_close()` call that is suspended in one of its two gathers -/
def Api.gacPending (A : Api) : Bool :=
  A.kind.isGac && (match A.frame with | .gather1 _ => true | .gather2 _ => true | _ => false)

namespace Pool

/-- every spawner child of a completed exception-collecting gather has finished (derived from the world-level counting
invariant of the gathers, `Inv/GatherInv.lean`; a premise of the pool-local walk) -/
def SpawnersWaited (p : Pool) : Prop :=
  ∀ (g : Nat) (G : Gather), p.gathers[g]? = some G → G.retExc = true → G.outer.isSome = true →
    ∀ m, Child.spawner m ∈ G.children → ∃ r : Req, p.reqs[m]? = some r ∧ r.outcome.isSome = true

/-- `gacStage1` up to and including the start of its first gather (the state in which that gather may already be
complete) -/
def gacStage1Pre (p : Pool) (a : Nat) (re : Bool) : Pool × Nat :=
  let p : Pool := { p with locked := true }
  let runningMetas := indicesWhere p.reqs fun r => r.inRunning
  let children := p.metaCancelled.map Child.spawner ++ runningMetas.map Child.spawner
  let amb := !re && (failKindsExc p (children.take p.metaCancelled.length)).length > 1
  let p : Pool := { p with ambiguous := p.ambiguous || amb }
  p.gatherStart children true a 0

theorem gacStage1_eq (p : Pool) (a : Nat) (re : Bool) :
    p.gacStage1 a re =
      match (p.gacStage1Pre a re).1.gatherOuter (p.gacStage1Pre a re).2 with
      | some _ => (p.gacStage1Pre a re).1.gacAfter1 a re (p.gacStage1Pre a re).2
      | none => (p.gacStage1Pre a re).1.modApi a fun x => { x with frame := .gather1 (p.gacStage1Pre a re).2 } := rfl

structure SealOK (E : Nat → Prop) (p : Pool) : Prop where
  fr : ∀ (m : Nat) (r : Req), p.reqs[m]? = some r → ¬ E m → r.outcome = none → r.inRunning = true ∨ DoomedAt p m r
  lk : ∀ (a : Nat) (A : Api), p.apis[a]? = some A → A.gacPending = true → p.locked = true
  g1 : ∀ (a : Nat) (A : Api) (g : Nat), p.apis[a]? = some A → A.kind.isGac = true → A.frame = .gather1 g →
         ∃ G : Gather, p.gathers[g]? = some G ∧ G.retExc = true ∧
           ∀ (m : Nat) (r : Req), p.reqs[m]? = some r → r.inRunning = true → Child.spawner m ∈ G.children
  g2 : ∀ (a : Nat) (A : Api) (g : Nat), p.apis[a]? = some A → A.kind.isGac = true → A.frame = .gather2 g →
         (∀ (m : Nat) (r : Req), p.reqs[m]? = some r → r.inRunning = false) ∧
         ∃ G : Gather, p.gathers[g]? = some G ∧ ∀ t ∈ p.running ++ p.cancelledR, Child.task t ∈ G.children
  nh : (match p.simple with | some sp => sp.noUnlock | none => true) = true ∧
       ∀ (m : Nat) (r : Req), p.reqs[m]? = some r → r.hooks.noUnlock = true

/-- nobody exempt: the state between two steps -/
abbrev Seal (p : Pool) : Prop := SealOK (fun _ => False) p

/-! Boolean restatement, evaluated by the driver on every state (a cross-check, not a proof obligation). -/

def ownCancelledB' (m : Nat) (ws : List Waiter) : Bool := (removeWaiterL m ws).1 == some .cancelled

def doomedB (p : Pool) (m : Nat) (r : Req) : Bool :=
  r.mustCancel || (r.frame == .waitRoom && ownCancelledB' m p.sem.waiters) ||
  (r.frame == .waitMapSem && ownCancelledB' m r.mapSem.waiters)

def sealBit (p : Pool) : Bool :=
  (p.reqs.zipIdx.all fun (r, m) => r.outcome.isSome || r.inRunning || p.doomedB m r) &&
  (p.apis.all fun A => !A.gacPending || p.locked) &&
  (p.apis.all fun A => !A.kind.isGac || (match A.frame with
    | .gather1 g => (match p.gathers[g]? with
        | some G => G.retExc && p.reqs.zipIdx.all fun (r, m) => !r.inRunning || G.children.contains (.spawner m)
        | none => false)
    | .gather2 g => (p.reqs.all fun r => !r.inRunning) && (match p.gathers[g]? with
        | some G => (p.running ++ p.cancelledR).all fun t => G.children.contains (.task t)
        | none => false)
    | _ => true)) &&
  (match p.simple with | some sp => sp.noUnlock | none => true) &&
  (p.reqs.all fun r => r.hooks.noUnlock)

end Pool
end Taskpool
