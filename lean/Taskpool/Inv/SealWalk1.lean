import Taskpool.Inv.Seal
import Taskpool.Inv.FinWalk
/-! **A pending `gather_and_close()` seals the pool — the walk, part 1 (`SealWalk1.lean`): the frame relation.**

`PStep p q` relates a state `p` to a later state `q` reached by steps that keep everything `Pool.SealOK` reads, up to the
changes the invariant tolerates:

* waiter queues: a cancelled first entry of an owner stays one (`ownCancelled` is monotone), no owner is added;
* a request record keeps its hooks and — as long as its spawner is live — its frame, a set `must_cancel`, a cancelled own
  waiter entry (`RStep`); a spawner is un-filed (`inRunning := false`) only if it has an outcome or is **doomed**
  (`DoomedAt`) in `q`; a request is appended only while the pool is not locked, without `unlock()` among its hooks;
* a `gather_and_close()` call that is pending in `q` was pending in the same frame in `p`;
* gathers keep `children` and `retExc`; `running ++ cancelledR` only shrinks; the lock is not released.

Every function of the machine that is not a spawner's own progress and not the frame change of a
`gather_and_close()` is such a step, provided the user code it runs contains no `unlock()` — which is what the invariant
itself says (`NH`): `PS p q := NH p → PStep p q` composes (`PS.trans`).  Part 2 (`SealWalk2.lean`) defines the walking
predicate `SK`, shows `SK M N p → PStep p q → SK M N q`, and walks the spawner steps and `gather_and_close`. -/
namespace Taskpool
namespace Pool

/-! ### request records -/

/-- `r'` is a later version of request record `r` that took back nothing of what dooms a live spawner -/
structure RStep (r r' : Req) : Prop where
  hk : r'.hooks = r.hooks
  me : r.mapSem.waiters = [] → r'.mapSem.waiters = []
  lv : r'.outcome = none → r.outcome = none ∧ r'.frame = r.frame ∧ (r.mustCancel = true → r'.mustCancel = true) ∧
         ∀ i, ownCancelled i r.mapSem.waiters → ownCancelled i r'.mapSem.waiters

theorem RStep.refl (r : Req) : RStep r r := ⟨rfl, id, fun h => ⟨h, rfl, id, fun _ x => x⟩⟩

theorem RStep.trans {a b c : Req} (h1 : RStep a b) (h2 : RStep b c) : RStep a c := by
  refine ⟨h2.hk.trans h1.hk, fun h => h2.me (h1.me h), fun ho => ?_⟩
  obtain ⟨o2, f2, m2, w2⟩ := h2.lv ho
  obtain ⟨o1, f1, m1, w1⟩ := h1.lv o2
  exact ⟨o1, f2.trans f1, fun x => m2 (m1 x), fun i x => w2 i (w1 i x)⟩

/-- nothing the invariant reads has changed -/
theorem RStep.of_eq {r r' : Req} (hk : r'.hooks = r.hooks) (ho : r'.outcome = r.outcome) (hf : r'.frame = r.frame)
    (hm : r'.mustCancel = r.mustCancel) (hw : r'.mapSem.waiters = r.mapSem.waiters) : RStep r r' :=
  ⟨hk, fun h => hw.trans h, fun h => ⟨ho ▸ h, hf, fun x => hm.trans x, fun _ x => hw ▸ x⟩⟩

/-- the spawner's asyncio Task is done -/
theorem RStep.of_done {r r' : Req} (hk : r'.hooks = r.hooks) (ho : r'.outcome.isSome = true)
    (hw : r'.mapSem.waiters = r.mapSem.waiters) : RStep r r' :=
  ⟨hk, fun h => hw.trans h, fun h => by rw [h] at ho; cases ho⟩

theorem rstep_snapReq (x : Req) : RStep x (snapReq x) := by
  unfold snapReq; split
  · exact RStep.of_eq rfl rfl rfl rfl rfl
  · exact RStep.refl x

theorem snapReq_inRunning (x : Req) : (snapReq x).inRunning = x.inRunning := by unfold snapReq; split <;> rfl
theorem snapReq_outcome (x : Req) : (snapReq x).outcome = x.outcome := by unfold snapReq; split <;> rfl
theorem snapReq_frame (x : Req) : (snapReq x).frame = x.frame := by unfold snapReq; split <;> rfl
theorem snapReq_mustCancel (x : Req) : (snapReq x).mustCancel = x.mustCancel := by unfold snapReq; split <;> rfl
theorem snapReq_mapSem (x : Req) : (snapReq x).mapSem = x.mapSem := by unfold snapReq; split <;> rfl

/-- doom survives a step -/
theorem doomed_step {p q : Pool} {i : Nat} {r r' : Req} (hd : DoomedAt p i r) (hs : RStep r r') (ho : r'.outcome = none)
    (hw : ∀ i, ownCancelled i p.sem.waiters → ownCancelled i q.sem.waiters) : DoomedAt q i r' := by
  obtain ⟨_, f, m, w⟩ := hs.lv ho
  rcases hd with d | ⟨d1, d2⟩ | ⟨d1, d2⟩
  · exact Or.inl (m d)
  · exact Or.inr (Or.inl ⟨f.trans d1, hw i d2⟩)
  · exact Or.inr (Or.inr ⟨f.trans d1, w i d2⟩)

/-! ### the frame relation -/

/-- no user code of the pool calls `unlock()` (clause `nh` of `SealOK`) -/
def NH (p : Pool) : Prop :=
  (match p.simple with | some sp => sp.noUnlock | none => true) = true ∧
  ∀ (m : Nat) (r : Req), p.reqs[m]? = some r → r.hooks.noUnlock = true

structure PStep (p q : Pool) : Prop where
  sw : ∀ i, ownCancelled i p.sem.waiters → ownCancelled i q.sem.waiters
  so : ∀ x, x ∈ owners q.sem.waiters → x ∈ owners p.sem.waiters
  rl : p.reqs.length ≤ q.reqs.length
  rq : ∀ (i : Nat) (r' : Req), q.reqs[i]? = some r' →
        (∃ r, p.reqs[i]? = some r ∧ RStep r r' ∧ (r'.inRunning = true → r.inRunning = true) ∧
          (r'.outcome = none → r.inRunning = true → r'.inRunning = true ∨ DoomedAt q i r')) ∨
        (p.reqs.length ≤ i ∧ p.locked = false ∧ r'.hooks.noUnlock = true ∧
          (r'.outcome = none → r'.inRunning = true ∨ DoomedAt q i r'))
  ap : ∀ (a : Nat) (A' : Api), q.apis[a]? = some A' → A'.gacPending = true →
        ∃ A, p.apis[a]? = some A ∧ A.kind.isGac = true ∧ A.frame = A'.frame
  ga : ∀ (g : Nat) (G : Gather), p.gathers[g]? = some G →
        ∃ G', q.gathers[g]? = some G' ∧ G'.children = G.children ∧ G'.retExc = G.retExc
  ru : ∀ t, t ∈ q.running ++ q.cancelledR → t ∈ p.running ++ p.cancelledR
  lk : p.locked = true → q.locked = true
  si : q.simple = p.simple

theorem gacPending_iff (A : Api) :
    A.gacPending = true ↔ A.kind.isGac = true ∧ ((∃ g, A.frame = .gather1 g) ∨ ∃ g, A.frame = .gather2 g) := by
  unfold Api.gacPending
  cases A.frame <;> simp

theorem gacPending_of_frame {A A' : Api} (hk : A.kind.isGac = true) (hf : A.frame = A'.frame) (h : A'.gacPending = true) :
    A.gacPending = true := by
  rw [gacPending_iff] at h ⊢
  rw [hf]; exact ⟨hk, h.2⟩

theorem PStep.refl (p : Pool) : PStep p p where
  sw := fun _ h => h
  so := fun _ h => h
  rl := Nat.le_refl _
  rq := fun _ r' h => Or.inl ⟨r', h, RStep.refl r', id, fun _ x => Or.inl x⟩
  ap := fun _ A' h hp => ⟨A', h, ((gacPending_iff A').mp hp).1, rfl⟩
  ga := fun _ G h => ⟨G, h, rfl, rfl⟩
  ru := fun _ h => h
  lk := id
  si := rfl

theorem PStep.trans {p q s : Pool} (h1 : PStep p q) (h2 : PStep q s) : PStep p s where
  sw := fun i h => h2.sw i (h1.sw i h)
  so := fun x h => h1.so x (h2.so x h)
  rl := Nat.le_trans h1.rl h2.rl
  rq := fun i r'' hs => by
    rcases h2.rq i r'' hs with ⟨r', hq, s2, a2, b2⟩ | ⟨l2, k2, n2, f2⟩
    · rcases h1.rq i r' hq with ⟨r, hp, s1, a1, b1⟩ | ⟨l1, k1, n1, f1⟩
      · refine Or.inl ⟨r, hp, s1.trans s2, fun x => a1 (a2 x), fun ho hin => ?_⟩
        have ho' := (s2.lv ho).1
        rcases b1 ho' hin with x | x
        · exact b2 ho x
        · exact Or.inr (doomed_step x s2 ho h2.sw)
      · refine Or.inr ⟨l1, k1, s2.hk ▸ n1, fun ho => ?_⟩
        have ho' := (s2.lv ho).1
        rcases f1 ho' with x | x
        · exact b2 ho x
        · exact Or.inr (doomed_step x s2 ho h2.sw)
    · refine Or.inr ⟨Nat.le_trans h1.rl l2, ?_, n2, f2⟩
      cases hl : p.locked with
      | false => rfl
      | true => rw [h1.lk hl] at k2; cases k2
  ap := fun a A'' hs hp => by
    obtain ⟨A', hq, k, f⟩ := h2.ap a A'' hs hp
    obtain ⟨A, hp', k', f'⟩ := h1.ap a A' hq (gacPending_of_frame k f hp)
    exact ⟨A, hp', k', f'.trans f⟩
  ga := fun g G h => by
    obtain ⟨G', a, b, c⟩ := h1.ga g G h
    obtain ⟨G'', a', b', c'⟩ := h2.ga g G' a
    exact ⟨G'', a', b'.trans b, c'.trans c⟩
  ru := fun t h => h1.ru t (h2.ru t h)
  lk := fun h => h2.lk (h1.lk h)
  si := h2.si.trans h1.si

theorem PStep.nh {p q : Pool} (h : PStep p q) (hn : NH p) : NH q := by
  refine ⟨by rw [h.si]; exact hn.1, fun m r' hq => ?_⟩
  rcases h.rq m r' hq with ⟨r, hp, s, _, _⟩ | ⟨_, _, n, _⟩
  · rw [s.hk]; exact hn.2 m r hp
  · exact n

/-- a step of the machine under the proviso that the user code of the pool does not call `unlock()` -/
def PS (p q : Pool) : Prop := NH p → PStep p q

theorem PS.refl (p : Pool) : PS p p := fun _ => PStep.refl p
theorem PStep.ps {p q : Pool} (h : PStep p q) : PS p q := fun _ => h
theorem PS.trans {p q s : Pool} (h1 : PS p q) (h2 : PS q s) : PS p s :=
  fun hn => (h1 hn).trans (h2 ((h1 hn).nh hn))

theorem ps_foldl {α} (l : List α) (f : Pool → α → Pool) (h : ∀ p a, PS p (f p a)) (p : Pool) : PS p (l.foldl f p) := by
  induction l generalizing p with
  | nil => exact PS.refl p
  | cons a as ih => exact (h p a).trans (ih _)

theorem ps_foldl_mem {α} (l : List α) (f : Pool → α → Pool) (h : ∀ p, ∀ a ∈ l, PS p (f p a)) (p : Pool) :
    PS p (l.foldl f p) := by
  induction l generalizing p with
  | nil => exact PS.refl p
  | cons a as ih =>
    exact (h p a List.mem_cons_self).trans (ih (fun q b hb => h q b (List.mem_cons_of_mem _ hb)) _)

/-! ### constructors -/

/-- nothing the invariant reads has changed -/
theorem pstep_of_eq (p q : Pool) (hr : q.reqs = p.reqs := by rfl) (hs : q.sem.waiters = p.sem.waiters := by rfl)
    (ha : q.apis = p.apis := by rfl) (hg : q.gathers = p.gathers := by rfl) (h1 : q.running = p.running := by rfl)
    (h2 : q.cancelledR = p.cancelledR := by rfl) (h3 : q.locked = p.locked := by rfl)
    (h4 : q.simple = p.simple := by rfl) : PStep p q where
  sw := fun _ h => hs ▸ h
  so := fun _ h => hs ▸ h
  rl := by rw [hr]; exact Nat.le_refl _
  rq := fun i r' h => by
    rw [hr] at h
    refine Or.inl ⟨r', h, RStep.refl r', id, fun _ x => Or.inl x⟩
  ap := fun _ A' h hp => by rw [ha] at h; exact ⟨A', h, ((gacPending_iff A').mp hp).1, rfl⟩
  ga := fun _ G h => by rw [hg]; exact ⟨G, h, rfl, rfl⟩
  ru := fun _ h => by rw [h1, h2] at h; exact h
  lk := fun h => by rw [h3]; exact h
  si := h4

/-- nothing the invariant reads has changed, except that the pool is locked now -/
theorem pstep_of_eq_lock (p q : Pool) (h3 : q.locked = true) (hr : q.reqs = p.reqs := by rfl)
    (hs : q.sem.waiters = p.sem.waiters := by rfl)
    (ha : q.apis = p.apis := by rfl) (hg : q.gathers = p.gathers := by rfl) (h1 : q.running = p.running := by rfl)
    (h2 : q.cancelledR = p.cancelledR := by rfl) (h4 : q.simple = p.simple := by rfl) : PStep p q where
  sw := fun _ h => hs ▸ h
  so := fun _ h => hs ▸ h
  rl := by rw [hr]; exact Nat.le_refl _
  rq := fun i r' h => by
    rw [hr] at h
    refine Or.inl ⟨r', h, RStep.refl r', id, fun _ x => Or.inl x⟩
  ap := fun _ A' h hp => by rw [ha] at h; exact ⟨A', h, ((gacPending_iff A').mp hp).1, rfl⟩
  ga := fun _ G h => by rw [hg]; exact ⟨G, h, rfl, rfl⟩
  ru := fun _ h => by rw [h1, h2] at h; exact h
  lk := fun _ => h3
  si := h4

/-- only request records change, none is appended -/
theorem pstep_reqs (p q : Pool) (hl : q.reqs.length = p.reqs.length)
    (hr : ∀ (i : Nat) (r' : Req), q.reqs[i]? = some r' → ∃ r, p.reqs[i]? = some r ∧ RStep r r' ∧
      (r'.inRunning = true → r.inRunning = true) ∧
      (r'.outcome = none → r.inRunning = true → r'.inRunning = true ∨ DoomedAt q i r'))
    (hs : q.sem.waiters = p.sem.waiters := by rfl)
    (ha : q.apis = p.apis := by rfl) (hg : q.gathers = p.gathers := by rfl) (h1 : q.running = p.running := by rfl)
    (h2 : q.cancelledR = p.cancelledR := by rfl) (h3 : q.locked = p.locked := by rfl)
    (h4 : q.simple = p.simple := by rfl) : PStep p q where
  sw := fun _ h => hs ▸ h
  so := fun _ h => hs ▸ h
  rl := by rw [hl]; exact Nat.le_refl _
  rq := fun i r' h => Or.inl (hr i r' h)
  ap := fun _ A' h hp => by rw [ha] at h; exact ⟨A', h, ((gacPending_iff A').mp hp).1, rfl⟩
  ga := fun _ G h => by rw [hg]; exact ⟨G, h, rfl, rfl⟩
  ru := fun _ h => by rw [h1, h2] at h; exact h
  lk := fun h => by rw [h3]; exact h
  si := h4

theorem pstep_modReq (p : Pool) (m : Nat) (f : Req → Req)
    (hf : ∀ r, p.reqs[m]? = some r → RStep r (f r) := by intro r _; exact RStep.of_eq rfl rfl rfl rfl rfl)
    (hi : ∀ r, (f r).inRunning = r.inRunning := by intro r; rfl) : PStep p (p.modReq m f) := by
  refine pstep_reqs p _ (by simp [modReq]) (fun i r' h => ?_)
  obtain ⟨r, hp, e⟩ := modify_inv (l := p.reqs) h
  refine ⟨r, hp, ?_⟩
  subst e
  split
  · rename_i e; subst e
    exact ⟨hf r hp, fun x => (hi r) ▸ x, fun _ x => Or.inl ((hi r).symm ▸ x)⟩
  · exact ⟨RStep.refl r, id, fun _ x => Or.inl x⟩

/-- `pstep_modReq` for a visible rewriting function that touches nothing the invariant reads -/
macro "ps_mr" : term =>
  `(pstep_modReq _ _ _)

/-- every request rewritten by the same function -/
theorem pstep_mapReqs (p q : Pool) (f : Req → Req) (hq : q.reqs = p.reqs.map f) (hf : ∀ r, RStep r (f r))
    (h1 : ∀ r, (f r).inRunning = true → r.inRunning = true)
    (h2 : ∀ r, (f r).outcome = none → r.inRunning = true → (f r).inRunning = true)
    (hs : q.sem.waiters = p.sem.waiters := by rfl)
    (ha : q.apis = p.apis := by rfl) (hg : q.gathers = p.gathers := by rfl) (e1 : q.running = p.running := by rfl)
    (e2 : q.cancelledR = p.cancelledR := by rfl) (e3 : q.locked = p.locked := by rfl)
    (e4 : q.simple = p.simple := by rfl) : PStep p q := by
  refine pstep_reqs p q (by rw [hq]; simp) (fun i r' h => ?_) hs ha hg e1 e2 e3 e4
  rw [hq, List.getElem?_map] at h
  cases hp : p.reqs[i]? with
  | none => simp [hp] at h
  | some r =>
    simp only [hp, Option.map_some, Option.some.injEq] at h
    subst h
    exact ⟨r, rfl, hf r, h1 r, fun a b => Or.inl (h2 r a b)⟩

/-- the pool's waiter queue changes -/
theorem pstep_sem (p : Pool) (s : Sem) (hw : ∀ i, ownCancelled i p.sem.waiters → ownCancelled i s.waiters)
    (ho : ∀ x, x ∈ owners s.waiters → x ∈ owners p.sem.waiters) : PStep p ({ p with sem := s } : Pool) where
  sw := hw
  so := ho
  rl := Nat.le_refl _
  rq := fun _ r' h => Or.inl ⟨r', h, RStep.refl r', id, fun _ x => Or.inl x⟩
  ap := fun _ A' h hp => ⟨A', h, ((gacPending_iff A').mp hp).1, rfl⟩
  ga := fun _ G h => ⟨G, h, rfl, rfl⟩
  ru := fun _ h => h
  lk := id
  si := rfl

/-- one background call changes: it keeps its kind, and its frame unless it ends up not being a pending
`gather_and_close()` -/
theorem pstep_modApi (p : Pool) (a : Nat) (f : Api → Api)
    (hf : ∀ x, p.apis[a]? = some x → (f x).gacPending = true → (f x).kind = x.kind ∧ (f x).frame = x.frame) :
    PStep p (p.modApi a f) :=
  { PStep.refl p with
    ap := fun i A' h hp => by
      obtain ⟨A, hA, e⟩ := modify_inv (l := p.apis) h
      subst e
      split at hp
      · rename_i e; subst e
        obtain ⟨k, fr⟩ := hf A hA hp
        rw [if_pos rfl]
        exact ⟨A, hA, k ▸ ((gacPending_iff _).mp hp).1, fr.symm⟩
      · rename_i e
        rw [if_neg e]
        exact ⟨A, hA, ((gacPending_iff _).mp hp).1, rfl⟩ }

/-- a rewrite of a background call that keeps kind and frame -/
theorem pstep_modApi_triv (p : Pool) (a : Nat) (f : Api → Api) (hk : ∀ x, (f x).kind = x.kind := by intro x; rfl)
    (hfr : ∀ x, (f x).frame = x.frame := by intro x; rfl) : PStep p (p.modApi a f) :=
  pstep_modApi p a f (fun x _ _ => ⟨hk x, hfr x⟩)

theorem pstep_modGather (p : Pool) (g : Nat) (f : Gather → Gather) (hc : ∀ G, (f G).children = G.children := by intro G; rfl)
    (hr : ∀ G, (f G).retExc = G.retExc := by intro G; rfl) : PStep p (p.modGather g f) :=
  { PStep.refl p with
    ga := fun i G h => by
      refine ⟨_, modify_get (l := p.gathers) (m := g) (f := f) h, ?_⟩
      split
      · exact ⟨hc G, hr G⟩
      · exact ⟨rfl, rfl⟩ }

theorem pstep_modTask (p : Pool) (t : Nat) (f : PTask → PTask) : PStep p (p.modTask t f) := pstep_of_eq _ _
theorem pstep_emitRef (p : Pool) (r : Ref) : PStep p (p.emitRef r) := pstep_of_eq _ _
theorem pstep_logEv (p : Pool) (e : Ev) : PStep p (p.logEv e) := pstep_of_eq _ _

/-! ### plumbing -/

theorem pstep_schedTask (p : Pool) (t : Nat) : PStep p (p.schedTask t) := by
  unfold schedTask; exact (pstep_modTask p _ _).trans (pstep_emitRef _ _)

theorem pstep_schedMeta (p : Pool) (m : Nat) : PStep p (p.schedMeta m) := by
  unfold schedMeta
  exact PStep.trans (q := p.modReq m fun x => { x with sched := true }) ps_mr (pstep_emitRef _ _)

theorem pstep_schedApi (p : Pool) (a : Nat) : PStep p (p.schedApi a) := by
  unfold schedApi
  exact PStep.trans (q := p.modApi a fun x => { x with sched := true }) (pstep_modApi_triv p a _) (pstep_emitRef _ _)

theorem pstep_schedOpt (p : Pool) (o : Option Nat) : PStep p (p.schedOpt o) := by
  cases o with
  | none => exact PStep.refl p
  | some m => exact pstep_schedMeta p m

theorem pstep_foldl {α} (l : List α) (f : Pool → α → Pool) (h : ∀ p a, PStep p (f p a)) (p : Pool) :
    PStep p (l.foldl f p) := by
  induction l generalizing p with
  | nil => exact PStep.refl p
  | cons a as ih => exact (h p a).trans (ih _)

theorem pstep_emitChildren (p : Pool) (cbs : List (Nat × Nat)) : PStep p (p.emitChildren cbs) := by
  unfold emitChildren
  exact pstep_foldl _ _ (fun q gi => pstep_emitRef q _) p

theorem pstep_wake (p : Pool) (s : Sem) (hs : s.waiters = p.sem.waiters) :
    PStep p (({ p with sem := s.wakeNext.1 } : Pool).schedOpt s.wakeNext.2) := by
  refine (pstep_sem p _ (fun i h => ?_) (fun x h => ?_)).trans (pstep_schedOpt _ _)
  · rw [wakeNext_waiters, hs]; exact ownCancelled_wake i _ _ h
  · rw [wakeNext_waiters, owners_wakeNextL, hs] at h; exact h

theorem pstep_releasePool (p : Pool) : PStep p p.releasePool := by
  unfold releasePool Sem.release
  exact pstep_wake p _ rfl

theorem wakeNextL_nil (v : Cap) : (wakeNextL v []).2.1 = [] := rfl

theorem pstep_releaseMap (p : Pool) (m : Nat) : PStep p (p.releaseMap m) := by
  unfold releaseMap
  split
  · exact PStep.refl p
  · rename_i r hp
    refine PStep.trans (q := p.modReq m fun x => { x with mapSem := r.mapSem.release.1 })
      (pstep_modReq p m _ (fun x hx => ?_) (fun _ => rfl)) (pstep_schedOpt _ _)
    rw [hp] at hx; cases hx
    refine ⟨rfl, fun h => ?_, fun ho => ⟨ho, rfl, id, fun i h => ?_⟩⟩
    · show (r.mapSem.release).1.waiters = []
      unfold Sem.release
      rw [wakeNext_waiters]
      show (wakeNextL _ r.mapSem.waiters).2.1 = []
      rw [h]; rfl
    · show ownCancelled i (r.mapSem.release).1.waiters
      unfold Sem.release
      rw [wakeNext_waiters]
      exact ownCancelled_wake i _ _ h

/-! ### asyncio `Task.cancel()` -/

theorem pstep_taskCancel (p : Pool) (t : Nat) : PStep p (p.taskCancel t) := by
  unfold taskCancel
  split
  · exact PStep.refl p
  · split
    · exact PStep.refl p
    · split
      · exact (pstep_modTask p _ _).trans (pstep_schedTask _ _)
      · exact pstep_modTask p _ _

theorem pstep_cancelTask (p : Pool) (t : Nat) : PStep p (p.cancelTask t) := by
  unfold cancelTask
  split
  · exact PStep.refl p
  · split
    · exact pstep_modTask p _ _
    · exact pstep_taskCancel p t

theorem rstep_mustCancel (r : Req) : RStep r { r with mustCancel := true } :=
  ⟨rfl, id, fun ho => ⟨ho, rfl, fun _ => rfl, fun _ h => h⟩⟩

theorem rstep_cancelOwn (m : Nat) (r : Req) :
    RStep r { r with mapSem := { r.mapSem with waiters := cancelWaiterL m r.mapSem.waiters } } :=
  ⟨rfl, fun h => by show cancelWaiterL m r.mapSem.waiters = []; rw [h]; rfl,
    fun ho => ⟨ho, rfl, id, fun i h => ownCancelled_cancel m i _ h⟩⟩

/-- `Task.cancel()` on a spawner takes back nothing -/
theorem pstep_metaCancel (p : Pool) (m : Nat) : PStep p (p.metaCancel m) := by
  unfold metaCancel
  split
  · exact PStep.refl p
  · split
    · exact PStep.refl p
    · split
      · refine ((pstep_sem p _ (fun i h => ownCancelled_cancel m i _ h) (fun x h => ?_)).trans
          (pstep_modReq _ m snapReq (fun r _ => rstep_snapReq r) snapReq_inRunning)).trans (pstep_schedMeta _ m)
        rw [owners_cancelWaiterL] at h; exact h
      · split
        · refine (pstep_modReq p m _ (fun r _ => ?_) (fun r => ?_)).trans (pstep_schedMeta _ m)
          · exact (rstep_cancelOwn m r).trans (rstep_snapReq _)
          · rw [snapReq_inRunning]
        · refine pstep_modReq p m _ (fun r _ => ?_) (fun r => ?_)
          · exact (rstep_mustCancel r).trans (rstep_snapReq _)
          · rw [snapReq_inRunning]

theorem metaCancel_length (p : Pool) (m : Nat) : (p.metaCancel m).reqs.length = p.reqs.length := by
  unfold metaCancel
  split
  · rfl
  · split
    · rfl
    · split
      · simp [schedMeta, modReq, emitRef]
      · split
        · simp [schedMeta, modReq, emitRef]
        · simp [modReq]

/-- … and leaves the spawner doomed, if its asyncio Task is not done -/
theorem doomed_metaCancel (p : Pool) (m : Nat) :
    ∀ r', (p.metaCancel m).reqs[m]? = some r' → r'.outcome = none → DoomedAt (p.metaCancel m) m r' := by
  unfold metaCancel
  split
  · rename_i hp
    intro r' hq; rw [hp] at hq; cases hq
  · rename_i r hp
    split
    · rename_i c
      intro r' hq ho; rw [hp] at hq; cases hq; rw [ho] at c; cases c
    · split
      · rename_i c
        intro r' hq ho
        rw [modReq_schedMeta] at hq ⊢
        have := modReq_get_self ({ p with sem := { p.sem with waiters := cancelWaiterL m p.sem.waiters } } : Pool) m
          (fun x => { snapReq x with sched := true }) r hp
        have hq' : (({ p with sem := { p.sem with waiters := cancelWaiterL m p.sem.waiters } } : Pool).modReq m
          (fun x => { snapReq x with sched := true })).reqs[m]? = some r' := hq
        rw [this] at hq'
        simp only [Option.some.injEq] at hq'
        subst hq'
        simp only [Bool.and_eq_true, beq_iff_eq] at c
        refine Or.inr (Or.inl ⟨?_, ?_⟩)
        · show (snapReq r).frame = .waitRoom
          rw [snapReq_frame]; exact c.1
        · exact ownCancelled_of_pending m _ (getD_firstIsPending m _ c.2)
      · split
        · rename_i c
          intro r' hq ho
          rw [modReq_schedMeta] at hq ⊢
          have := modReq_get_self p m (fun x => { snapReq { x with mapSem := { x.mapSem with waiters := cancelWaiterL m x.mapSem.waiters } } with sched := true }) r hp
          have hq' : (p.modReq m (fun x => { snapReq { x with mapSem := { x.mapSem with waiters := cancelWaiterL m x.mapSem.waiters } } with sched := true })).reqs[m]? = some r' := hq
          rw [this] at hq'
          simp only [Option.some.injEq] at hq'
          subst hq'
          simp only [Bool.and_eq_true, beq_iff_eq] at c
          refine Or.inr (Or.inr ⟨?_, ?_⟩)
          · show (snapReq _).frame = .waitMapSem
            rw [snapReq_frame]; exact c.1
          · show ownCancelled m (snapReq _).mapSem.waiters
            rw [snapReq_mapSem]
            exact ownCancelled_of_pending m _ (getD_firstIsPending m _ c.2)
        · intro r' hq ho
          rw [modReq_get_self p m _ r hp] at hq
          simp only [Option.some.injEq] at hq
          subst hq
          refine Or.inl ?_
          show (snapReq _).mustCancel = true
          rw [snapReq_mustCancel]

/-- doom survives a step (request `i` existed before) -/
theorem PStep.doomed {p q : Pool} (h : PStep p q) {i : Nat} {r r' : Req} (hp : p.reqs[i]? = some r)
    (hq : q.reqs[i]? = some r') (ho : r'.outcome = none) (hd : r.outcome = none → DoomedAt p i r) : DoomedAt q i r' := by
  rcases h.rq i r' hq with ⟨r0, hp0, s, _, _⟩ | ⟨l, _⟩
  · rw [hp] at hp0; cases hp0
    exact doomed_step (hd (s.lv ho).1) s ho h.sw
  · have := lt_of_getElem?_some hp; omega

theorem Same.trans {a b c : Req} (h1 : Same a b) (h2 : Same b c) : Same a c :=
  ⟨h2.e_out.trans h1.e_out, h2.e_ec.trans h1.e_ec, h2.e_ir.trans h1.e_ir, h2.e_rem.trans h1.e_rem,
    h2.e_items.trans h1.e_items, h2.e_kind.trans h1.e_kind, h2.e_frame.trans h1.e_frame, h2.e_group.trans h1.e_group,
    h2.e_nc.trans h1.e_nc, h2.e_pul.trans h1.e_pul, h2.e_cre.trans h1.e_cre, h2.e_ski.trans h1.e_ski⟩

theorem foldl_metaCancel_same (ms : List Nat) (p : Pool) (i : Nat) (r : Req) (hp : p.reqs[i]? = some r) :
    ∃ r', (ms.foldl (fun p m => p.metaCancel m) p).reqs[i]? = some r' ∧ Same r r' := by
  induction ms generalizing p r with
  | nil => exact ⟨r, hp, Same.rfl' r⟩
  | cons m ms ih =>
    obtain ⟨r1, h1, s1⟩ := metaCancel_same p m i r hp
    obtain ⟨r2, h2, s2⟩ := ih _ r1 h1
    exact ⟨r2, h2, s1.trans s2⟩

theorem foldl_metaCancel_length (ms : List Nat) (p : Pool) :
    (ms.foldl (fun p m => p.metaCancel m) p).reqs.length = p.reqs.length := by
  induction ms generalizing p with
  | nil => rfl
  | cons m ms ih => exact (ih _).trans (metaCancel_length p m)

theorem foldl_metaCancel_doomed (ms : List Nat) (p : Pool) (hms : ∀ i ∈ ms, ∃ r, p.reqs[i]? = some r) :
    PStep p (ms.foldl (fun p m => p.metaCancel m) p) ∧
    ∀ i ∈ ms, ∀ r', (ms.foldl (fun p m => p.metaCancel m) p).reqs[i]? = some r' → r'.outcome = none →
      DoomedAt (ms.foldl (fun p m => p.metaCancel m) p) i r' := by
  induction ms generalizing p with
  | nil => exact ⟨PStep.refl p, fun _ h => nomatch h⟩
  | cons m ms ih =>
    have h1 := pstep_metaCancel p m
    have hms' : ∀ i ∈ ms, ∃ r, (p.metaCancel m).reqs[i]? = some r := fun i hi => by
      obtain ⟨r, hr⟩ := hms i (List.mem_cons_of_mem _ hi)
      obtain ⟨r', hr', _⟩ := metaCancel_same p m i r hr
      exact ⟨r', hr'⟩
    obtain ⟨h2, h3⟩ := ih (p.metaCancel m) hms'
    refine ⟨h1.trans h2, fun i hi r' hq ho => ?_⟩
    rcases List.mem_cons.mp hi with rfl | hi
    · obtain ⟨r, hr⟩ := hms i List.mem_cons_self
      obtain ⟨r1, hr1, _⟩ := metaCancel_same p i i r hr
      exact h2.doomed hr1 hq ho (doomed_metaCancel p i r1 hr1)
    · exact h3 i hi r' hq ho

theorem mem_indicesWhere_of {l : List Req} {f : Req → Bool} {i : Nat} {r : Req} (h : l[i]? = some r) (hf : f r = true) :
    i ∈ indicesWhere l f := by
  unfold indicesWhere
  simp only [List.mem_map, List.mem_filter]
  exact ⟨(r, i), ⟨List.mem_zipIdx_iff_getElem?.mpr h, hf⟩, rfl⟩

/-- `_cancel_group_meta_tasks`: the spawners un-filed are doomed (or done) -/
theorem pstep_cancelGroupMetas (p : Pool) (g : String) : PStep p (p.cancelGroupMetas g) := by
  unfold cancelGroupMetas
  simp only
  obtain ⟨h1, h2⟩ := foldl_metaCancel_doomed (indicesWhere p.reqs fun r => r.inRunning && r.group == g) p
    (fun i hi => by obtain ⟨r, hr, _⟩ := mem_indicesWhere hi; exact ⟨r, hr⟩)
  have hlen := foldl_metaCancel_length (indicesWhere p.reqs fun r => r.inRunning && r.group == g) p
  have hsame := foldl_metaCancel_same (indicesWhere p.reqs fun r => r.inRunning && r.group == g) p
  generalize (indicesWhere p.reqs fun r => r.inRunning && r.group == g).foldl (fun p m => p.metaCancel m) p = q at h1 h2 hlen hsame ⊢
  refine h1.trans (pstep_reqs q _ (by simp) (fun i r' h => ?_))
  simp only [List.getElem?_map] at h
  cases hq : q.reqs[i]? with
  | none => simp [hq] at h
  | some r =>
    simp only [hq, Option.map_some, Option.some.injEq] at h
    refine ⟨r, rfl, ?_⟩
    by_cases c : (r.inRunning && r.group == g) = true
    · rw [if_pos c] at h; subst h
      refine ⟨RStep.of_eq rfl rfl rfl rfl rfl, fun x => (nomatch x), fun ho _ => Or.inr ?_⟩
      obtain ⟨r0, hp0⟩ := getElem?_some_of_length_eq (l := q.reqs) (l' := p.reqs) hlen.symm hq
      obtain ⟨r1, hq1, hs⟩ := hsame i r0 hp0
      rw [hq] at hq1; cases hq1
      have hi : i ∈ indicesWhere p.reqs fun r => r.inRunning && r.group == g :=
        mem_indicesWhere_of hp0 (by rw [← hs.e_ir, ← hs.e_group]; exact c)
      exact h2 i hi r hq ho
    · rw [if_neg c] at h; subst h
      exact ⟨RStep.refl r, id, fun _ x => Or.inl x⟩

/-! ### synchronous API -/

theorem checkStart_unlocked {p : Pool} {c : Bool} (h : p.checkStart c = none) : p.locked = false := by
  unfold checkStart at h
  split at h
  · cases h
  · split at h
    · cases h
    · split at h
      · cases h
      · rename_i hl; simpa using hl

/-- a request is registered while the pool is not locked -/
theorem pstep_register (p : Pool) (r : Req) (hl : p.locked = false) (hn : r.hooks.noUnlock = true)
    (hi : r.inRunning = true) : PStep p (p.register r) := by
  unfold register
  refine PStep.trans (q := { p with reqs := p.reqs ++ [r], groups := addGroupIfMissing p.groups r.group, names := if p.names.contains r.group then p.names else p.names ++ [r.group] }) ?_ (pstep_emitRef _ _)
  exact { PStep.refl p with
    rl := (by simp)
    rq := fun i r' h => by
      rcases append_some (l := p.reqs) h with hp | ⟨hlen, rfl⟩
      · exact Or.inl ⟨r', hp, RStep.refl r', id, fun _ x => Or.inl x⟩
      · exact Or.inr ⟨by omega, hl, hn, fun _ => Or.inl hi⟩ }

theorem pstep_ite_fst {c : Prop} [Decidable c] (p : Pool) (a b : Pool × Res) (ha : PStep p a.1) (hb : PStep p b.1) :
    PStep p (if c then a else b).1 := by split <;> assumption

theorem pstep_doApply (p : Pool) (num : Int) (group : Option String) (sp : SpawnSpec) (hsp : sp.noUnlock = true) :
    PStep p (p.doApply num group sp).1 := by
  unfold doApply
  split
  · exact PStep.refl p
  · rename_i hc
    exact pstep_ite_fst p _ _ (PStep.refl p) (pstep_register p _ (checkStart_unlocked hc) hsp rfl)

theorem pstep_doMap (p : Pool) (stars : Nat) (items : List Item) (nc : Int) (group : Option String) (sp : SpawnSpec)
    (hsp : sp.noUnlock = true) : PStep p (p.doMap stars items nc group sp).1 := by
  unfold doMap
  simp only
  split
  · exact PStep.refl p
  · rename_i hc
    refine pstep_ite_fst p _ _ (PStep.refl p) ?_
    exact pstep_ite_fst p _ _ (PStep.refl p) (pstep_register p _ (checkStart_unlocked hc) hsp rfl)

theorem ps_doStart (p : Pool) (num : Int) : PS p (p.doStart num).1 := by
  intro hn
  unfold doStart
  split
  · exact PStep.refl p
  · rename_i sp hsp
    split
    · exact PStep.refl p
    · rename_i hc
      simp only
      refine PStep.trans (q := { p with startCalls := p.startCalls + 1 }) (pstep_of_eq _ _) ?_
      refine pstep_register _ _ (checkStart_unlocked hc) ?_ rfl
      have := hn.1
      rw [hsp] at this
      exact this

theorem pstep_doCancel (p : Pool) (ids : List Int) : PStep p (p.doCancel ids).1 := by
  unfold doCancel
  split
  · exact PStep.refl p
  · exact pstep_foldl _ _ (fun q id => pstep_cancelTask q _) p

theorem pstep_doStop (p : Pool) (n : Int) : PStep p (p.doStop n).1 := by
  unfold doStop
  split
  · exact PStep.refl p
  · exact pstep_doCancel p _

theorem pstep_popOrder (p : Pool) : PStep p p.popOrder.1 := by
  unfold popOrder
  split
  · exact PStep.refl p
  · exact pstep_of_eq _ _

theorem pstep_cancelGroupBody (p : Pool) (g : String) (ids order : List Nat) (q : Pool)
    (hq : p.cancelGroupBody g ids order = some q) : PStep p q := by
  unfold cancelGroupBody at hq
  simp only at hq
  split at hq
  · cases hq
  · simp only [Option.some.injEq] at hq
    subst hq
    exact (pstep_cancelGroupMetas p g).trans (pstep_foldl _ _ (fun q t => pstep_cancelTask q t) _)

theorem pstep_doCancelGroup (p : Pool) (g : String) : PStep p (p.doCancelGroup g).1 := by
  unfold doCancelGroup
  split
  · exact PStep.refl p
  · simp only
    split
    · exact PStep.refl p
    · rename_i p2 h2
      refine ((pstep_popOrder p).trans ?_).trans (pstep_cancelGroupBody _ _ _ _ _ h2)
      exact pstep_of_eq _ _

theorem pstep_cancelAllLoop (gs : List (String × List Nat)) (order : List Nat) (p q : Pool)
    (hq : cancelAllLoop gs order p = some q) : PStep p q := by
  induction gs generalizing p with
  | nil => simp [cancelAllLoop] at hq; subst hq; exact PStep.refl p
  | cons x xs ih =>
    obtain ⟨g, ids⟩ := x
    simp only [cancelAllLoop] at hq
    split at hq
    · cases hq
    · rename_i p1 h1
      exact (pstep_cancelGroupBody p _ _ _ _ h1).trans (ih _ hq)

theorem pstep_doCancelAll (p : Pool) : PStep p p.doCancelAll.1 := by
  unfold doCancelAll
  simp only
  split
  · exact PStep.refl p
  · rename_i p2 h2
    refine ((pstep_popOrder p).trans ?_).trans (pstep_cancelAllLoop _ _ _ _ h2)
    exact pstep_of_eq _ _

theorem pstep_doSetSize (p : Pool) (v : Int) : PStep p (p.doSetSize v).1 := by
  unfold doSetSize
  split
  · exact PStep.refl p
  · exact pstep_of_eq _ _

theorem gatedSpec_noUnlock : gatedSpec.noUnlock = true := rfl

/-- a pool call from user code other than `unlock()` -/
theorem pstep_doHook (p : Pool) (ctx : Nat) (x : HookOp) (hx : x.isUnlock = false) : PStep p (p.doHook ctx x).1 := by
  cases x <;> simp only [doHook]
  · exact pstep_doCancel p _
  · exact pstep_doCancelGroup p _
  · split
    · exact pstep_doCancelGroup p _
    · exact PStep.refl p
  · exact pstep_doCancelAll p
  · exact { PStep.refl p with lk := fun _ => rfl }
  · cases hx
  · exact pstep_doStop p _
  · split
    · exact PStep.refl p
    · exact pstep_doApply p _ _ _ gatedSpec_noUnlock

theorem pstep_runHooks (p : Pool) (ctx : Nat) (hs : List HookOp) (hh : hs.all (fun o => !o.isUnlock) = true) :
    PStep p (p.runHooks ctx hs) := by
  unfold runHooks
  induction hs generalizing p with
  | nil => exact PStep.refl p
  | cons x xs ih =>
    simp only [List.all_cons, Bool.and_eq_true, Bool.not_eq_true'] at hh
    simp only [List.foldl_cons]
    exact ((pstep_doHook p ctx x hh.1).trans (pstep_logEv _ _)).trans (ih _ hh.2)

theorem noUnlock_parts {h : Hooks} (hn : h.noUnlock = true) :
    h.start.all (fun o => !o.isUnlock) = true ∧ h.endCb.all (fun o => !o.isUnlock) = true ∧
    h.cancelCb.all (fun o => !o.isUnlock) = true ∧ h.pull.all (fun o => !o.isUnlock) = true := by
  unfold Hooks.noUnlock at hn
  simp only [List.all_append, Bool.and_eq_true] at hn
  exact ⟨hn.1.1.1.1, hn.1.1.1.2, hn.1.1.2, hn.1.2⟩

/-- … nor among the pool calls a worker makes between two awaits -/
theorem noUnlock_next {h : Hooks} (hn : h.noUnlock = true) : h.next.all (fun o => !o.isUnlock) = true := by
  unfold Hooks.noUnlock at hn
  simp only [List.all_append, Bool.and_eq_true] at hn
  exact hn.2

theorem default_noUnlock : (default : Req).hooks.noUnlock = true := rfl

theorem NH.getD {p : Pool} (hn : NH p) (m : Nat) : (p.reqs[m]?.getD default).hooks.noUnlock = true := by
  cases hp : p.reqs[m]? with
  | none => exact default_noUnlock
  | some r => exact hn.2 m r hp

theorem NH.reqOf {p : Pool} (hn : NH p) (tk : PTask) : (p.reqOf tk).hooks.noUnlock = true := hn.getD tk.req

/-- user code run by the pool -/
theorem ps_runHooks (p : Pool) (ctx : Nat) (hs : List HookOp) (hh : hs.all (fun o => !o.isUnlock) = true) :
    PS p (p.runHooks ctx hs) := (pstep_runHooks p ctx hs hh).ps

/-! ### the wrapper of a pool task -/

theorem pstep_completeTask (p : Pool) (t : Nat) (o : Outcome) : PStep p (p.completeTask t o) := by
  unfold completeTask
  split
  · exact PStep.refl p
  · exact (pstep_modTask p _ _).trans (pstep_emitChildren _ _)

theorem pstep_finishTask (p : Pool) (t : Nat) : PStep p (p.finishTask t) := by
  unfold finishTask
  split
  · exact PStep.refl p
  · exact pstep_completeTask p _ _

theorem pstep_suspendTask (p : Pool) (t : Nat) (ph : Phase) : PStep p (p.suspendTask t ph) := by
  unfold suspendTask
  split
  · exact PStep.refl p
  · split
    · exact (pstep_modTask p _ _).trans (pstep_schedTask _ _)
    · exact pstep_modTask p _ _

theorem ps_cbBegin (p : Pool) (t : Nat) (tk : PTask) (isEnd : Bool) : PS p (p.cbBegin t tk isEnd) := by
  intro hn
  obtain ⟨_, h2, h3, _⟩ := noUnlock_parts (hn.reqOf tk)
  unfold cbBegin
  simp only
  refine ((pstep_modTask p _ _).trans (pstep_logEv _ _)).trans (pstep_runHooks _ _ _ ?_)
  split
  · exact h2
  · exact h3

theorem ps_runCb (p : Pool) (t : Nat) (tk : PTask) (isEnd : Bool) : PS p (p.runCb t tk isEnd).1 := by
  unfold runCb
  split
  · exact PS.refl p
  · exact (ps_cbBegin p t tk isEnd).trans (pstep_logEv _ _).ps
  · exact (ps_cbBegin p t tk isEnd).trans ((pstep_logEv _ _).trans (pstep_modTask _ _ _)).ps
  · exact (ps_cbBegin p t tk isEnd).trans (pstep_suspendTask _ _ _).ps

theorem pstep_moveToEnded (p : Pool) (t : Nat) (q : Pool) (hq : p.moveToEnded t = some q) : PStep p q := by
  unfold moveToEnded at hq
  split at hq
  · simp only [Option.some.injEq] at hq; subst hq
    exact { PStep.refl p with
      ru := fun x hx => by
        rcases List.mem_append.mp hx with a | a
        · exact List.mem_append_left _ (List.mem_of_mem_erase a)
        · exact List.mem_append_right _ a }
  · split at hq
    · simp only [Option.some.injEq] at hq; subst hq
      exact { PStep.refl p with
        ru := fun x hx => by
          rcases List.mem_append.mp hx with a | a
          · exact List.mem_append_left _ a
          · exact List.mem_append_right _ (List.mem_of_mem_erase a) }
    · cases hq

theorem pstep_releaseMapSlot (p : Pool) (t : Nat) (tk : PTask) : PStep p (p.releaseMapSlot t tk) := by
  unfold releaseMapSlot
  split
  · exact (pstep_releaseMap p _).trans (pstep_modTask _ _ _)
  · exact PStep.refl p

theorem ps_endCallback (p : Pool) (t : Nat) (tk : PTask) : PS p (p.endCallback t tk) := by
  unfold endCallback
  simp only
  have hr := (pstep_releaseMapSlot p t tk).ps.trans (ps_runCb (p.releaseMapSlot t tk) t tk true)
  split
  · exact hr
  · exact hr.trans (pstep_finishTask _ t).ps

theorem ps_endingTail (p : Pool) (t : Nat) (tk : PTask) : PS p (p.endingTail t tk) := by
  unfold endingTail
  exact ((pstep_releasePool p).trans (pstep_modTask _ _ _)).ps.trans (ps_endCallback _ t tk)

theorem pstep_keyErrorFinish (p : Pool) (t : Nat) : PStep p (p.keyErrorFinish t) := by
  unfold keyErrorFinish
  exact ((pstep_of_eq p { p with lost := true }).trans (pstep_modTask _ _ _)).trans (pstep_finishTask _ t)

theorem ps_taskEnding (p : Pool) (t : Nat) : PS p (p.taskEnding t) := by
  unfold taskEnding
  split
  · exact PS.refl p
  · split
    · exact (pstep_keyErrorFinish p t).ps
    · rename_i p1 hm
      exact (pstep_moveToEnded p t p1 hm).ps.trans (ps_endingTail p1 t _)

theorem ps_cancelCallback (p : Pool) (t : Nat) (tk : PTask) : PS p (p.cancelCallback t tk) := by
  unfold cancelCallback
  simp only
  have hr := ps_runCb p t tk false
  split
  · exact hr
  · exact hr.trans (ps_taskEnding _ t)

theorem ps_taskCancellation (p : Pool) (t : Nat) (tk : PTask) : PS p (p.taskCancellation t tk) := by
  unfold taskCancellation
  split
  · rename_i c
    have h1 : PStep p ({ p with running := p.running.erase t, cancelledR := p.cancelledR ++ [t] } : Pool) :=
      { PStep.refl p with
        ru := fun x hx => by
          rcases List.mem_append.mp hx with a | a
          · exact List.mem_append_left _ (List.mem_of_mem_erase a)
          · rcases List.mem_append.mp a with b | b
            · exact List.mem_append_right _ b
            · rw [List.mem_singleton] at b; subst b
              exact List.mem_append_left _ (by simpa using c) }
    exact (h1.trans (pstep_modTask _ _ _)).ps.trans (ps_cancelCallback _ t tk)
  · exact ((pstep_of_eq p { p with lost := true }).trans (pstep_modTask _ _ _)).ps.trans (ps_taskEnding _ t)

theorem ps_afterWorker (p : Pool) (t : Nat) (e : Option Err) : PS p (p.afterWorker t e) := by
  unfold afterWorker
  split
  · exact ((pstep_logEv p _).trans (pstep_modTask _ _ _)).ps.trans (ps_taskEnding _ t)
  · exact ((pstep_logEv p _).trans (pstep_modTask _ _ _)).ps.trans (ps_taskEnding _ t)

theorem ps_stepCreated (p : Pool) (t : Nat) (tk : PTask) : PS p (p.stepCreated t tk) := by
  unfold stepCreated
  split
  · exact (pstep_modTask p _ _).ps.trans (ps_taskCancellation _ t tk)
  · simp only
    have h0 : PS p (((p.logEv (.started t tk.arg)).modTask t fun k => { k with phase := .inWorker, fut := .ok, unstarted := false }).runHooks tk.req (p.reqOf tk).hooks.start) := by
      intro hn
      exact ((pstep_logEv p _).trans (pstep_modTask _ _ _)).trans
        (pstep_runHooks _ _ _ (noUnlock_parts (hn.reqOf tk)).1)
    split
    · exact h0.trans (ps_afterWorker _ _ _)
    · exact h0.trans (ps_afterWorker _ _ _)
    · exact h0.trans ((pstep_modTask _ _ _).trans (pstep_suspendTask _ _ _)).ps

theorem ps_workerNext (p : Pool) (t : Nat) (tk : PTask) : PS p (p.workerNext t tk) := by
  intro hn
  unfold workerNext
  exact (((pstep_logEv p _).trans (pstep_modTask _ _ _)).trans
    (pstep_runHooks _ _ _ (noUnlock_next (hn.reqOf tk)))).trans (pstep_suspendTask _ _ _)

theorem ps_workerCancelled (p : Pool) (t : Nat) (tk : PTask) : PS p (p.workerCancelled t tk) := by
  unfold workerCancelled
  split
  · exact (((pstep_logEv p _).trans (pstep_modTask _ _ _)).trans (pstep_suspendTask _ _ _)).ps
  · simp only
    have h0 : PS p ((p.logEv (.sawCancel t)).modTask t fun k => { k with sawCancel := true, phase := .wrapUp, nSaw := k.nSaw + 1 }) :=
      ((pstep_logEv p _).trans (pstep_modTask _ _ _)).ps
    split
    · exact h0.trans (ps_afterWorker _ _ _)
    · exact h0.trans (ps_taskCancellation _ t tk)

theorem ps_stepInWorker (p : Pool) (t : Nat) (tk : PTask) : PS p (p.stepInWorker t tk) := by
  unfold stepInWorker
  split
  · exact (pstep_modTask p _ _).ps.trans (ps_workerCancelled _ t tk)
  · split
    · split
      · exact ps_workerNext p t tk
      · exact ps_afterWorker p _ _
    · exact ps_afterWorker p _ _
    · exact PS.refl p

theorem ps_stepInCancelCb (p : Pool) (t : Nat) (tk : PTask) : PS p (p.stepInCancelCb t tk) := by
  unfold stepInCancelCb
  split
  · exact ((pstep_logEv p _).trans (pstep_modTask _ _ _)).ps.trans (ps_taskEnding _ t)
  · exact ((pstep_logEv p _).trans (pstep_modTask _ _ _)).ps.trans (ps_taskEnding _ t)
  · exact ((pstep_logEv p _).trans (pstep_modTask _ _ _)).ps.trans (ps_taskEnding _ t)
  · exact PS.refl p

theorem pstep_stepInEndCb (p : Pool) (t : Nat) (tk : PTask) : PStep p (p.stepInEndCb t tk) := by
  unfold stepInEndCb
  split
  · exact (pstep_logEv p _).trans (pstep_finishTask _ t)
  · exact ((pstep_logEv p _).trans (pstep_modTask _ _ _)).trans (pstep_finishTask _ t)
  · exact ((pstep_logEv p _).trans (pstep_modTask _ _ _)).trans (pstep_finishTask _ t)
  · exact PStep.refl p

/-- a pool task takes a step -/
theorem ps_stepTask (p : Pool) (t : Nat) : PS p (p.stepTask t) := by
  unfold stepTask
  split
  · exact PS.refl p
  · rename_i tk htk
    split
    · exact PS.refl p
    · simp only
      have h1 : PS p (p.modTask t fun k => { k with sched := false }) := (pstep_modTask p _ _).ps
      split
      · exact h1.trans (ps_stepCreated _ t tk)
      · exact h1
      · exact h1.trans (ps_stepInWorker _ t tk)
      · exact h1.trans (ps_stepInCancelCb _ t tk)
      · exact h1.trans (pstep_stepInEndCb _ t tk).ps
      · exact h1

/-! ### spawners: the end of a spawner is a step like any other -/

theorem pstep_finishMeta (p : Pool) (m : Nat) (o : Outcome) : PStep p (p.finishMeta m o) := by
  unfold finishMeta
  split
  · exact PStep.refl p
  · simp only
    refine PStep.trans ?_ (pstep_emitChildren _ _)
    exact pstep_modReq p m _ (fun r _ => RStep.of_done rfl rfl rfl) (fun _ => rfl)

/-! ### gather -/

theorem pstep_gatherChildDone (p : Pool) (g i : Nat) (viaHandle : Bool) : PStep p (p.gatherChildDone g i viaHandle) := by
  unfold gatherChildDone
  split
  · exact PStep.refl p
  · split
    · exact PStep.refl p
    · simp only
      have h1 : PStep p (p.modGather g fun x => { x with nfinished := x.nfinished + 1 }) := pstep_modGather p g _
      split
      · exact h1
      · split
        · exact h1
        · split
          · exact h1
          · split
            · exact (h1.trans (pstep_modGather _ _ _)).trans (pstep_schedApi _ _)
            · exact h1.trans (pstep_modGather _ _ _)

theorem pstep_registerChild (p : Pool) (c : Child) (g i : Nat) : PStep p (p.registerChild c g i) := by
  unfold registerChild
  split
  · exact pstep_modTask p _ _
  · exact ps_mr

theorem pstep_gatherScan (g : Nat) (cs : List Child) (i : Nat) (p : Pool) : PStep p (gatherScan g cs i p) := by
  induction cs generalizing i p with
  | nil => unfold gatherScan; exact PStep.refl p
  | cons c cs ih =>
    unfold gatherScan
    refine PStep.trans ?_ (ih _ _)
    split
    · exact pstep_gatherChildDone p g i false
    · exact pstep_registerChild p c g i

/-- a gather is appended -/
theorem pstep_addGather (p : Pool) (G : Gather) (amb : Bool) :
    PStep p ({ p with gathers := p.gathers ++ [G], ambiguous := amb } : Pool) :=
  { PStep.refl p with
    ga := fun g G0 h => ⟨G0, by
      show (p.gathers ++ [G])[g]? = some G0
      rw [List.getElem?_append_left (lt_of_getElem?_some h)]; exact h, rfl, rfl⟩ }

theorem pstep_gatherStart (p : Pool) (children : List Child) (re : Bool) (owner : Nat) (setPrefix : Nat) :
    PStep p (p.gatherStart children re owner setPrefix).1 := by
  unfold gatherStart
  simp only
  exact (pstep_addGather p _ _).trans (pstep_gatherScan _ _ _ _)

/-- the gather just started sits at the returned index with the given children and `return_exceptions` -/
theorem gatherStart_get (p : Pool) (children : List Child) (re : Bool) (owner : Nat) (setPrefix : Nat) :
    ∃ G, (p.gatherStart children re owner setPrefix).1.gathers[(p.gatherStart children re owner setPrefix).2]? = some G ∧
      G.children = children ∧ G.retExc = re := by
  unfold gatherStart
  simp only
  exact (pstep_gatherScan p.gathers.length children 0 _).ga p.gathers.length
    { children := children, nfinished := 0, owner := owner, retExc := re, outer := if children.isEmpty then some .ok else none }
    (by simp)

/-! ### flush / until_closed -/

theorem pstep_finishApi (p : Pool) (a : Nat) (o : Outcome) : PStep p (p.finishApi a o) := by
  unfold finishApi
  refine pstep_modApi p a _ (fun x _ h => ?_)
  rw [gacPending_iff] at h
  rcases h.2 with ⟨g, e⟩ | ⟨g, e⟩ <;> cases e

theorem pstep_flushAfter2 (p : Pool) (a : Nat) (o : Outcome) : PStep p (p.flushAfter2 a o) := by
  unfold flushAfter2
  split
  · simp only
    refine PStep.trans ?_ (pstep_finishApi _ a _)
    exact { PStep.refl p with
      ru := fun x hx => by
        rcases List.mem_append.mp hx with b | b
        · exact List.mem_append_left _ b
        · exact List.mem_append_right _ (List.mem_filter.mp b).1 }
  · exact pstep_finishApi p a _

/-- the frame of a call that is not a `gather_and_close()` may change at will -/
theorem pstep_modApi_nogac (p : Pool) (a : Nat) (f : Api → Api) (hk : ∀ x, (f x).kind = x.kind)
    (hn : ∀ x, p.apis[a]? = some x → x.kind.isGac = false) : PStep p (p.modApi a f) := by
  refine pstep_modApi p a f (fun x hx h => ?_)
  rw [gacPending_iff, hk, hn x hx] at h
  cases h.1

theorem pstep_flushAfter1 (p : Pool) (a : Nat) (re : Bool) (o : Outcome)
    (hn : ∀ x, p.apis[a]? = some x → x.kind.isGac = false) : PStep p (p.flushAfter1 a re o) := by
  unfold flushAfter1
  split
  · exact pstep_finishApi p a _
  · simp only
    have t1 : PStep p ({ p with metaCancelled := [], reqs := p.reqs.map fun (r : Req) => { r with inCancelled := false } } : Pool) :=
      pstep_mapReqs p _ (fun (r : Req) => { r with inCancelled := false }) rfl
        (fun r => RStep.of_eq rfl rfl rfl rfl rfl) (fun _ h => h) (fun _ _ h => h)
    have t2 := t1.trans (pstep_modApi_triv _ a fun x => { x with snapE := p.ended, snapC := p.cancelledR })
    have t3 := t2.trans (pstep_gatherStart _ (p.ended.map Child.task ++ p.cancelledR.map Child.task) re a 0)
    split
    · exact t3.trans (pstep_flushAfter2 _ a _)
    · refine t3.trans (pstep_modApi_nogac _ a _ (fun _ => rfl) (fun x hx => ?_))
      rw [(gatherStart_facts _ _ _ _ _).2] at hx
      obtain ⟨y, hy, e⟩ := modify_inv (l := p.apis) hx
      subst e
      split
      · exact hn y hy
      · exact hn y hy

theorem pstep_flushStage1 (p : Pool) (a : Nat) (re : Bool)
    (hn : ∀ x, p.apis[a]? = some x → x.kind.isGac = false) : PStep p (p.flushStage1 a re) := by
  unfold flushStage1
  simp only
  have t1 : PStep p ({ p with reqs := p.reqs.map fun (r : Req) => if r.inRunning && r.outcome.isSome then { r with inRunning := false } else r } : Pool) := by
    refine pstep_mapReqs p _ (fun (r : Req) => if r.inRunning && r.outcome.isSome then { r with inRunning := false } else r) rfl
      (fun r => ?_) (fun r h => ?_) (fun r ho hi => ?_)
    · split
      · exact RStep.of_eq rfl rfl rfl rfl rfl
      · exact RStep.refl r
    · split at h
      · cases h
      · exact h
    · by_cases c : (r.inRunning && r.outcome.isSome) = true
      · rw [if_pos c] at ho
        have ho' : r.outcome = none := ho
        simp [ho'] at c
      · rw [if_neg c]; exact hi
  have t2 := t1.trans (pstep_gatherStart _ (p.metaCancelled.map Child.spawner ++
    (indicesWhere p.reqs fun r => r.inRunning && r.outcome.isSome).map Child.spawner) re a
    (p.metaCancelled.map Child.spawner ++ (indicesWhere p.reqs fun r => r.inRunning && r.outcome.isSome).map Child.spawner).length)
  have hn2 : ∀ x, (Pool.gatherStart { p with reqs := p.reqs.map fun (r : Req) => if r.inRunning && r.outcome.isSome then { r with inRunning := false } else r }
      (p.metaCancelled.map Child.spawner ++ (indicesWhere p.reqs fun r => r.inRunning && r.outcome.isSome).map Child.spawner) re a
      (p.metaCancelled.map Child.spawner ++ (indicesWhere p.reqs fun r => r.inRunning && r.outcome.isSome).map Child.spawner).length).1.apis[a]? = some x →
      x.kind.isGac = false := by
    intro x hx
    rw [(gatherStart_facts _ _ _ _ _).2] at hx
    exact hn x hx
  split
  · exact t2.trans (pstep_flushAfter1 _ a re _ hn2)
  · exact t2.trans (pstep_modApi_nogac _ a _ (fun _ => rfl) hn2)

theorem pstep_untilClosedStart (p : Pool) (a : Nat) : PStep p (p.untilClosedStart a) := by
  unfold untilClosedStart
  split
  · exact pstep_finishApi p a _
  · refine (pstep_of_eq p { p with closedWaiters := p.closedWaiters ++ [a] }).trans (pstep_modApi _ a _ (fun x _ h => ?_))
    rw [gacPending_iff] at h
    rcases h.2 with ⟨g, e⟩ | ⟨g, e⟩ <;> cases e

theorem pstep_addApi (p : Pool) (k : ApiKind) : PStep p (p.addApi k) := by
  unfold addApi
  refine PStep.trans (q := { p with apis := p.apis ++ [{ kind := k, frame := .notStarted, sched := true, outcome := none }] }) ?_ (pstep_emitRef _ _)
  exact { PStep.refl p with
    ap := fun i A' h hp => by
      rcases append_some (l := p.apis) h with hA | ⟨_, rfl⟩
      · exact ⟨A', hA, ((gacPending_iff A').mp hp).1, rfl⟩
      · rw [gacPending_iff] at hp
        rcases hp.2 with ⟨g, e⟩ | ⟨g, e⟩ <;> cases e }

theorem pstep_doGate (p : Pool) (t : Nat) (o : FutSt) : PStep p (p.doGate t o).1 := by
  unfold doGate
  split
  · exact (pstep_modTask p _ _).trans (pstep_schedTask _ _)
  · exact PStep.refl p

/-- every external operation except `unlock()`, without `unlock()` in the user code handed over -/
theorem ps_applyOp (p : Pool) (op : Op) (hop : op.noUnlock = true) : PS p (p.applyOp op).1 := by
  cases op <;> simp only [applyOp]
  · exact (pstep_doApply p _ _ _ hop).ps
  · exact (pstep_doMap p _ _ _ _ _ hop).ps
  · exact ps_doStart p _
  · exact (pstep_doStop p _).ps
  · exact (pstep_doStop p _).ps
  · exact (pstep_doCancel p _).ps
  · exact (pstep_doCancelGroup p _).ps
  · exact (pstep_doCancelAll p).ps
  · exact PStep.ps { PStep.refl p with lk := fun _ => rfl }
  · cases hop
  · exact (pstep_doSetSize p _).ps
  · exact PS.refl p
  · exact (pstep_addApi p _).ps
  · exact (pstep_addApi p _).ps
  · exact (pstep_addApi p _).ps
  · exact (pstep_doGate p _ _).ps

end Pool
end Taskpool
