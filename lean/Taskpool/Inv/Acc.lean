import Taskpool.Inv.Task
/-! Request accounting while a spawner runs: the books of request `m` are described by a predicate `P` on its counters
(a loop invariant in terms of the loop's own position), all other requests balance as usual. -/
namespace Taskpool

structure AccAt (p : Pool) (m : Nat) (P : Cnt → MFrame → Prop) : Prop where
  ref : ∀ (t : Nat) (tk : PTask), p.tasks[t]? = some tk → tk.req < p.reqs.length
  tk : ∀ (m' : Nat) (r : Req), p.reqs[m']? = some r → tasksOf p.tasks m' = r.created
  rq : ∀ (m' : Nat) (r : Req), p.reqs[m']? = some r → m' ≠ m → AccReq r.cnt r.frame 0
  here : ∀ (r : Req), p.reqs[m]? = some r → P r.cnt r.frame

theorem AccOK.atReq {p : Pool} (h : AccOK p) (m : Nat) : AccAt p m (fun c fr => AccReq c fr 0) :=
  ⟨h.ref, h.tk, fun m' r hr _ => h.rq m' r hr, fun r hr => h.rq m r hr⟩

theorem AccAt.ok {p : Pool} {m : Nat} {P : Cnt → MFrame → Prop} (h : AccAt p m P)
    (hP : ∀ c fr, P c fr → AccReq c fr 0) : AccOK p :=
  ⟨h.ref, h.tk, fun m' r hr => by
    by_cases e : m' = m
    · subst e; exact hP _ _ (h.here r hr)
    · exact h.rq m' r hr e⟩

theorem AccAt.weaken {p : Pool} {m : Nat} {P Q : Cnt → MFrame → Prop} (h : AccAt p m P)
    (hPQ : ∀ c fr, P c fr → Q c fr) : AccAt p m Q :=
  ⟨h.ref, h.tk, h.rq, fun r hr => hPQ _ _ (h.here r hr)⟩

/-- a change that keeps counters and tasks' requests keeps the description, if `P` does not care about a frame moved
to `done` / `running` -/
theorem AccFrame.atReq {p q : Pool} (h : AccFrame p q) {m : Nat} {P : Cnt → MFrame → Prop} (ha : AccAt p m P)
    (hlt : m < p.reqs.length)
    (hP : ∀ c fr fr', P c fr → (fr' = fr ∨ fr' = .done ∨ fr' = .running) → P c fr') : AccAt q m P := by
  have hok : ∀ m', tasksOf q.tasks m' = tasksOf p.tasks m' := fun m' =>
    countP_pointwise _ _ _ h.len (fun t tk' ht => by
      obtain ⟨tk, a, b⟩ := h.tk t tk' ht
      exact ⟨tk, a, by rw [b]⟩)
  have hfresh : ∀ m', p.reqs.length ≤ m' → tasksOf p.tasks m' = 0 := by
    intro m' hge
    unfold tasksOf
    rw [List.countP_eq_zero]
    intro tk hmem
    obtain ⟨i, hi, rfl⟩ := List.getElem_of_mem hmem
    have := ha.ref i p.tasks[i] (by simp [hi])
    have hne : p.tasks[i].req ≠ m' := by omega
    simp [hne]
  refine ⟨?_, ?_, ?_, ?_⟩
  · intro t tk' ht
    obtain ⟨tk, a, b⟩ := h.tk t tk' ht
    rw [b]
    exact Nat.lt_of_lt_of_le (ha.ref t tk a) h.rql
  · intro m' r' hr
    rw [hok]
    rcases h.rq m' r' hr with ⟨r, a, b, _⟩ | ⟨hge, hc, _⟩
    · rw [ha.tk m' r a]
      exact (congrArg Cnt.created b).symm
    · rw [hfresh m' hge]
      exact hc.1.symm
  · intro m' r' hr hne
    rcases h.rq m' r' hr with ⟨r, a, b, c⟩ | ⟨_, hc, hf⟩
    · rw [b]
      exact (ha.rq m' r a hne).frame c
    · exact AccReq.fresh hc hf
  · intro r' hr
    rcases h.rq m r' hr with ⟨r, a, b, c⟩ | ⟨hge, _, _⟩
    · rw [b]
      exact hP _ _ _ (ha.here r a) c
    · omega

theorem Tame.accFrame {p q : Pool} (h : Tame p q) : AccFrame p q := h.mapFrame.accFrame

/-- request `m` is rewritten, its `created` counter untouched; the tasks stay -/
theorem AccAt.modReq {p : Pool} {m : Nat} {P P' : Cnt → MFrame → Prop} (h : AccAt p m P) (f : Req → Req)
    (hc : ∀ r, (f r).created = r.created)
    (hf : ∀ r, p.reqs[m]? = some r → P r.cnt r.frame → P' (f r).cnt (f r).frame) :
    AccAt (p.modReq m f) m P' := by
  refine ⟨?_, ?_, ?_, ?_⟩
  · intro t tk ht
    simp only [Pool.modReq, List.length_modify]
    exact h.ref t tk ht
  · intro m' r' hr
    simp only [Pool.modReq] at hr
    obtain ⟨x, hx, rfl⟩ := getElem?_modify_some p.reqs m m' f r' hr
    have := h.tk m' x hx
    split
    · rw [hc]; exact this
    · exact this
  · intro m' r' hr hne
    simp only [Pool.modReq] at hr
    obtain ⟨x, hx, rfl⟩ := getElem?_modify_some p.reqs m m' f r' hr
    have hne' : ¬ m = m' := fun e => hne e.symm
    simp only [hne', if_false]
    exact h.rq m' x hx hne
  · intro r' hr
    simp only [Pool.modReq] at hr
    obtain ⟨x, hx, rfl⟩ := getElem?_modify_some p.reqs m m f r' hr
    simp only [if_true]
    exact hf x hx (h.here x hx)

theorem tasksOf_append_one (ts : List PTask) (x : PTask) (m : Nat) :
    tasksOf (ts ++ [x]) m = tasksOf ts m + (if (x.req == m) = true then 1 else 0) := by
  simp [tasksOf, List.countP_append, List.countP_cons]

/-- a task of request `m` is appended and `created` of `m` goes up by one -/
theorem AccAt.addTask {p : Pool} {m : Nat} {P P' : Cnt → MFrame → Prop} (h : AccAt p m P) (x : PTask) (hq : x.req = m)
    (hlt : m < p.reqs.length) (f : Req → Req) (hc : ∀ r, (f r).created = r.created + 1)
    (hf : ∀ r, p.reqs[m]? = some r → P r.cnt r.frame → P' (f r).cnt (f r).frame)
    (q : Pool) (ht : q.tasks = p.tasks ++ [x]) (hr : q.reqs = p.reqs.modify m f) : AccAt q m P' := by
  refine ⟨?_, ?_, ?_, ?_⟩
  · intro i tk hi
    rw [ht, List.getElem?_append] at hi
    rw [hr, List.length_modify]
    split at hi
    · exact h.ref i tk hi
    · rcases Nat.lt_or_ge (i - p.tasks.length) 1 with h1 | h1
      · have : i - p.tasks.length = 0 := by omega
        rw [this] at hi; simp at hi; subst hi; rw [hq]; exact hlt
      · rw [List.getElem?_eq_none (by simpa using h1)] at hi; cases hi
  · intro m' r' hr'
    rw [hr] at hr'
    obtain ⟨y, hy, rfl⟩ := getElem?_modify_some p.reqs m m' f r' hr'
    rw [ht, tasksOf_append_one, h.tk m' y hy]
    by_cases e : m = m'
    · subst e
      simp only [if_true, hc, hq, beq_self_eq_true]
    · have hne : (x.req == m') = false := by rw [hq]; simpa using e
      simp only [e, if_false, hne, Bool.false_eq_true, Nat.add_zero]
  · intro m' r' hr' hne
    rw [hr] at hr'
    obtain ⟨y, hy, rfl⟩ := getElem?_modify_some p.reqs m m' f r' hr'
    have hne' : ¬ m = m' := fun e => hne e.symm
    simp only [hne', if_false]
    exact h.rq m' y hy hne
  · intro r' hr'
    rw [hr] at hr'
    obtain ⟨y, hy, rfl⟩ := getElem?_modify_some p.reqs m m f r' hr'
    simp only [if_true]
    exact hf y hy (h.here y hy)

theorem AccAt.of_eq {p q : Pool} {m : Nat} {P : Cnt → MFrame → Prop} (h : AccAt p m P) (hr : q.reqs = p.reqs)
    (ht : q.tasks = p.tasks) : AccAt q m P :=
  ⟨fun t tk a => by rw [hr]; rw [ht] at a; exact h.ref t tk a,
   fun m' r a => by rw [hr] at a; rw [ht]; exact h.tk m' r a,
   fun m' r a b => by rw [hr] at a; exact h.rq m' r a b,
   fun r a => by rw [hr] at a; exact h.here r a⟩

end Taskpool

namespace Taskpool

/-- apply/start loop at position `n` (invocations still to start; the `remaining` field may be stale) -/
def PA (n : Nat) : Cnt → MFrame → Prop := fun c _ => c.kind = .apply ∧ c.created + c.skipped + n = c.n0

/-- apply/start loop with the `remaining` field set to `n` -/
def PAf (n : Nat) : Cnt → MFrame → Prop :=
  fun c _ => c.kind = .apply ∧ c.created + c.skipped + n = c.n0 ∧ c.remaining = n

/-- map loop: `left` elements not yet pulled, `hand` (0/1) elements pulled that are neither a task nor skipped -/
def PM (left hand : Nat) : Cnt → MFrame → Prop :=
  fun c _ => c.kind = .map ∧ c.pulled + c.left = c.n0 ∧ c.pulled = c.created + c.skipped + hand ∧ c.left = left

theorem PAf.acc {n : Nat} {c : Cnt} {fr fr' : MFrame} (h : PAf n c fr) (hw : fr' = .waitRoom → 1 ≤ n)
    (hm : fr' ≠ .waitMapSem := by simp) : AccReq c fr' 0 := by
  obtain ⟨a, b, e⟩ := h
  refine ⟨fun _ => ⟨by rw [e]; omega, fun x => by rw [e]; exact hw x, hm⟩, fun hk => ?_⟩
  rw [a] at hk; cases hk

theorem PM.acc0 {l : Nat} {c : Cnt} {fr fr' : MFrame} (h : PM l 0 c fr)
    (hf : fr' ≠ .waitRoom ∧ fr' ≠ .waitMapSem) : AccReq c fr' 0 := by
  obtain ⟨a, b, e, _⟩ := h
  refine ⟨fun hk => ?_, fun _ => ⟨b, by omega, by omega, fun hx => ?_, fun _ => by omega⟩⟩
  · rw [a] at hk; cases hk
  · rcases hx with x | x
    · exact absurd x hf.1
    · exact absurd x hf.2

theorem PM.acc1 {l : Nat} {c : Cnt} {fr fr' : MFrame} (h : PM l 1 c fr) (hf : fr' ≠ .notStarted) : AccReq c fr' 0 := by
  obtain ⟨a, b, e, _⟩ := h
  refine ⟨fun hk => ?_, fun _ => ⟨b, by omega, by omega, fun _ => e, fun x => absurd x hf⟩⟩
  rw [a] at hk; cases hk

namespace Pool

/-- a spawner ends (normally, cancelled or with an exception): its books close as they are -/
theorem accOK_finishMeta {p : Pool} {m : Nat} {P : Cnt → MFrame → Prop} (o : Outcome) (h : AccAt p m P)
    (hP : ∀ c fr, P c fr → AccReq c .done 0) : AccOK (p.finishMeta m o) := by
  unfold finishMeta
  split
  · rename_i hn
    exact ⟨h.ref, h.tk, fun m' r hr => by
      by_cases e : m' = m
      · subst e; rw [hn] at hr; cases hr
      · exact h.rq m' r hr e⟩
  · rename_i r hr
    refine (tame_emitChildren _ _).acc ?_
    refine AccAt.ok (m := m) (P := fun c fr => AccReq c fr 0) ?_ (fun _ _ x => x)
    refine h.modReq _ (fun _ => rfl) ?_
    intro x hx hp
    exact hP _ _ hp

end Pool
end Taskpool

namespace Taskpool

/-- the state of the pool while the spawner of request `m` runs: everything but the books of the map semaphores and
the request accounting is `Good0`; `k` map slots of `m` are in flight; the counters of `m` satisfy `P` -/
structure SpSt (cap : Cap) (L R : Bool) (p : Pool) (m : Nat) (k : Int) (P : Cnt → MFrame → Prop) : Prop where
  g0 : Good0 cap L R p
  mp : MapMid p m k
  ac : AccAt p m P
  lt : m < p.reqs.length
  nw : ∀ r, p.reqs[m]? = some r → r.frame ≠ .waitRoom
  cn : CancEx (· = m) p

/-- request `m` (the spawner that is running) is rewritten: its snapshot stays, and so do its counters unless it has
none -/
theorem CancEx.modReqSelf {p : Pool} {m : Nat} (h : CancEx (· = m) p) (f : Req → Req)
    (hcs : ∀ r, p.reqs[m]? = some r → (f r).cancelSnap = r.cancelSnap ∧
      (((f r).created = r.created ∧ (f r).pulled = r.pulled) ∨ r.cancelSnap = none)) : CancEx (· = m) (p.modReq m f) := by
  intro i r' c u a b
  simp only [Pool.modReq] at a
  obtain ⟨x, hx, rfl⟩ := getElem?_modify_some p.reqs m i f r' a
  by_cases e : m = i
  · subst e
    simp only [if_true] at b ⊢
    obtain ⟨e1, e2⟩ := hcs x hx
    rw [e1] at b
    rcases e2 with ⟨e3, e4⟩ | e3
    · obtain ⟨h1, h2, _⟩ := h m x c u hx b
      exact ⟨by rw [e3]; exact h1, by rw [e4]; exact h2, Or.inl trivial⟩
    · rw [e3] at b; cases b
  · simp only [e, if_false] at b ⊢
    exact h i x c u hx b

theorem Req.pend_zero {r : Req} (h : r.frame ≠ .waitRoom) : r.pend = 0 := by
  unfold Req.pend
  cases hf : r.frame <;> simp_all

/-- `P` does not depend on where the spawner is suspended -/
def FrameFree (P : Cnt → MFrame → Prop) : Prop := ∀ c fr fr', P c fr → P c fr'

theorem PA.ff (n : Nat) : FrameFree (PA n) := fun _ _ _ h => h
theorem PAf.ff (n : Nat) : FrameFree (PAf n) := fun _ _ _ h => h
theorem PM.ff (l h : Nat) : FrameFree (PM l h) := fun _ _ _ h => h

theorem Good.sp {cap : Cap} {L R : Bool} {p : Pool} (hg : Good cap L R p) (m : Nat) (hlt : m < p.reqs.length)
    (hnw : ∀ r, p.reqs[m]? = some r → r.frame ≠ .waitRoom) :
    SpSt cap L R p m 0 (fun c fr => AccReq c fr 0) :=
  ⟨hg.toGood0, hg.map.mid m, hg.acc.atReq m, hlt, hnw, hg.canc.ex _⟩

theorem SpSt.good {cap : Cap} {L R : Bool} {p : Pool} {m : Nat} {k : Int} {P : Cnt → MFrame → Prop}
    (h : SpSt cap L R p m k P) (hk : k = 0) (hP : ∀ c fr, P c fr → AccReq c fr 0)
    (hcm : ∀ r c u, p.reqs[m]? = some r → r.cancelSnap = some (c, u) → r.frame = .done ∨ DoomedAt p m r) : Good cap L R p :=
  ⟨h.g0, h.mp.ok hk, h.ac.ok hP, h.cn.close hcm⟩

theorem SpSt.weaken {cap : Cap} {L R : Bool} {p : Pool} {m : Nat} {k : Int} {P Q : Cnt → MFrame → Prop}
    (h : SpSt cap L R p m k P) (hPQ : ∀ c fr, P c fr → Q c fr) : SpSt cap L R p m k Q :=
  ⟨h.g0, h.mp, h.ac.weaken hPQ, h.lt, h.nw, h.cn⟩

/-- a tame step (nested user code included) -/
theorem SpSt.tame {cap : Cap} {L R : Bool} {p q : Pool} {m : Nat} {k : Int} {P : Cnt → MFrame → Prop}
    (h : SpSt cap L R p m k P) (t : Tame p q) (hP : FrameFree P) : SpSt cap L R q m k P :=
  ⟨t.toTame0.good0 h.g0, t.mapFrame.mid h.mp h.lt, t.accFrame.atReq h.ac h.lt (fun c fr fr' x _ => hP c fr fr' x),
    Nat.lt_of_lt_of_le h.lt t.rql, fun r' hr' => by
      rcases t.rq m r' hr' with ⟨r, a, b⟩ | ⟨hge, _⟩
      · rcases b.fr with e | e
        · rw [e]; exact h.nw r a
        · rw [e]; intro x; cases x
      · have := h.lt; omega, t.cok _ h.cn⟩

/-- request `m` is rewritten: no map slot moves unless accounted for by `k → k'`, `created` stays -/
theorem SpSt.modReq {cap : Cap} {L R : Bool} {p : Pool} {m : Nat} {k : Int} {P : Cnt → MFrame → Prop}
    (h : SpSt cap L R p m k P) (f : Req → Req) (k' : Int) (P' : Cnt → MFrame → Prop)
    (hsem : ∀ r v, p.reqs[m]? = some r → r.mapSem.value = .fin v →
        ∃ v', (f r).mapSem.value = .fin v' ∧
          ((v' + grantsL (f r).mapSem.waiters + (f r).pend : Nat) : Int) + k' ≤ (v + grantsL r.mapSem.waiters + r.pend : Nat) + k ∧
          ((f r).outcome = none → r.outcome = none ∧
            ((v + grantsL r.mapSem.waiters + r.pend : Nat) : Int) + k ≤ (v' + grantsL (f r).mapSem.waiters + (f r).pend : Nat) + k'))
    (hnc : ∀ r, (f r).nc = r.nc) (hacq : ∀ r, p.reqs[m]? = some r → r.AcqOK → (f r).AcqOK)
    (hc : ∀ r, (f r).created = r.created)
    (hf : ∀ r, p.reqs[m]? = some r → P r.cnt r.frame → P' (f r).cnt (f r).frame)
    (hnw : ∀ r, r.frame ≠ .waitRoom → (f r).frame ≠ .waitRoom)
    (hwk : ∀ r, p.reqs[m]? = some r → r.mapSem.WakeInv → (f r).mapSem.WakeInv)
    (hcs : ∀ r, p.reqs[m]? = some r → (f r).cancelSnap = r.cancelSnap ∧
      (((f r).created = r.created ∧ (f r).pulled = r.pulled) ∨ r.cancelSnap = none) := by
        intro r _; exact ⟨rfl, Or.inl ⟨rfl, rfl⟩⟩) :
    SpSt cap L R (p.modReq m f) m k' P' :=
  ⟨(Pool.tame0_modReq p m f).good0 h.g0, h.mp.modReq f k' hsem hnc hacq hwk, h.ac.modReq f hc hf,
    by simpa [Pool.modReq] using h.lt, fun r' hr' => by
      simp only [Pool.modReq] at hr'
      obtain ⟨x, hx, rfl⟩ := getElem?_modify_some p.reqs m m f r' hr'
      simp only [if_true]
      exact hnw x (h.nw x hx), h.cn.modReqSelf f hcs⟩

/-- request `m` is rewritten in fields the map books do not read -/
theorem SpSt.modReq' {cap : Cap} {L R : Bool} {p : Pool} {m : Nat} {k : Int} {P : Cnt → MFrame → Prop}
    (h : SpSt cap L R p m k P) (f : Req → Req) (P' : Cnt → MFrame → Prop)
    (hs : ∀ r, (f r).mapSem = r.mapSem ∧ (f r).nc = r.nc ∧ ((f r).frame = r.frame ∨ (f r).frame = .running) ∧
      ((f r).outcome = none → r.outcome = none))
    (hacq : ∀ r, p.reqs[m]? = some r → r.AcqOK → (f r).AcqOK)
    (hc : ∀ r, (f r).created = r.created)
    (hf : ∀ r, p.reqs[m]? = some r → P r.cnt r.frame → P' (f r).cnt (f r).frame)
    (hcs : ∀ r, p.reqs[m]? = some r → (f r).cancelSnap = r.cancelSnap ∧
      (((f r).created = r.created ∧ (f r).pulled = r.pulled) ∨ r.cancelSnap = none) := by
        intro r _; exact ⟨rfl, Or.inl ⟨rfl, rfl⟩⟩) :
    SpSt cap L R (p.modReq m f) m k P' := by
  have hfw : ∀ r, p.reqs[m]? = some r → (f r).frame ≠ .waitRoom := fun r hr => by
    rcases (hs r).2.2.1 with e | e
    · rw [e]; exact h.nw r hr
    · rw [e]; intro x; cases x
  refine ⟨(Pool.tame0_modReq p m f).good0 h.g0,
    h.mp.modReq f k ?_ (fun r => (hs r).2.1) hacq (fun r _ hw => by rw [(hs r).1]; exact hw), h.ac.modReq f hc hf,
    by simpa [Pool.modReq] using h.lt, fun r' hr' => by
      simp only [Pool.modReq] at hr'
      obtain ⟨x, hx, rfl⟩ := getElem?_modify_some p.reqs m m f r' hr'
      simp only [if_true]
      exact hfw x hx, h.cn.modReqSelf f hcs⟩
  intro r v hr hv
  have e1 : (f r).pend = r.pend := by rw [Req.pend_zero (hfw r hr), Req.pend_zero (h.nw r hr)]
  have e2 := (hs r).2.2.2
  refine ⟨v, by rw [(hs r).1]; exact hv, ?_, fun hnd => ⟨e2 hnd, ?_⟩⟩
  · rw [(hs r).1, e1]; omega
  · rw [(hs r).1, e1]; omega

end Taskpool

namespace Taskpool

theorem AccAt.emitRef {p : Pool} {m : Nat} {P : Cnt → MFrame → Prop} (h : AccAt p m P) (r : Ref) :
    AccAt (p.emitRef r) m P := h.of_eq rfl rfl

end Taskpool

namespace Taskpool
namespace Pool

/-- another request is rewritten, counters and frame untouched -/
theorem _root_.Taskpool.AccAt.modReqOther {p : Pool} {m : Nat} {P : Cnt → MFrame → Prop} (h : AccAt p m P) (w : Nat)
    (hw : w ≠ m) (f : Req → Req) (hf : ∀ x, (f x).cnt = x.cnt ∧ (f x).frame = x.frame) : AccAt (p.modReq w f) m P := by
  have hreqs : (p.modReq w f).reqs = p.reqs.modify w f := rfl
  have htasks : (p.modReq w f).tasks = p.tasks := rfl
  refine ⟨?_, ?_, ?_, ?_⟩
  · intro t tk ht
    rw [hreqs, List.length_modify]
    rw [htasks] at ht
    exact h.ref t tk ht
  · intro m' r' hr'
    rw [hreqs] at hr'
    rw [htasks]
    obtain ⟨x, hx, rfl⟩ := getElem?_modify_some _ w m' _ r' hr'
    have := h.tk m' x hx
    split
    · rw [show (f x).created = x.created from congrArg Cnt.created (hf x).1]; exact this
    · exact this
  · intro m' r' hr' hne
    rw [hreqs] at hr'
    obtain ⟨x, hx, rfl⟩ := getElem?_modify_some _ w m' _ r' hr'
    have := h.rq m' x hx hne
    split
    · rw [(hf x).1, (hf x).2]; exact this
    · exact this
  · intro r' hr'
    rw [hreqs] at hr'
    obtain ⟨x, hx, rfl⟩ := getElem?_modify_some _ w m _ r' hr'
    simp only [hw, if_false]
    exact h.here x hx

/-- scheduling a woken spawner keeps any description of the books -/
theorem _root_.Taskpool.AccAt.schedOpt {p : Pool} {m : Nat} {P : Cnt → MFrame → Prop} (h : AccAt p m P) (o : Option Nat) :
    AccAt (p.schedOpt o) m P := by
  cases o with
  | none => exact h
  | some w =>
    simp only [Pool.schedOpt, schedMeta]
    refine AccAt.emitRef ?_ _
    by_cases e : w = m
    · subst e
      exact h.modReq _ (fun _ => rfl) (fun _ _ hp => hp)
    · exact h.modReqOther w e _ (fun _ => ⟨rfl, rfl⟩)

theorem _root_.Taskpool.SpSt.schedOpt {cap : Cap} {L R : Bool} {p : Pool} {m : Nat} {k : Int} {P : Cnt → MFrame → Prop}
    (h : SpSt cap L R p m k P) (o : Option Nat) : SpSt cap L R (p.schedOpt o) m k P :=
  ⟨(tame_schedOpt p o).toTame0.good0 h.g0, (tame_schedOpt p o).mapFrame.mid h.mp h.lt, h.ac.schedOpt o,
    Nat.lt_of_lt_of_le h.lt (tame_schedOpt p o).rql, fun r' hr' => by
      rcases (tame_schedOpt p o).rq m r' hr' with ⟨r, a, b⟩ | ⟨hge, _⟩
      · rcases b.fr with e | e
        · rw [e]; exact h.nw r a
        · rw [e]; intro x; cases x
      · have := h.lt; omega, (tame_schedOpt p o).cok _ h.cn⟩

/-- `release()` of a request's own semaphore keeps any description of the books and the number of requests -/
theorem accFrame_releaseMap' (p : Pool) (m : Nat) :
    p.reqs.length ≤ (p.releaseMap m).reqs.length ∧
    ∀ {P : Cnt → MFrame → Prop}, AccAt p m P → AccAt (p.releaseMap m) m P := by
  refine ⟨(accFrame_releaseMap p m).rql, ?_⟩
  intro P h
  unfold releaseMap
  split
  · exact h
  · rename_i r hr
    have h1 : AccAt (p.modReq m fun x => { x with mapSem := r.mapSem.release.1 }) m P :=
      h.modReq _ (fun _ => rfl) (fun _ _ hp => hp)
    suffices key : ∀ o : Option Nat,
        AccAt ((p.modReq m fun x => { x with mapSem := r.mapSem.release.1 }).schedOpt o) m P from key _
    intro o
    cases o with
    | none => exact h1
    | some w =>
      simp only [schedOpt, schedMeta]
      refine AccAt.emitRef ?_ _
      by_cases e : w = m
      · subst e
        exact h1.modReq _ (fun _ => rfl) (fun _ _ hp => hp)
      · exact h1.modReqOther w e _ (fun _ => ⟨rfl, rfl⟩)

end Pool
end Taskpool
