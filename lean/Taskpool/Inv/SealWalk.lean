import Taskpool.Inv.Seal
import Taskpool.Inv.GoodInv
import Taskpool.Inv.WantWalk2
-- TEMPORARY STUB (not committed): statements the walk delivers
namespace Taskpool
namespace Pool
theorem seal_init (cap : Cap) (simple : Option SpawnSpec) (h : mkNoUnlock simple = true) : Seal (Pool.init cap simple) := sorry

theorem seal_applyOp {cap : Cap} (p : Pool) (o : Op) (ho : o.noUnlock = true)
    (hg : Good cap true false p) (hw : Want p) (hs : Seal p) : Seal (p.applyOp o).1 := sorry

theorem seal_runRef {cap : Cap} (p : Pool) (r : Ref)
    (hg : Good cap true false p) (hw : Want p) (hs : Seal p) (h0 : p.SpawnersWaited)
    (h1 : ∀ a re, ((p.modApi a fun x => { x with sched := false }).gacStage1Pre a re).1.SpawnersWaited) :
    Seal (p.runRef r) := sorry

theorem seal_orders (p : Pool) (orders : List (List Nat)) (hs : Seal p) : Seal { p with orders := orders } := sorry
theorem seal_drain (p : Pool) (hs : Seal p) : Seal { p with emit := [] } := sorry
end Pool
end Taskpool
