import Taskpool.Inv.SealWalk2
/-! **A pending `gather_and_close()` seals the pool — the walk, part 3: the theorems.**  `Pool.Seal` (`Inv/Seal.lean`) holds
initially and is preserved by every external operation other than `unlock()` (without `unlock()` in the user code handed
over), by every handle of the event loop, and by the bookkeeping between two steps.

* `Inv/SealWalk1.lean` — the frame relation `PStep`/`PS` and the steps of the machine that are instances of it;
* `Inv/SealWalk2.lean` — the walking predicate `SK`, `sk_step`, the spawner steps, `gather_and_close`. -/
namespace Taskpool
namespace Pool

/-! ### the theorems -/

theorem seal_init (cap : Cap) (simple : Option SpawnSpec) (h : mkNoUnlock simple = true) : Seal (Pool.init cap simple) where
  fr := fun m r hp => by simp [Pool.init] at hp
  lk := fun a A hp => by simp [Pool.init] at hp
  g1 := fun a A g hp => by simp [Pool.init] at hp
  g2 := fun a A g hp => by simp [Pool.init] at hp
  nh := ⟨by
    cases simple with
    | none => rfl
    | some sp => exact h, fun m r hp => by simp [Pool.init] at hp⟩

set_option linter.unusedVariables false in
theorem seal_applyOp {cap : Cap} (p : Pool) (o : Op) (ho : o.noUnlock = true)
    (hg : Good cap true false p) (hw : Want p) (hs : Seal p) : Seal (p.applyOp o).1 :=
  (sk_ps (sk_of_seal hs) (ps_applyOp p o ho)).seal

set_option linter.unusedVariables false in
theorem seal_runRef {cap : Cap} (p : Pool) (r : Ref)
    (hg : Good cap true false p) (hw : Want p) (hs : Seal p) (h0 : p.SpawnersWaited)
    (h1 : ∀ a re, ((p.modApi a fun x => { x with sched := false }).gacStage1Pre a re).1.SpawnersWaited) :
    Seal (p.runRef r) := by
  cases r with
  | task t => exact (sk_ps (sk_of_seal hs) (ps_stepTask p t)).seal
  | spawner m => exact (sk_stepMeta (sk_of_seal hs) hw m).seal
  | api a => exact (sk_stepApi (sk_of_seal hs) a h0 h1).seal
  | gchild g i => exact (sk_step (sk_of_seal hs) (pstep_gatherChildDone p g i true)).seal

theorem seal_orders (p : Pool) (orders : List (List Nat)) (hs : Seal p) : Seal { p with orders := orders } :=
  (sk_step (sk_of_seal hs) (pstep_of_eq p _)).seal

theorem seal_drain (p : Pool) (hs : Seal p) : Seal { p with emit := [] } :=
  (sk_step (sk_of_seal hs) (pstep_of_eq p _)).seal

end Pool
end Taskpool
