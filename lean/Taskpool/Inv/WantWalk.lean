import Taskpool.Inv.Want
/-! **Whoever has something to do is flagged — the walk.**  `Pool.WantOK` (`Inv/Want2.lean`) is preserved by every step of
the pool machine.  Part 1 (this file): the waiter-queue list facts, the generic transfer lemmas, and every function that
can be called at any time (the synchronous API, user-code hooks, gathers, background calls) — for every exempt set `E`.
Part 2 (`Inv/WantWalk2.lean`): the wrapper of a pool task, the spawners, and the assembly. -/
namespace Taskpool

/-! ### the waiter queue -/

theorem owners_nil : owners [] = [] := rfl
theorem owners_cons (w : Waiter) (ws : List Waiter) : owners (w :: ws) = w.owner :: owners ws := rfl
theorem owners_append (a b : List Waiter) : owners (a ++ b) = owners a ++ owners b := by simp [owners]

theorem mem_owners {m : Nat} {ws : List Waiter} : m ∈ owners ws ↔ ∃ w ∈ ws, w.owner = m := by
  simp [owners]

theorem owners_eq_nil {ws : List Waiter} (h : owners ws = []) : ws = [] := by
  simpa [owners] using h

theorem owners_length (ws : List Waiter) : (owners ws).length = ws.length := by simp [owners]

theorem owners_wakeNextL (v : Cap) (ws : List Waiter) : owners (wakeNextL v ws).2.1 = owners ws := by
  induction ws with
  | nil => rfl
  | cons w ws ih =>
    unfold wakeNextL
    split
    · rfl
    · simp only [owners_cons, ih]

/-- an entry of the queue after `_wake_up_next` was there before, or is the one that got the slot -/
theorem mem_wakeNextL (v : Cap) (ws : List Waiter) (w' : Waiter) (h : w' ∈ (wakeNextL v ws).2.1) :
    w' ∈ ws ∨ (wakeNextL v ws).2.2 = some w'.owner := by
  induction ws with
  | nil => simp [wakeNextL] at h
  | cons w ws ih =>
    unfold wakeNextL at h ⊢
    split
    · rename_i hp
      rw [if_pos hp] at h
      simp only [List.mem_cons] at h
      rcases h with rfl | h
      · right; rfl
      · left; exact List.mem_cons_of_mem _ h
    · rename_i hp
      rw [if_neg hp] at h
      simp only [List.mem_cons] at h
      rcases h with rfl | h
      · left; exact List.mem_cons_self
      · rcases ih h with a | a
        · left; exact List.mem_cons_of_mem _ a
        · right; exact a

theorem owners_cancelWaiterL (m : Nat) (ws : List Waiter) : owners (cancelWaiterL m ws) = owners ws := by
  induction ws with
  | nil => rfl
  | cons w ws ih =>
    simp only [cancelWaiterL, List.map_cons, owners_cons] at ih ⊢
    rw [ih]
    split <;> rfl

theorem mem_cancelWaiterL (m : Nat) (ws : List Waiter) (w' : Waiter) (h : w' ∈ cancelWaiterL m ws) :
    w' ∈ ws ∨ w'.owner = m := by
  simp only [cancelWaiterL, List.mem_map] at h
  obtain ⟨w, hw, rfl⟩ := h
  split
  · rename_i hc; right; exact hc.1
  · left; exact hw

theorem removeWaiterL_sublist (m : Nat) (ws : List Waiter) : (removeWaiterL m ws).2.Sublist ws := by
  induction ws with
  | nil => exact List.Sublist.refl _
  | cons w ws ih =>
    unfold removeWaiterL
    split
    · exact List.sublist_cons_self _ _
    · exact List.Sublist.cons_cons _ ih

theorem owners_sublist {a b : List Waiter} (h : a.Sublist b) : (owners a).Sublist (owners b) :=
  List.Sublist.map _ h

theorem removeWaiterL_not_mem (m : Nat) (ws : List Waiter) (hn : (owners ws).Nodup) :
    m ∉ owners (removeWaiterL m ws).2 := by
  induction ws with
  | nil => simp [removeWaiterL, owners]
  | cons w ws ih =>
    rw [owners_cons, List.nodup_cons] at hn
    unfold removeWaiterL
    split
    · rename_i he; rw [← he]; exact hn.1
    · rename_i hne
      simp only [owners_cons, List.mem_cons, not_or]
      exact ⟨fun e => hne e.symm, ih hn.2⟩

theorem removeWaiterL_mem_other (m x : Nat) (ws : List Waiter) (h : x ∈ owners ws) (hne : x ≠ m) :
    x ∈ owners (removeWaiterL m ws).2 := by
  induction ws with
  | nil => simp [owners] at h
  | cons w ws ih =>
    rw [owners_cons, List.mem_cons] at h
    unfold removeWaiterL
    split
    · rename_i he
      rcases h with rfl | h
      · exact absurd he hne
      · exact h
    · simp only [owners_cons, List.mem_cons]
      rcases h with rfl | h
      · left; rfl
      · right; exact ih h

/-- with one entry per owner, the state `removeWaiterL` reports is that of the owner's entry -/
theorem removeWaiterL_fst_of_mem (ws : List Waiter) (hn : (owners ws).Nodup) (w : Waiter) (hw : w ∈ ws) :
    (removeWaiterL w.owner ws).1 = some w.st := by
  induction ws with
  | nil => cases hw
  | cons w0 ws ih =>
    rw [owners_cons, List.nodup_cons] at hn
    unfold removeWaiterL
    rcases List.mem_cons.mp hw with rfl | hw'
    · simp
    · have hne : w0.owner ≠ w.owner := fun e => hn.1 (e ▸ mem_owners.mpr ⟨w, hw', rfl⟩)
      rw [if_neg hne]
      exact ih hn.2 hw'

namespace Pool

/-! ### the walking predicate -/

/-- `WantOK`, and the spawner whose handle is being run exists and its asyncio Task is not done -/
structure WK (E : Ref → Prop) (p : Pool) : Prop extends WantOK E p where
  alive : ∀ m, E (.spawner m) → ∃ r, p.reqs[m]? = some r ∧ r.outcome = none

theorem Want.wk {p : Pool} (h : Want p) : WK (fun _ => False) p := { h with alive := fun _ f => f.elim }

/-- what `WantOK` says about one task record -/
def TG (k : PTask) : Prop :=
  (k.quiet = false → k.sched = true) ∧ k.phase ≠ .wrapUp ∧ (k.phase = .finished → k.outcome.isSome = true)

theorem WK.tg {E : Ref → Prop} {p : Pool} (h : WK E p) (t : Nat) (k : PTask) (hk : p.tasks[t]? = some k)
    (hE : ¬ E (.task t)) : TG k :=
  ⟨h.tq t k hk hE, h.tw t k hk hE⟩

/-- nothing the invariant reads has changed -/
theorem wk_of_eq {E : Ref → Prop} {p q : Pool} (h : WK E p) (ht : q.tasks = p.tasks) (hr : q.reqs = p.reqs)
    (hs : q.sem.waiters = p.sem.waiters) : WK E q := by
  refine { tq := ?_, tw := ?_, rs := ?_, pn := ?_, pw := ?_, pe := ?_, mn := ?_, mw := ?_, me := ?_, od := ?_, ce := ?_,
           alive := ?_ }
  · rw [ht]; exact h.tq
  · rw [ht]; exact h.tw
  · rw [hr]; exact h.rs
  · rw [hs]; exact h.pn
  · rw [hr, hs]; exact h.pw
  · rw [hr, hs]; exact h.pe
  · rw [hr]; exact h.mn
  · rw [hr]; exact h.mw
  · rw [hr]; exact h.me
  · rw [hr]; exact h.od
  · rw [hr, hs]; exact h.ce
  · rw [hr]; exact h.alive

/-- the tasks change; every task that is not exempt satisfies its clauses afterwards -/
theorem wk_tasks {E : Ref → Prop} {p : Pool} (h : WK E p) (q : Pool) (hr : q.reqs = p.reqs)
    (hs : q.sem.waiters = p.sem.waiters)
    (ht : ∀ i k', q.tasks[i]? = some k' → ¬ E (.task i) → (∀ k, p.tasks[i]? = some k → TG k) → TG k') : WK E q := by
  have hg : ∀ i k', q.tasks[i]? = some k' → ¬ E (.task i) → TG k' := fun i k' hq hE =>
    ht i k' hq hE (fun k hk => h.tg i k hk hE)
  refine { tq := ?_, tw := ?_, rs := ?_, pn := ?_, pw := ?_, pe := ?_, mn := ?_, mw := ?_, me := ?_, od := ?_, ce := ?_,
           alive := ?_ }
  · exact fun i k' hq hE => (hg i k' hq hE).1
  · exact fun i k' hq hE => (hg i k' hq hE).2
  · rw [hr]; exact h.rs
  · rw [hs]; exact h.pn
  · rw [hr, hs]; exact h.pw
  · rw [hr, hs]; exact h.pe
  · rw [hr]; exact h.mn
  · rw [hr]; exact h.mw
  · rw [hr]; exact h.me
  · rw [hr]; exact h.od
  · rw [hr, hs]; exact h.ce
  · rw [hr]; exact h.alive

theorem getElem?_some_of_length_eq {α β} {l : List α} {l' : List β} (hl : l'.length = l.length) {i : Nat} {x : α}
    (h : l[i]? = some x) : ∃ y, l'[i]? = some y := by
  have hi : i < l.length := (List.getElem?_eq_some_iff.mp h).1
  exact ⟨l'[i]'(by omega), List.getElem?_eq_getElem (by omega)⟩

/-- the requests and the waiter queues change, entry by entry: owners, frames and outcomes stay; the scheduling
obligations hold afterwards -/
theorem wk_reqs {E : Ref → Prop} {p : Pool} (h : WK E p) (q : Pool) (ht : q.tasks = p.tasks)
    (hown : owners q.sem.waiters = owners p.sem.waiters)
    (hlen : q.reqs.length = p.reqs.length)
    (hr : ∀ i r r', p.reqs[i]? = some r → q.reqs[i]? = some r' →
        owners r'.mapSem.waiters = owners r.mapSem.waiters ∧ r'.outcome = r.outcome ∧
        (¬ E (.spawner i) → r'.frame = r.frame ∧ (r.outcome = none → r.frame = .notStarted → r'.sched = true) ∧
          (∀ w' ∈ r'.mapSem.waiters, w'.st ≠ .pending → r'.sched = true)))
    (hpw : ∀ w' ∈ q.sem.waiters, ¬ E (.spawner w'.owner) → w'.st ≠ .pending →
        ∀ r', q.reqs[w'.owner]? = some r' → r'.sched = true) : WK E q := by
  have hex1 : ∀ i r', q.reqs[i]? = some r' → ∃ r, p.reqs[i]? = some r := fun i r' hq =>
    getElem?_some_of_length_eq hlen.symm hq
  have hex2 : ∀ i r, p.reqs[i]? = some r → ∃ r', q.reqs[i]? = some r' := fun i r hp =>
    getElem?_some_of_length_eq hlen hp
  refine { tq := ?_, tw := ?_, rs := ?_, pn := ?_, pw := ?_, pe := ?_, mn := ?_, mw := ?_, me := ?_, od := ?_, ce := ?_,
           alive := ?_ }
  · rw [ht]; exact h.tq
  · rw [ht]; exact h.tw
  · intro i r' hq hE hout
    obtain ⟨r, hp⟩ := hex1 i r' hq
    obtain ⟨_, ho, hx⟩ := hr i r r' hp hq
    obtain ⟨hf, hs, _⟩ := hx hE
    have hout' : r.outcome = none := ho ▸ hout
    obtain ⟨a, b, c⟩ := h.rs i r hp hE hout'
    rw [hf]
    exact ⟨fun e => hs hout' e, b, c⟩
  · rw [hown]; exact h.pn
  · intro w' hw'
    have hm : w'.owner ∈ owners p.sem.waiters := hown ▸ mem_owners.mpr ⟨w', hw', rfl⟩
    obtain ⟨w, hw, hwo⟩ := mem_owners.mp hm
    obtain ⟨r, hp, hc⟩ := h.pw w hw
    rw [hwo] at hp hc
    obtain ⟨r', hq⟩ := hex2 _ r hp
    refine ⟨r', hq, fun hE => ?_⟩
    obtain ⟨_, ho, hx⟩ := hr _ r r' hp hq
    obtain ⟨hf, _, _⟩ := hx hE
    obtain ⟨c1, c2, _⟩ := hc hE
    exact ⟨hf ▸ c1, ho ▸ c2, fun hne => hpw w' hw' hE hne r' hq⟩
  · intro i r' hq hE hout hfr
    obtain ⟨r, hp⟩ := hex1 i r' hq
    obtain ⟨_, ho, hx⟩ := hr i r r' hp hq
    obtain ⟨hf, _, _⟩ := hx hE
    rw [hown]
    exact h.pe i r hp hE (ho ▸ hout) (hf ▸ hfr)
  · intro i r' hq
    obtain ⟨r, hp⟩ := hex1 i r' hq
    obtain ⟨ho, _, _⟩ := hr i r r' hp hq
    have := h.mn i r hp
    rw [← owners_length, ho, owners_length]
    exact this
  · intro i r' hq w' hw'
    obtain ⟨r, hp⟩ := hex1 i r' hq
    obtain ⟨hown', ho, hx⟩ := hr i r r' hp hq
    have hm : w'.owner ∈ owners r.mapSem.waiters := hown' ▸ mem_owners.mpr ⟨w', hw', rfl⟩
    obtain ⟨w, hw, hwo⟩ := mem_owners.mp hm
    obtain ⟨c0, hc⟩ := h.mw i r hp w hw
    refine ⟨hwo ▸ c0, fun hE => ?_⟩
    obtain ⟨hf, _, hs⟩ := hx hE
    obtain ⟨c1, c2, _⟩ := hc hE
    exact ⟨hf ▸ c1, ho ▸ c2, fun hne => hs w' hw' hne⟩
  · intro i r' hq hE hout hfr
    obtain ⟨r, hp⟩ := hex1 i r' hq
    obtain ⟨hown', ho, hx⟩ := hr i r r' hp hq
    obtain ⟨hf, _, _⟩ := hx hE
    intro hnil
    refine h.me i r hp hE (ho ▸ hout) (hf ▸ hfr) (owners_eq_nil ?_)
    rw [← hown', hnil]; rfl
  · intro i r' hq hE hout
    obtain ⟨r, hp⟩ := hex1 i r' hq
    obtain ⟨_, ho, hx⟩ := hr i r r' hp hq
    obtain ⟨hf, _, _⟩ := hx hE
    rw [hf]
    exact h.od i r hp hE (ho ▸ hout)
  · intro i hE
    obtain ⟨c1, c2⟩ := h.ce i hE
    refine ⟨hown ▸ c1, fun r' hq => ?_⟩
    obtain ⟨r, hp⟩ := hex1 i r' hq
    obtain ⟨hown', _, _⟩ := hr i r r' hp hq
    refine owners_eq_nil ?_
    rw [hown', c2 r hp]; rfl
  · intro i hE
    obtain ⟨r, hp, hout⟩ := h.alive i hE
    obtain ⟨r', hq⟩ := hex2 i r hp
    obtain ⟨_, ho, _⟩ := hr i r r' hp hq
    exact ⟨r', hq, ho ▸ hout⟩

/-! ### one record changes -/

theorem modify_some {α} {l : List α} {t i : Nat} {f : α → α} {x y : α} (hx : l[i]? = some x)
    (h : (l.modify t f)[i]? = some y) : y = if t = i then f x else x := by
  rw [List.getElem?_modify, hx] at h
  simp at h
  exact h.symm

theorem append_some {α} {l : List α} {a x : α} {i : Nat} (h : (l ++ [a])[i]? = some x) :
    l[i]? = some x ∨ (i = l.length ∧ x = a) := by
  by_cases c : i < l.length
  · rw [List.getElem?_append_left c] at h; exact Or.inl h
  · rw [List.getElem?_append_right (Nat.le_of_not_lt c)] at h
    cases hi : i - l.length with
    | zero => rw [hi] at h; simp at h; exact Or.inr ⟨by omega, h.symm⟩
    | succ n => rw [hi] at h; simp at h

theorem lt_of_getElem?_some {α} {l : List α} {i : Nat} {x : α} (h : l[i]? = some x) : i < l.length :=
  (List.getElem?_eq_some_iff.mp h).1

theorem wk_modTask {E : Ref → Prop} {p : Pool} (h : WK E p) (t : Nat) (f : PTask → PTask)
    (hf : ∀ k, p.tasks[t]? = some k → ¬ E (.task t) → TG k → TG (f k)) : WK E (p.modTask t f) := by
  refine wk_tasks h _ rfl rfl ?_
  intro i k' hq hE hg
  obtain ⟨k, hk⟩ := getElem?_some_of_length_eq (l := (p.modTask t f).tasks) (l' := p.tasks) (by simp [modTask]) hq
  have e := modify_some hk hq
  by_cases c : t = i
  · subst c; rw [e, if_pos rfl]; exact hf k hk hE (hg k hk)
  · rw [e, if_neg c]; exact hg k hk

/-- the task whose handle is being run may change in any way -/
theorem wk_modTask_ex {E : Ref → Prop} {p : Pool} (h : WK E p) (t : Nat) (f : PTask → PTask) (hE : E (.task t)) :
    WK E (p.modTask t f) :=
  wk_modTask h t f (fun _ _ hn => absurd hE hn)

theorem WK.req_ok {E : Ref → Prop} {p : Pool} (h : WK E p) {i : Nat} {r : Req} (hp : p.reqs[i]? = some r)
    (hE : ¬ E (.spawner i)) :
    (r.outcome = none → r.frame = .notStarted → r.sched = true) ∧
      (∀ w ∈ r.mapSem.waiters, w.st ≠ .pending → r.sched = true) :=
  ⟨fun ho hf => (h.rs i r hp hE ho).1 hf, fun w hw hne => ((h.mw i r hp w hw).2 hE).2.2 hne⟩

theorem wk_modReq_gen {E : Ref → Prop} {p : Pool} (h : WK E p) (m : Nat) (f : Req → Req)
    (hf : ∀ r, p.reqs[m]? = some r → owners (f r).mapSem.waiters = owners r.mapSem.waiters ∧ (f r).outcome = r.outcome ∧
      (¬ E (.spawner m) → (f r).frame = r.frame ∧ (r.outcome = none → r.sched = true → (f r).sched = true) ∧
        (∀ w' ∈ (f r).mapSem.waiters, w'.st ≠ .pending → (f r).sched = true ∨ w' ∈ r.mapSem.waiters))) :
    WK E (p.modReq m f) := by
  refine wk_reqs h _ rfl rfl (by simp [modReq]) ?_ ?_
  · intro i r r' hp hq
    have e := modify_some hp hq
    by_cases c : m = i
    · subst c; rw [if_pos rfl] at e; subst e
      obtain ⟨a, b, d⟩ := hf r hp
      refine ⟨a, b, fun hE => ?_⟩
      obtain ⟨d1, d2, d3⟩ := d hE
      obtain ⟨o1, o2⟩ := h.req_ok hp hE
      refine ⟨d1, fun ho hfr => d2 ho (o1 ho hfr), fun w' hw' hne => ?_⟩
      rcases d3 w' hw' hne with x | x
      · exact x
      · have := (h.mw m r hp w' x).2 hE
        exact d2 this.2.1 (this.2.2 hne)
    · rw [if_neg c] at e; subst e
      exact ⟨rfl, rfl, fun hE => ⟨rfl, (h.req_ok hp hE).1, (h.req_ok hp hE).2⟩⟩
  · intro w' hw' hE hne r' hq
    obtain ⟨r, hp, hc⟩ := h.pw w' hw'
    have e := modify_some hp hq
    obtain ⟨_, c2, c3⟩ := hc hE
    by_cases c : m = w'.owner
    · rw [if_pos c] at e; subst e
      subst c
      exact ((hf r hp).2.2 hE).2.1 c2 (c3 hne)
    · rw [if_neg c] at e; subst e; exact c3 hne

/-- a change to one request that keeps frame, outcome, its own waiter queue, and does not clear the flag of a live spawner -/
theorem wk_modReq {E : Ref → Prop} {p : Pool} (h : WK E p) (m : Nat) (f : Req → Req)
    (hf : ∀ r, p.reqs[m]? = some r → (f r).frame = r.frame ∧ (f r).outcome = r.outcome ∧
      (f r).mapSem.waiters = r.mapSem.waiters ∧ (r.outcome = none → r.sched = true → (f r).sched = true)) :
    WK E (p.modReq m f) := by
  refine wk_modReq_gen h m f (fun r hp => ?_)
  obtain ⟨a, b, c, d⟩ := hf r hp
  exact ⟨by rw [c], b, fun _ => ⟨a, d, fun w' hw' _ => Or.inr (c ▸ hw')⟩⟩

/-- the spawner whose handle is being run may change in any way that keeps its (empty) waiter queue and its outcome -/
theorem wk_modReq_ex {E : Ref → Prop} {p : Pool} (h : WK E p) (m : Nat) (f : Req → Req) (hE : E (.spawner m))
    (hf : ∀ r, (f r).mapSem.waiters = r.mapSem.waiters ∧ (f r).outcome = r.outcome) : WK E (p.modReq m f) := by
  refine wk_modReq_gen h m f (fun r _ => ?_)
  exact ⟨by rw [(hf r).1], (hf r).2, fun hn => absurd hE hn⟩

/-- every request rewritten by a function that keeps frame, outcome, flag and waiter queue -/
theorem wk_mapReqs {E : Ref → Prop} {p q : Pool} (h : WK E p) (f : Req → Req) (ht : q.tasks = p.tasks)
    (hs : q.sem.waiters = p.sem.waiters) (hr : q.reqs = p.reqs.map f)
    (hf : ∀ r, (f r).frame = r.frame ∧ (f r).outcome = r.outcome ∧ (f r).mapSem.waiters = r.mapSem.waiters ∧
      (f r).sched = r.sched) : WK E q := by
  refine wk_reqs h q ht (by rw [hs]) (by simp [hr]) ?_ ?_
  · intro i r r' hp hq
    rw [hr, List.getElem?_map, hp] at hq
    simp at hq; subst hq
    obtain ⟨a, b, c, d⟩ := hf r
    refine ⟨by rw [c], b, fun hE => ⟨a, ?_, ?_⟩⟩
    · rw [d]; exact (h.req_ok hp hE).1
    · rw [d, c]; exact (h.req_ok hp hE).2
  · intro w' hw' hE hne r' hq
    rw [hs] at hw'
    obtain ⟨r, hp, hc⟩ := h.pw w' hw'
    rw [hr, List.getElem?_map, hp] at hq
    simp at hq; subst hq
    rw [(hf r).2.2.2]
    exact (hc hE).2.2 hne

/-- a new request: not started, flagged, nobody waits on its semaphore -/
theorem wk_appendReq {E : Ref → Prop} {p q : Pool} (h : WK E p) (r0 : Req) (ht : q.tasks = p.tasks)
    (hs : q.sem.waiters = p.sem.waiters) (hr : q.reqs = p.reqs ++ [r0]) (h1 : r0.frame = .notStarted)
    (h2 : r0.sched = true) (h3 : r0.mapSem.waiters = []) (h4 : r0.outcome = none) : WK E q := by
  have hold : ∀ i r, p.reqs[i]? = some r → q.reqs[i]? = some r := fun i r hp => by
    rw [hr, List.getElem?_append_left (lt_of_getElem?_some hp)]; exact hp
  refine { tq := ?_, tw := ?_, rs := ?_, pn := ?_, pw := ?_, pe := ?_, mn := ?_, mw := ?_, me := ?_, od := ?_, ce := ?_,
           alive := ?_ }
  · rw [ht]; exact h.tq
  · rw [ht]; exact h.tw
  · intro i r hq hE ho
    rw [hr] at hq
    rcases append_some hq with hp | ⟨_, rfl⟩
    · exact h.rs i r hp hE ho
    · rw [h1]; exact ⟨fun _ => h2, by simp, by simp⟩
  · rw [hs]; exact h.pn
  · intro w hw
    rw [hs] at hw
    obtain ⟨r, hp, hc⟩ := h.pw w hw
    exact ⟨r, hold _ r hp, hc⟩
  · intro i r hq hE ho hf
    rw [hr] at hq
    rw [hs]
    rcases append_some hq with hp | ⟨_, rfl⟩
    · exact h.pe i r hp hE ho hf
    · rw [h1] at hf; cases hf
  · intro i r hq
    rw [hr] at hq
    rcases append_some hq with hp | ⟨_, rfl⟩
    · exact h.mn i r hp
    · rw [h3]; simp
  · intro i r hq w hw
    rw [hr] at hq
    rcases append_some hq with hp | ⟨_, rfl⟩
    · exact h.mw i r hp w hw
    · rw [h3] at hw; cases hw
  · intro i r hq hE ho hf
    rw [hr] at hq
    rcases append_some hq with hp | ⟨_, rfl⟩
    · exact h.me i r hp hE ho hf
    · rw [h1] at hf; cases hf
  · intro i r hq hE ho
    rw [hr] at hq
    rcases append_some hq with hp | ⟨_, rfl⟩
    · exact h.od i r hp hE ho
    · rw [h4] at ho; cases ho
  · intro i hE
    obtain ⟨c1, c2⟩ := h.ce i hE
    refine ⟨hs ▸ c1, fun r hq => ?_⟩
    rw [hr] at hq
    rcases append_some hq with hp | ⟨_, rfl⟩
    · exact c2 r hp
    · exact h3
  · intro i hE
    obtain ⟨r, hp, ho⟩ := h.alive i hE
    exact ⟨r, hold i r hp, ho⟩

/-! ### entering and leaving the exempt mode -/

/-- more entities exempt; a newly exempt spawner has no waiter entry and is alive -/
theorem wk_weaken {E E' : Ref → Prop} {p : Pool} (h : WK E p) (hEE : ∀ x, E x → E' x)
    (hce : ∀ m, E' (.spawner m) → (m ∉ owners p.sem.waiters ∧ ∀ (r : Req), p.reqs[m]? = some r → r.mapSem.waiters = []) ∧
      ∃ r, p.reqs[m]? = some r ∧ r.outcome = none) : WK E' p := by
  have hn : ∀ x, ¬ E' x → ¬ E x := fun x a b => a (hEE x b)
  refine { tq := ?_, tw := ?_, rs := ?_, pn := h.pn, pw := ?_, pe := ?_, mn := h.mn, mw := ?_, me := ?_, od := ?_, ce := ?_,
           alive := ?_ }
  · exact fun t k hk hE => h.tq t k hk (hn _ hE)
  · exact fun t k hk hE => h.tw t k hk (hn _ hE)
  · exact fun m r hp hE => h.rs m r hp (hn _ hE)
  · intro w hw
    obtain ⟨r, hp, hc⟩ := h.pw w hw
    exact ⟨r, hp, fun hE => hc (hn _ hE)⟩
  · exact fun m r hp hE => h.pe m r hp (hn _ hE)
  · intro m r hp w hw
    obtain ⟨a, b⟩ := h.mw m r hp w hw
    exact ⟨a, fun hE => b (hn _ hE)⟩
  · exact fun m r hp hE => h.me m r hp (hn _ hE)
  · exact fun m r hp hE => h.od m r hp (hn _ hE)
  · exact fun m hE => (hce m hE).1
  · exact fun m hE => (hce m hE).2

theorem wk_enter_task {p : Pool} (h : WK (fun _ => False) p) (t : Nat) : WK (fun x => x = Ref.task t) p :=
  wk_weaken h (fun _ f => f.elim) (fun m hm => by cases hm)

theorem wk_enter_spawner {p : Pool} (h : WK (fun _ => False) p) (m : Nat) (r : Req) (hp : p.reqs[m]? = some r)
    (hn : m ∉ owners p.sem.waiters) (hw : r.mapSem.waiters = []) (ho : r.outcome = none) :
    WK (fun x => x = Ref.spawner m) p := by
  refine wk_weaken h (fun _ f => f.elim) (fun i hi => ?_)
  cases hi
  exact ⟨⟨hn, fun r' hp' => by rw [hp] at hp'; cases hp'; exact hw⟩, r, hp, ho⟩

/-- the task whose handle was run satisfies its clauses again -/
theorem wk_close_task {p : Pool} {t : Nat} (h : WK (fun x => x = Ref.task t) p)
    (hk : ∀ k, p.tasks[t]? = some k → TG k) : Want p := by
  have hg : ∀ i k, p.tasks[i]? = some k → TG k := fun i k hik => by
    by_cases c : i = t
    · subst c; exact hk k hik
    · exact h.tg i k hik (by simpa using c)
  refine { tq := ?_, tw := ?_, rs := ?_, pn := h.pn, pw := ?_, pe := ?_, mn := h.mn, mw := ?_, me := ?_, od := ?_, ce := ?_ }
  · exact fun i k hik _ => (hg i k hik).1
  · exact fun i k hik _ => (hg i k hik).2
  · exact fun m r hp _ => h.rs m r hp (by simp)
  · intro w hw
    obtain ⟨r, hp, hc⟩ := h.pw w hw
    exact ⟨r, hp, fun _ => hc (by simp)⟩
  · exact fun m r hp _ => h.pe m r hp (by simp)
  · intro m r hp w hw
    obtain ⟨a, b⟩ := h.mw m r hp w hw
    exact ⟨a, fun _ => b (by simp)⟩
  · exact fun m r hp _ => h.me m r hp (by simp)
  · exact fun m r hp _ => h.od m r hp (by simp)
  · exact fun _ f => f.elim

/-! ### plumbing -/

variable {E : Ref → Prop}

theorem wk_emitRef {p : Pool} (h : WK E p) (r : Ref) : WK E (p.emitRef r) := wk_of_eq h rfl rfl rfl
theorem wk_logEv {p : Pool} (h : WK E p) (e : Ev) : WK E (p.logEv e) := wk_of_eq h rfl rfl rfl
theorem wk_modApi {p : Pool} (h : WK E p) (a : Nat) (f : Api → Api) : WK E (p.modApi a f) := wk_of_eq h rfl rfl rfl
theorem wk_modGather {p : Pool} (h : WK E p) (g : Nat) (f : Gather → Gather) : WK E (p.modGather g f) :=
  wk_of_eq h rfl rfl rfl
theorem wk_schedApi {p : Pool} (h : WK E p) (a : Nat) : WK E (p.schedApi a) := wk_of_eq h rfl rfl rfl

theorem wk_foldl {α} (f : Pool → α → Pool) (hf : ∀ p a, WK E p → WK E (f p a)) (l : List α) (p : Pool) (h : WK E p) :
    WK E (l.foldl f p) := by
  induction l generalizing p with
  | nil => exact h
  | cons a as ih => exact ih _ (hf p a h)

theorem wk_emitChildren {p : Pool} (h : WK E p) (cbs : List (Nat × Nat)) : WK E (p.emitChildren cbs) := by
  unfold emitChildren
  exact wk_foldl _ (fun q gi hq => wk_emitRef hq _) _ _ h

theorem wk_schedTask {p : Pool} (h : WK E p) (t : Nat) : WK E (p.schedTask t) := by
  unfold schedTask
  refine wk_emitRef (wk_modTask h t _ ?_) _
  exact fun k _ _ g => ⟨fun _ => rfl, g.2⟩

theorem wk_schedMeta {p : Pool} (h : WK E p) (m : Nat) : WK E (p.schedMeta m) := by
  unfold schedMeta
  refine wk_emitRef (wk_modReq h m _ ?_) _
  exact fun r _ => ⟨rfl, rfl, rfl, fun _ _ => rfl⟩

theorem wk_schedOpt {p : Pool} (h : WK E p) (o : Option Nat) : WK E (p.schedOpt o) := by
  cases o with
  | none => exact h
  | some m => exact wk_schedMeta h m

theorem modTask_schedTask (p : Pool) (t : Nat) (f : PTask → PTask) :
    (p.modTask t f).schedTask t = (p.modTask t (fun x => { f x with sched := true })).emitRef (.task t) := by
  simp only [schedTask, modTask, List.modify_modify_eq]; rfl

theorem modReq_schedMeta (p : Pool) (m : Nat) (f : Req → Req) :
    (p.modReq m f).schedMeta m = (p.modReq m (fun x => { f x with sched := true })).emitRef (.spawner m) := by
  simp only [schedMeta, modReq, List.modify_modify_eq]; rfl

theorem WK.pw_ok {p : Pool} (h : WK E p) {w : Waiter} (hw : w ∈ p.sem.waiters) (hE : ¬ E (.spawner w.owner))
    (hne : w.st ≠ .pending) {r : Req} (hp : p.reqs[w.owner]? = some r) : r.sched = true := by
  obtain ⟨r0, hp0, hc⟩ := h.pw w hw
  rw [hp] at hp0; cases hp0
  exact (hc hE).2.2 hne

/-- the pool's waiter queue changes entry by entry (same owners); an entry that is new belongs to `m`, whose flag is set -/
theorem wk_sem_modReq {p : Pool} (h : WK E p) (s : Sem) (m : Nat) (f : Req → Req)
    (hown : owners s.waiters = owners p.sem.waiters)
    (hm : ∀ w' ∈ s.waiters, w' ∈ p.sem.waiters ∨ w'.owner = m)
    (hf : ∀ r, (f r).frame = r.frame ∧ (f r).outcome = r.outcome ∧ (f r).mapSem.waiters = r.mapSem.waiters ∧
      (f r).sched = true) : WK E (({ p with sem := s } : Pool).modReq m f) := by
  refine wk_reqs h _ rfl hown (by simp [modReq]) ?_ ?_
  · intro i r r' hp hq
    have e := modify_some hp hq
    by_cases c : m = i
    · rw [if_pos c] at e; subst e
      obtain ⟨a, b, d, g⟩ := hf r
      exact ⟨by rw [d], b, fun _ => ⟨a, fun _ _ => g, fun _ _ _ => g⟩⟩
    · rw [if_neg c] at e; subst e
      exact ⟨rfl, rfl, fun hE => ⟨rfl, (h.req_ok hp hE).1, (h.req_ok hp hE).2⟩⟩
  · intro w' hw' hE hne r' hq
    obtain ⟨r, hp⟩ := getElem?_some_of_length_eq (l' := p.reqs) (by simp [modReq]) hq
    have e := modify_some hp hq
    by_cases c : m = w'.owner
    · rw [if_pos c] at e; subst e; exact (hf r).2.2.2
    · rw [if_neg c] at e; subst e
      rcases hm w' hw' with a | a
      · exact h.pw_ok a hE hne hp
      · exact absurd a.symm c

/-- `_wake_up_next` on the pool's semaphore, followed by the wake-up of the waiter that got the slot -/
theorem wk_sem_sched {p : Pool} (h : WK E p) (s : Sem) (o : Option Nat)
    (hown : owners s.waiters = owners p.sem.waiters)
    (hm : ∀ w' ∈ s.waiters, w' ∈ p.sem.waiters ∨ o = some w'.owner) :
    WK E (({ p with sem := s } : Pool).schedOpt o) := by
  cases o with
  | none =>
    refine wk_reqs h _ rfl hown rfl ?_ ?_
    · intro i r r' hp hq
      have hq' : p.reqs[i]? = some r' := hq
      rw [hp] at hq'; cases hq'
      exact ⟨rfl, rfl, fun hE => ⟨rfl, (h.req_ok hp hE).1, (h.req_ok hp hE).2⟩⟩
    · intro w' hw' hE hne r' hq
      rcases hm w' hw' with a | a
      · exact h.pw_ok a hE hne hq
      · cases a
  | some m =>
    refine wk_emitRef (wk_sem_modReq h s m _ hown (fun w' hw' => ?_) ?_) _
    case refine_2 => exact fun r => ⟨rfl, rfl, rfl, rfl⟩
    rcases hm w' hw' with a | a
    · exact Or.inl a
    · right; cases a; rfl

theorem wakeNext_waiters (s : Sem) : s.wakeNext.1.waiters = (wakeNextL s.value s.waiters).2.1 := rfl
theorem wakeNext_snd (s : Sem) : s.wakeNext.2 = (wakeNextL s.value s.waiters).2.2 := rfl

theorem wk_wake {p : Pool} (h : WK E p) (s : Sem) (hs : s.waiters = p.sem.waiters) :
    WK E (({ p with sem := s.wakeNext.1 } : Pool).schedOpt s.wakeNext.2) := by
  refine wk_sem_sched h _ _ ?_ ?_
  · rw [wakeNext_waiters, owners_wakeNextL, hs]
  · intro w' hw'
    rw [wakeNext_waiters] at hw'
    rw [wakeNext_snd, ← hs]
    exact mem_wakeNextL _ _ _ hw'

theorem wk_releasePool {p : Pool} (h : WK E p) : WK E p.releasePool := by
  unfold releasePool Sem.release
  exact wk_wake h _ rfl

/-- `_wake_up_next` on a call's own semaphore, followed by the wake-up of the waiter that got the slot -/
theorem wk_mapWake {p : Pool} (h : WK E p) (m : Nat) (r : Req) (hp : p.reqs[m]? = some r) (s : Sem) (o : Option Nat)
    (hown : owners s.waiters = owners r.mapSem.waiters)
    (hm : ∀ w' ∈ s.waiters, w' ∈ r.mapSem.waiters ∨ o = some w'.owner) :
    WK E ((p.modReq m fun x => { x with mapSem := s }).schedOpt o) := by
  cases o with
  | none =>
    refine wk_modReq_gen h m _ (fun r0 hp0 => ?_)
    rw [hp] at hp0; cases hp0
    refine ⟨hown, rfl, fun _ => ⟨rfl, fun _ a => a, fun w' hw' _ => ?_⟩⟩
    rcases hm w' hw' with a | a
    · exact Or.inr a
    · cases a
  | some o =>
    refine wk_emitRef (p := (p.modReq m fun x => { x with mapSem := s }).modReq o fun x => { x with sched := true }) ?_ _
    refine wk_reqs h _ rfl rfl (by simp [modReq]) ?_ ?_
    · intro i r1 r' hp1 hq
      simp only [modReq, List.getElem?_modify, hp1] at hq
      simp at hq
      by_cases c : m = i
      · subst c
        rw [hp] at hp1; cases hp1
        simp only [if_true] at hq
        have hfr : r'.frame = r.frame := by subst hq; split <;> rfl
        have hou : r'.outcome = r.outcome := by subst hq; split <;> rfl
        have hms : r'.mapSem = s := by subst hq; split <;> rfl
        have hsc : r.sched = true → r'.sched = true := by subst hq; split <;> simp
        refine ⟨by rw [hms]; exact hown, hou, fun hE => ⟨hfr, fun a b => hsc ((h.req_ok hp hE).1 a b), ?_⟩⟩
        intro w' hw' hne
        rw [hms] at hw'
        rcases hm w' hw' with a | a
        · exact hsc ((h.req_ok hp hE).2 w' a hne)
        · have hmo : w'.owner ∈ owners r.mapSem.waiters := hown ▸ mem_owners.mpr ⟨w', hw', rfl⟩
          obtain ⟨w, hw, hwo⟩ := mem_owners.mp hmo
          have : w.owner = m := (h.mw m r hp w hw).1
          have ho : o = m := by cases a; rw [← hwo, this]
          subst hq; rw [if_pos ho]
      · simp only [if_neg c] at hq
        have hfr : r'.frame = r1.frame := by subst hq; split <;> rfl
        have hou : r'.outcome = r1.outcome := by subst hq; split <;> rfl
        have hms : r'.mapSem = r1.mapSem := by subst hq; split <;> rfl
        have hsc : r1.sched = true → r'.sched = true := by subst hq; split <;> simp
        refine ⟨by rw [hms], hou, fun hE => ⟨hfr, fun a b => hsc ((h.req_ok hp1 hE).1 a b), ?_⟩⟩
        intro w' hw' hne
        rw [hms] at hw'
        exact hsc ((h.req_ok hp1 hE).2 w' hw' hne)
    · intro w' hw' hE hne r' hq
      obtain ⟨r1, hp1, hc⟩ := h.pw w' hw'
      have hs1 := (hc hE).2.2 hne
      simp only [modReq, List.getElem?_modify, hp1] at hq
      simp at hq
      subst hq
      split <;> split <;> simp [hs1]

theorem wk_releaseMap {p : Pool} (h : WK E p) (m : Nat) : WK E (p.releaseMap m) := by
  unfold releaseMap
  split
  · exact h
  · rename_i r hp
    unfold Sem.release
    refine wk_mapWake h m r hp _ _ ?_ ?_
    · rw [wakeNext_waiters, owners_wakeNextL]
    · intro w' hw'
      rw [wakeNext_waiters] at hw'
      rw [wakeNext_snd]
      exact mem_wakeNextL _ _ _ hw'

/-! ### asyncio `Task.cancel()` -/

theorem wk_taskCancel {p : Pool} (h : WK E p) (t : Nat) : WK E (p.taskCancel t) := by
  unfold taskCancel
  split
  · exact h
  · split
    · exact h
    · split
      · rw [modTask_schedTask]
        refine wk_emitRef (wk_modTask h t _ ?_) _
        exact fun k _ _ g => ⟨fun _ => rfl, g.2⟩
      · refine wk_modTask h t _ ?_
        exact fun k _ _ g => g

theorem wk_cancelTask {p : Pool} (h : WK E p) (t : Nat) : WK E (p.cancelTask t) := by
  unfold cancelTask
  split
  · exact h
  · split
    · refine wk_modTask h t _ ?_
      exact fun k _ _ g => g
    · exact wk_taskCancel h t

theorem wk_snapReq_frame (x : Req) : (snapReq x).frame = x.frame := by unfold snapReq; split <;> rfl
theorem wk_snapReq_outcome (x : Req) : (snapReq x).outcome = x.outcome := by unfold snapReq; split <;> rfl
theorem wk_snapReq_mapSem (x : Req) : (snapReq x).mapSem = x.mapSem := by unfold snapReq; split <;> rfl
theorem wk_snapReq_sched (x : Req) : (snapReq x).sched = x.sched := by unfold snapReq; split <;> rfl

theorem wk_metaCancel {p : Pool} (h : WK E p) (m : Nat) : WK E (p.metaCancel m) := by
  unfold metaCancel
  split
  · exact h
  · split
    · exact h
    · split
      · rw [modReq_schedMeta]
        refine wk_emitRef (wk_sem_modReq h _ m _ ?_ ?_ ?_) _
        · exact owners_cancelWaiterL _ _
        · exact fun w' hw' => mem_cancelWaiterL _ _ _ hw'
        · intro x
          exact ⟨wk_snapReq_frame x, wk_snapReq_outcome x, congrArg Sem.waiters (wk_snapReq_mapSem x), rfl⟩
      · split
        · rw [modReq_schedMeta]
          refine wk_emitRef (wk_modReq_gen h m _ ?_) _
          intro r0 _
          refine ⟨?_, ?_, fun _ => ⟨?_, fun _ _ => rfl, fun _ _ _ => Or.inl rfl⟩⟩
          · show owners (snapReq _).mapSem.waiters = _
            rw [wk_snapReq_mapSem]; exact owners_cancelWaiterL _ _
          · show (snapReq _).outcome = _
            rw [wk_snapReq_outcome]
          · show (snapReq _).frame = _
            rw [wk_snapReq_frame]
        · refine wk_modReq h m _ ?_
          intro r0 _
          refine ⟨?_, ?_, ?_, fun _ a => ?_⟩
          · rw [wk_snapReq_frame]
          · rw [wk_snapReq_outcome]
          · rw [wk_snapReq_mapSem]
          · rw [wk_snapReq_sched]; exact a

/-! ### synchronous API -/

theorem wk_register {p : Pool} (h : WK E p) (r : Req) (h1 : r.frame = .notStarted) (h2 : r.sched = true)
    (h3 : r.mapSem.waiters = []) (h4 : r.outcome = none) : WK E (p.register r) := by
  unfold register
  exact wk_appendReq h r rfl rfl rfl h1 h2 h3 h4

theorem wk_ite_fst {c : Prop} [Decidable c] (a b : Pool × Res) (ha : WK E a.1) (hb : WK E b.1) :
    WK E (if c then a else b).1 := by split <;> assumption

theorem wk_doApply {p : Pool} (h : WK E p) (num : Int) (group : Option String) (sp : SpawnSpec) :
    WK E (p.doApply num group sp).1 := by
  unfold doApply
  repeat' split
  all_goals first | exact h | exact wk_ite_fst _ _ h (wk_register h _ rfl rfl rfl rfl)

theorem wk_doMap {p : Pool} (h : WK E p) (stars : Nat) (items : List Item) (nc : Int) (group : Option String)
    (sp : SpawnSpec) : WK E (p.doMap stars items nc group sp).1 := by
  unfold doMap
  repeat' split
  all_goals first | exact h | exact wk_ite_fst _ _ h (wk_register h _ rfl rfl rfl rfl)

theorem wk_doStart {p : Pool} (h : WK E p) (num : Int) : WK E (p.doStart num).1 := by
  unfold doStart
  split
  · exact h
  · split
    · exact h
    · simp only
      exact wk_register (wk_of_eq h (by rfl) (by rfl) (by rfl)) _ (by rfl) (by rfl) (by rfl) (by rfl)

theorem wk_doCancel {p : Pool} (h : WK E p) (ids : List Int) : WK E (p.doCancel ids).1 := by
  unfold doCancel
  split
  · exact h
  · exact wk_foldl _ (fun q id hq => wk_cancelTask hq _) _ _ h

theorem wk_doStop {p : Pool} (h : WK E p) (n : Int) : WK E (p.doStop n).1 := by
  unfold doStop
  split
  · exact h
  · exact wk_doCancel h _

theorem wk_popOrder {p : Pool} (h : WK E p) : WK E p.popOrder.1 := by
  unfold popOrder
  split
  · exact h
  · exact wk_of_eq h rfl rfl rfl

theorem wk_cancelGroupMetas {p : Pool} (h : WK E p) (g : String) : WK E (p.cancelGroupMetas g) := by
  unfold cancelGroupMetas
  simp only
  have h1 := wk_foldl (fun q m => q.metaCancel m) (fun q m hq => wk_metaCancel hq m)
    (indicesWhere p.reqs fun r => r.inRunning && r.group == g) p h
  refine wk_mapReqs h1 (fun (r : Req) => if r.inRunning && r.group == g then { r with inRunning := false, inCancelled := true, everCancelled := true } else r)
    rfl rfl rfl ?_
  intro r; split <;> exact ⟨rfl, rfl, rfl, rfl⟩

theorem wk_cancelGroupBody {p : Pool} (h : WK E p) (g : String) (ids order : List Nat) (q : Pool)
    (hq : p.cancelGroupBody g ids order = some q) : WK E q := by
  unfold cancelGroupBody at hq
  simp only at hq
  split at hq
  · cases hq
  · simp only [Option.some.injEq] at hq
    subst hq
    exact wk_foldl _ (fun q t hq => wk_cancelTask hq t) _ _ (wk_cancelGroupMetas h g)

theorem wk_doCancelGroup {p : Pool} (h : WK E p) (g : String) : WK E (p.doCancelGroup g).1 := by
  unfold doCancelGroup
  split
  · exact h
  · simp only
    split
    · exact h
    · rename_i p2 h2
      exact wk_cancelGroupBody (wk_of_eq (wk_popOrder h) (by rfl) (by rfl) (by rfl)) _ _ _ _ h2

theorem wk_cancelAllLoop (gs : List (String × List Nat)) (order : List Nat) (p q : Pool) (h : WK E p)
    (hq : cancelAllLoop gs order p = some q) : WK E q := by
  induction gs generalizing p with
  | nil => simp [cancelAllLoop] at hq; subst hq; exact h
  | cons x xs ih =>
    obtain ⟨g, ids⟩ := x
    simp only [cancelAllLoop] at hq
    split at hq
    · cases hq
    · rename_i p1 h1
      exact ih _ (wk_cancelGroupBody h _ _ _ _ h1) hq

theorem wk_doCancelAll {p : Pool} (h : WK E p) : WK E p.doCancelAll.1 := by
  unfold doCancelAll
  simp only
  split
  · exact h
  · rename_i p2 h2
    exact wk_cancelAllLoop _ _ _ _ (wk_of_eq (wk_popOrder h) (by rfl) (by rfl) (by rfl)) h2

theorem wk_doSetSize {p : Pool} (h : WK E p) (v : Int) : WK E (p.doSetSize v).1 := by
  unfold doSetSize
  split
  · exact h
  · exact wk_of_eq h rfl rfl rfl

theorem wk_doHook {p : Pool} (h : WK E p) (ctx : Nat) (x : HookOp) : WK E (p.doHook ctx x).1 := by
  cases x <;> simp only [doHook]
  · exact wk_doCancel h _
  · exact wk_doCancelGroup h _
  · split
    · exact wk_doCancelGroup h _
    · exact h
  · exact wk_doCancelAll h
  · exact wk_of_eq h rfl rfl rfl
  · exact wk_of_eq h rfl rfl rfl
  · exact wk_doStop h _
  · split
    · exact h
    · exact wk_doApply h _ _ _

theorem wk_runHooks {p : Pool} (h : WK E p) (ctx : Nat) (hs : List HookOp) : WK E (p.runHooks ctx hs) := by
  unfold runHooks
  exact wk_foldl _ (fun q x hq => wk_logEv (wk_doHook hq ctx x) _) _ _ h

/-! ### gather -/

theorem wk_gatherChildDone {p : Pool} (h : WK E p) (g i : Nat) (viaHandle : Bool) :
    WK E (p.gatherChildDone g i viaHandle) := by
  unfold gatherChildDone
  split
  · exact h
  · split
    · exact h
    · simp only
      have h1 := wk_modGather h g fun x => { x with nfinished := x.nfinished + 1 }
      split
      · exact h1
      · split
        · exact h1
        · split
          · exact h1
          · split
            · exact wk_schedApi (wk_modGather h1 _ _) _
            · exact wk_modGather h1 _ _

theorem wk_registerChild {p : Pool} (h : WK E p) (c : Child) (g i : Nat) : WK E (p.registerChild c g i) := by
  unfold registerChild
  split
  · refine wk_modTask h _ _ ?_
    exact fun k _ _ g => g
  · refine wk_modReq h _ _ ?_
    exact fun r _ => ⟨rfl, rfl, rfl, fun _ a => a⟩

theorem wk_gatherScan (g : Nat) (cs : List Child) (i : Nat) (p : Pool) (h : WK E p) : WK E (gatherScan g cs i p) := by
  induction cs generalizing i p with
  | nil => unfold gatherScan; exact h
  | cons c cs ih =>
    unfold gatherScan
    refine ih _ _ ?_
    split
    · exact wk_gatherChildDone h g i false
    · exact wk_registerChild h c g i

theorem wk_gatherStart {p : Pool} (h : WK E p) (children : List Child) (re : Bool) (owner : Nat) (setPrefix : Nat) :
    WK E (p.gatherStart children re owner setPrefix).1 := by
  unfold gatherStart
  simp only
  exact wk_gatherScan _ _ _ _ (wk_of_eq h (by rfl) (by rfl) (by rfl))

/-! ### flush / gather_and_close / until_closed -/

theorem wk_finishApi {p : Pool} (h : WK E p) (a : Nat) (o : Outcome) : WK E (p.finishApi a o) := by
  unfold finishApi
  exact wk_modApi h _ _

theorem wk_flushAfter2 {p : Pool} (h : WK E p) (a : Nat) (o : Outcome) : WK E (p.flushAfter2 a o) := by
  unfold flushAfter2
  split
  · simp only
    exact wk_finishApi (wk_of_eq h (by rfl) (by rfl) (by rfl)) a _
  · exact wk_finishApi h a _

theorem wk_flushAfter1 {p : Pool} (h : WK E p) (a : Nat) (re : Bool) (o : Outcome) : WK E (p.flushAfter1 a re o) := by
  unfold flushAfter1
  split
  · exact wk_finishApi h a _
  · simp only
    have t1 : WK E ({ p with metaCancelled := [], reqs := p.reqs.map fun (r : Req) => { r with inCancelled := false } } : Pool) :=
      wk_mapReqs h (fun (r : Req) => { r with inCancelled := false }) rfl rfl rfl (fun _ => ⟨rfl, rfl, rfl, rfl⟩)
    split
    · exact wk_flushAfter2 (wk_gatherStart (wk_modApi t1 _ _) _ _ _ _) a _
    · exact wk_modApi (wk_gatherStart (wk_modApi t1 _ _) _ _ _ _) _ _

theorem wk_flushStage1 {p : Pool} (h : WK E p) (a : Nat) (re : Bool) : WK E (p.flushStage1 a re) := by
  unfold flushStage1
  simp only
  have t1 : WK E ({ p with reqs := p.reqs.map fun (r : Req) => if r.inRunning && r.outcome.isSome then { r with inRunning := false } else r } : Pool) :=
    wk_mapReqs h (fun (r : Req) => if r.inRunning && r.outcome.isSome then { r with inRunning := false } else r)
      rfl rfl rfl (fun r => by split <;> exact ⟨rfl, rfl, rfl, rfl⟩)
  split
  · exact wk_flushAfter1 (wk_gatherStart t1 _ _ _ _) a re _
  · exact wk_modApi (wk_gatherStart t1 _ _ _ _) _ _

theorem wk_gacAfter2 {p : Pool} (h : WK E p) (a : Nat) (o : Outcome) : WK E (p.gacAfter2 a o) := by
  unfold gacAfter2
  split
  · simp only
    exact wk_finishApi (wk_foldl _ (fun q w hq => wk_schedApi hq w) _ _ (wk_of_eq h (by rfl) (by rfl) (by rfl))) a _
  · exact wk_finishApi h a _

theorem wk_gacAfter1 {p : Pool} (h : WK E p) (a : Nat) (re : Bool) (g : Nat) : WK E (p.gacAfter1 a re g) := by
  unfold gacAfter1
  simp only
  split
  · exact wk_finishApi h a _
  · have t1 : WK E ({ p with metaCancelled := [], reqs := p.reqs.map fun (r : Req) => { r with inCancelled := false, inRunning := false } } : Pool) :=
      wk_mapReqs h (fun (r : Req) => { r with inCancelled := false, inRunning := false }) rfl rfl rfl
        (fun _ => ⟨rfl, rfl, rfl, rfl⟩)
    split
    · exact wk_gacAfter2 (wk_gatherStart t1 _ _ _ _) a _
    · exact wk_modApi (wk_gatherStart t1 _ _ _ _) _ _

theorem wk_gacStage1 {p : Pool} (h : WK E p) (a : Nat) (re : Bool) : WK E (p.gacStage1 a re) := by
  unfold gacStage1
  simp only
  split
  · exact wk_gacAfter1 (wk_gatherStart (wk_of_eq h (by rfl) (by rfl) (by rfl)) _ true a 0) a re _
  · exact wk_modApi (wk_gatherStart (wk_of_eq h (by rfl) (by rfl) (by rfl)) _ true a 0) _ _

theorem wk_untilClosedStart {p : Pool} (h : WK E p) (a : Nat) : WK E (p.untilClosedStart a) := by
  unfold untilClosedStart
  split
  · exact wk_finishApi h a _
  · exact wk_modApi (wk_of_eq h (by rfl) (by rfl) (by rfl)) _ _

theorem wk_stepApi_rest {p : Pool} (h : WK E p) (a : Nat) (A : Api) :
    WK E (match A.frame, A.kind with
      | .done, _ => p
      | .notStarted, .flush re => p.flushStage1 a re
      | .notStarted, .gac re => p.gacStage1 a re
      | .notStarted, .untilClosed => p.untilClosedStart a
      | .waitClosed, _ => p.finishApi a .ok
      | .gather1 g, .flush re => match p.gatherOuter g with | some o => p.flushAfter1 a re o | none => p
      | .gather1 g, .gac re => match p.gatherOuter g with | some _ => p.gacAfter1 a re g | none => p
      | .gather2 g, .flush _ => match p.gatherOuter g with | some o => p.flushAfter2 a o | none => p
      | .gather2 g, .gac _ => match p.gatherOuter g with | some o => p.gacAfter2 a o | none => p
      | _, _ => p) := by
  split
  · exact h
  · exact wk_flushStage1 h a _
  · exact wk_gacStage1 h a _
  · exact wk_untilClosedStart h a
  · exact wk_finishApi h a _
  · split
    · exact wk_flushAfter1 h a _ _
    · exact h
  · split
    · exact wk_gacAfter1 h a _ _
    · exact h
  · split
    · exact wk_flushAfter2 h a _
    · exact h
  · split
    · exact wk_gacAfter2 h a _
    · exact h
  · exact h

theorem wk_stepApi {p : Pool} (h : WK E p) (a : Nat) : WK E (p.stepApi a) := by
  unfold stepApi
  split
  · exact h
  · rename_i A hA
    split
    · exact h
    · simp only
      exact wk_stepApi_rest (wk_modApi h _ _) a A

theorem wk_addApi {p : Pool} (h : WK E p) (k : ApiKind) : WK E (p.addApi k) := by
  unfold addApi
  exact wk_of_eq h rfl rfl rfl

theorem wk_doGate {p : Pool} (h : WK E p) (t : Nat) (o : FutSt) : WK E (p.doGate t o).1 := by
  unfold doGate
  split
  · simp only
    rw [modTask_schedTask]
    refine wk_emitRef (wk_modTask h t _ ?_) _
    exact fun k _ _ g => ⟨fun _ => rfl, g.2⟩
  · exact h

theorem wk_doLock {p : Pool} (h : WK E p) : WK E p.doLock := wk_of_eq h rfl rfl rfl
theorem wk_doUnlock {p : Pool} (h : WK E p) : WK E p.doUnlock := wk_of_eq h rfl rfl rfl

theorem wk_applyOp {p : Pool} (h : WK E p) (op : Op) : WK E (p.applyOp op).1 := by
  cases op <;> simp only [applyOp]
  · exact wk_doApply h _ _ _
  · exact wk_doMap h _ _ _ _ _
  · exact wk_doStart h _
  · exact wk_doStop h _
  · exact wk_doStop h _
  · exact wk_doCancel h _
  · exact wk_doCancelGroup h _
  · exact wk_doCancelAll h
  · exact wk_doLock h
  · exact wk_doUnlock h
  · exact wk_doSetSize h _
  · exact h
  · exact wk_addApi h _
  · exact wk_addApi h _
  · exact wk_addApi h _
  · exact wk_doGate h _ _

end Pool
end Taskpool
