import Taskpool.Model.Control
/-! M3, part 2: the control session (`ControlSession.client_handshake`, `listen`, `_parse_command`) and several
sessions on one pool.  Import-free.

The pool is an arbitrary state type `σ` with an arbitrary semantics `Sem σ`; the texts argparse writes and its
verdict on lines outside the canonical fragment are an arbitrary `Rt` (runtime oracle).  Every theorem holds
for all of them. -/
namespace Taskpool.Control

/-- what the runtime contributes: the message argparse writes into the response buffer for a help request or
a rejected line, and its verdict on a line outside the modelled fragment -/
structure Rt where
  message : List Tok → Str
  beyond  : List Tok → Verdict

/-- result of starting a method / property access on the pool -/
inductive Started
  | done (o : Outcome)      -- finished without suspending
  | pending                 -- the method itself waits (`flush`, `gather_and_close`, `until_closed`)
deriving DecidableEq, Repr, Inhabited

structure Sem (σ : Type) where
  invoke   : Action → σ → σ × Started
  complete : Action → σ → σ            -- effect on the pool when a pending call finishes
  env      : Nat → σ → σ               -- the pool's own progress (tasks ending …)

structure Cfg (σ : Type) where
  table : Table
  rt    : Rt
  sem   : Sem σ
  name  : Str                          -- `str(pool)`

def resolve (rt : Rt) (t : Table) (toks : List Tok) : Verdict :=
  match parseLine t toks with
  | some v => v
  | none => rt.beyond toks

/-- a line as the session reads it: `none` = blank line or end of stream -/
abbrev Line := Option (List Tok)

structure Sess where
  ready   : Bool := false              -- the handshake succeeded, the parser is built
  buf     : Str := []                  -- `_response_buffer`
  inbox   : List Line := []            -- lines received but not yet read (the stream reader's buffer)
  waiting : Option Action := none      -- the command whose method is being awaited
  ended   : Bool := false
  replies : List Str := []             -- everything written to the client, one entry per `writer.write`
deriving DecidableEq, Repr, Inhabited

/-! ### handshake -/

/-- the first line of a connection: a JSON object with an integer `terminal_width`, or anything else -/
inductive Hello
  | valid (width : Int)
  | malformed
deriving DecidableEq, Repr, Inhabited

/-- the parser is built from the pool's class (`buildOk`), the pool's name is sent back.  A malformed first
line or a parser that cannot be built ends the session (the exception closes the connection). -/
def handshake (t : Table) (name : Str) (h : Hello) (s : Sess) : Sess :=
  match h with
  | .valid _ => if buildOk t then { s with ready := true, replies := s.replies ++ [name] } else { s with ended := true }
  | .malformed => { s with ended := true }

/-! ### one command -/

/-- write `text` into the buffer, send the buffer's content as one reply, truncate the buffer -/
def respond (s : Sess) (text : Str) : Sess :=
  { s with replies := s.replies ++ [s.buf ++ text], buf := [] }

def handle {σ} (cfg : Cfg σ) (pool : σ) (s : Sess) (toks : List Tok) : σ × Sess :=
  match resolve cfg.rt cfg.table toks with
  | .help _ => (pool, respond s (cfg.rt.message toks))
  | .error _ => (pool, respond s (cfg.rt.message toks))
  | .act a =>
    match cfg.sem.invoke a pool with
    | (pool', .pending) => (pool', { s with waiting := some a })
    | (pool', .done o) => (pool', respond s (replyText a o))

/-- read lines while the session is neither waiting nor over -/
def pump {σ} (cfg : Cfg σ) : List Line → σ → Sess → σ × Sess
  | [], pool, s => (pool, { s with inbox := [] })
  | l :: ls, pool, s =>
    if s.ended || s.waiting.isSome then (pool, { s with inbox := l :: ls })
    else match l with
      | none => (pool, { s with ended := true, inbox := ls })
      | some toks =>
        let r := handle cfg pool s toks
        pump cfg ls r.1 r.2

/-! ### several sessions on one pool -/

structure World (σ : Type) where
  pool : σ
  sess : Nat → Sess

def upd (f : Nat → Sess) (i : Nat) (s : Sess) : Nat → Sess := fun j => if j = i then s else f j

inductive In
  | line (i : Nat) (l : Line)          -- session `i` receives a line
  | done (i : Nat) (o : Outcome)       -- the wait of session `i`'s pending command is over
  | env (k : Nat)                      -- the pool moves on by itself
deriving Repr, Inhabited

def step {σ} (cfg : Cfg σ) (w : World σ) : In → World σ
  | .line i l =>
    let s := w.sess i
    let r := pump cfg (s.inbox ++ [l]) w.pool s
    { pool := r.1, sess := upd w.sess i r.2 }
  | .done i o =>
    let s := w.sess i
    match s.waiting with
    | none => w
    | some a =>
      let s1 := respond { s with waiting := none } (replyText a o)
      let r := pump cfg s1.inbox (cfg.sem.complete a w.pool) s1
      { pool := r.1, sess := upd w.sess i r.2 }
  | .env k => { w with pool := cfg.sem.env k w.pool }

def run {σ} (cfg : Cfg σ) (w : World σ) (ins : List In) : World σ := ins.foldl (step cfg) w

/-- a session right after a successful handshake -/
def readySess (name : Str) : Sess := { ready := true, replies := [name] }

/-! ### observers used in the statements about sessions -/

def wcount (s : Sess) : Nat := bif s.waiting.isSome then 1 else 0

/-- the lines a session will answer: the non-blank ones before the first blank line -/
def answerable (ls : List Line) : Nat := (ls.takeWhile Option.isSome).length

def hasBlank (ls : List Line) : Bool := ls.any Option.isNone

def unread (ls : List Line) (s : Sess) : Nat := bif s.ended then 0 else answerable ls

/-- replies written + the reply owed for the command being awaited + the lines still to be read -/
def ledger (ls : List Line) (s : Sess) : Nat := s.replies.length + wcount s + unread ls s

def blankSeen (ls : List Line) (s : Sess) : Bool := s.ended || hasBlank ls

/-- the lines sent to session `i` -/
def sentTo (i : Nat) : List In → List Line
  | [] => []
  | .line j l :: ins => if j = i then l :: sentTo i ins else sentTo i ins
  | _ :: ins => sentTo i ins

end Taskpool.Control
