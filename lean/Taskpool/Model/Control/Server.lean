/-! M3, part 3: life cycle of a control server (`ControlServer.serve_forever`, `_serve_forever`,
`_client_connected_cb`, `_final_callback`) over asyncio 3.12's `Server` (`close`, `wait_closed`).  Import-free.

What is modelled: the listening socket, the stop request (cancellation of the serving task), the connections
the server still holds, completion of the serving task and the Unix socket file.  `wait_closed()` returns when
the listening socket is closed *and* no connection is attached any more; a session leaves its `listen` loop on a
blank line / end of stream, or after answering a line once the server no longer serves, and then closes its
connection. -/
namespace Taskpool.Control

structure Srv where
  unix          : Bool
  listening     : Bool                 -- the address accepts connections, `is_serving()`
  stopRequested : Bool                 -- the serving task was cancelled
  serveDone     : Bool                 -- the serving task is done
  socketFile    : Bool                 -- the Unix socket file exists
  conns         : List Bool            -- per connection ever accepted: does the server still hold it
  commands      : Nat                  -- command lines answered so far (all sessions)
deriving DecidableEq, Repr, Inhabited

inductive SIn
  | connect                            -- a client connects (transport level; whether it ever sends a handshake line or
                                       -- leaves before / during the handshake makes no difference to this machine)
  | line (i : Nat)                     -- client `i` sends a non-blank command line
  | clientClose (i : Nat)              -- client `i` closes (clean close or EOF)
  | exitCmd (i : Nat)                  -- the bundled client's `exit` command: closes the connection
  | stop                               -- the serving task is cancelled
  | restart                            -- `serve_forever()` is called again on the same server object, after the
                                       -- previous serving task is done (before that the input is ignored: the
                                       -- harness never does it, the address would still be bound)
deriving DecidableEq, Repr, Inhabited

/-- `serve_forever()` returned: the server listens, the task is alive -/
def Srv.start (unix : Bool) : Srv :=
  { unix, listening := true, stopRequested := false, serveDone := false, socketFile := unix, conns := [], commands := 0 }

def Srv.allGone (s : Srv) : Bool := s.conns.all (fun c => !c)

def Srv.isOpen (s : Srv) (i : Nat) : Bool := s.conns.getD i false

/-- the cancelled serving task finishes as soon as nothing is attached: final callback, socket file removed -/
def Srv.settle (s : Srv) : Srv :=
  if s.stopRequested && s.allGone then { s with serveDone := true, socketFile := false } else s

def Srv.drop (s : Srv) (i : Nat) : Srv := { s with conns := s.conns.set i false }

def Srv.step (s : Srv) : SIn → Srv
  | .connect => if s.listening then { s with conns := s.conns ++ [true] } else s
  | .line i =>
    if s.isOpen i then
      let s1 := { s with commands := s.commands + 1 }
      if s.stopRequested then (s1.drop i).settle else s1
    else s
  | .clientClose i => (s.drop i).settle
  | .exitCmd i => (s.drop i).settle
  | .stop => { s with stopRequested := true, listening := false }.settle
  | .restart =>
    if s.serveDone then
      { s with listening := true, stopRequested := false, serveDone := false, socketFile := s.unix }
    else s

def Srv.run (s : Srv) (ins : List SIn) : Srv := ins.foldl Srv.step s

/-- what a client observes of one input: accepted / refused, answered / not -/
def Srv.accepts (s : Srv) : Bool := s.listening
def Srv.answers (s : Srv) (i : Nat) : Bool := s.isOpen i

end Taskpool.Control
