/-! Basic types of the pool machine (M1). Import-free. -/
namespace Taskpool

inductive Err
  | notCoroutineFunction | poolIsClosed | poolIsLocked | valueError
  | groupExists | groupNotFound | alreadyCancelled | alreadyEnded | taskNotFound
  | keyError | cancelledError | user (n : Nat)
deriving DecidableEq, Repr, Inhabited

def Err.name : Err → String
  | .notCoroutineFunction => "NotCoroutineFunction"
  | .poolIsClosed => "PoolIsClosed"
  | .poolIsLocked => "PoolIsLocked"
  | .valueError => "ValueError"
  | .groupExists => "TaskGroupAlreadyExists"
  | .groupNotFound => "TaskGroupNotFound"
  | .alreadyCancelled => "AlreadyCancelled"
  | .alreadyEnded => "AlreadyEnded"
  | .taskNotFound => "TaskNotFound"
  | .keyError => "KeyError"
  | .cancelledError => "CancelledError"
  | .user _ => "Boom"

/-- how an asyncio Task / Future finished -/
inductive Outcome | ok | exc (e : Err) | cancelled
deriving DecidableEq, Repr, Inhabited

def Outcome.show : Outcome → String
  | .ok => "ok" | .exc e => "exc:" ++ e.name | .cancelled => "cancelled"

/-- state of a harness-owned future a task is suspended on -/
inductive FutSt | pending | ok | exc (e : Err) | cancelled
deriving DecidableEq, Repr, Inhabited

/-- semaphore counter: a natural number or `inf` (the default pool size) -/
inductive Cap | fin (n : Nat) | inf
deriving DecidableEq, Repr, Inhabited

def Cap.isZero : Cap → Bool | .fin 0 => true | _ => false
def Cap.inc : Cap → Cap | .fin n => .fin (n+1) | .inf => .inf
def Cap.dec : Cap → Cap | .fin n => .fin (n-1) | .inf => .inf
def Cap.show : Cap → String | .fin n => toString n | .inf => "inf"

inductive WaitSt | pending | granted | cancelled
deriving DecidableEq, Repr, Inhabited

structure Waiter where
  owner : Nat
  st    : WaitSt
deriving DecidableEq, Repr, Inhabited

structure Sem where
  value   : Cap
  waiters : List Waiter
deriving Repr, Inhabited

/-- `Semaphore.locked()` of CPython 3.12.1 -/
def Sem.locked (s : Sem) : Bool :=
  s.value.isZero || s.waiters.any (fun w => w.st != .cancelled)

/-- `_wake_up_next`: the first waiter that is not done gets the slot. Returns the owner woken. -/
def wakeNextL : Cap → List Waiter → Cap × List Waiter × Option Nat
  | v, [] => (v, [], none)
  | v, w :: ws =>
    if w.st = .pending then (v.dec, { w with st := .granted } :: ws, some w.owner)
    else
      let (v', ws', o) := wakeNextL v ws
      (v', w :: ws', o)

def Sem.wakeNext (s : Sem) : Sem × Option Nat :=
  let (v, ws, o) := wakeNextL s.value s.waiters
  ({ value := v, waiters := ws }, o)

/-- `release()` -/
def Sem.release (s : Sem) : Sem × Option Nat :=
  Sem.wakeNext { s with value := s.value.inc }

/-- remove the (unique) waiter of `owner`; returns its state -/
def removeWaiterL (owner : Nat) : List Waiter → Option WaitSt × List Waiter
  | [] => (none, [])
  | w :: ws =>
    if w.owner = owner then (some w.st, ws)
    else let (r, ws') := removeWaiterL owner ws; (r, w :: ws')

/-- `Future.cancel()` on the pending waiter future of `owner` -/
def cancelWaiterL (owner : Nat) (ws : List Waiter) : List Waiter :=
  ws.map (fun w => if w.owner = owner ∧ w.st = .pending then { w with st := .cancelled } else w)

def hasPendingWaiter (owner : Nat) (ws : List Waiter) : Bool :=
  ws.any (fun w => w.owner = owner && w.st == .pending)

/-- the future `owner` is suspended on (its waiter entry) is still pending: `Task.cancel()` cancels that future -/
def firstIsPending (owner : Nat) (ws : List Waiter) : Bool := (removeWaiterL owner ws).1 == some .pending

/-- `wrapUp`: the worker coroutine has finished, the wrapper is running its own code or a plain callback -/
inductive Phase | created | inWorker | wrapUp | inCancelCb | inEndCb | finished
deriving DecidableEq, Repr, Inhabited

inductive CbSpec | none | plain | raises (e : Err) | coro
deriving DecidableEq, Repr, Inhabited

inductive WMode | gated | retNow | raiseNow (e : Err)
deriving DecidableEq, Repr, Inhabited

structure WSpec where
  mode    : WMode
  swallow : Bool        -- worker catches CancelledError and returns normally
  resume  : Bool := false   -- worker catches its *first* CancelledError and goes on awaiting (it obeys the next one)
  awaits  : Nat := 0        -- gated worker: how many *further* suspension points it has after its first one
deriving DecidableEq, Repr, Inhabited

/-- a synchronous pool call made from inside user code the pool runs (worker start, between two awaits of the worker, callback, iterator pull) -/
inductive HookOp
  | cancel (ids : List Int)
  | cancelGroup (g : String)
  | cancelOwn                       -- `cancel_group` of the group whose user code is running
  | cancelAll
  | lock | unlock
  | stop (n : Int)
  | applyG (num : Int)              -- `apply` of a gated worker without callbacks, generated name
deriving DecidableEq, Repr, Inhabited

structure Hooks where
  start    : List HookOp := []      -- at the first statement of the worker
  endCb    : List HookOp := []      -- inside the end callback
  cancelCb : List HookOp := []      -- inside the cancel callback
  pull     : List HookOp := []      -- inside the argument iterator, at every pull
  next     : List HookOp := []      -- in the worker, each time it resumes from an await and goes on to a later one
deriving DecidableEq, Repr, Inhabited

/-- what the harness-owned user code of a request does -/
structure SpawnSpec where
  ws       : WSpec
  endCb    : CbSpec
  cancelCb : CbSpec
  badCall  : Bool                   -- apply/start: `func(*args, **kwargs)` raises
  isCoro   : Bool                   -- `func` is a coroutine function
  hooks    : Hooks
deriving DecidableEq, Repr, Inhabited

/-- what the worker of a task was called with: `func(*args, **kwargs)` of apply/start, or element `i` of a
map-style request passed as `func(x)`, `func(*x)`, `func(**x)` (`stars` = 0, 1, 2) -/
inductive ArgD | apply | elem (stars i : Nat)
deriving DecidableEq, Repr, Inhabited

/-- a pool task; its index in `Pool.tasks` is its task id -/
structure PTask where
  req        : Nat                 -- index of the request (spawner) that created it
  arg        : ArgD                -- the arguments its worker was called with
  phase      : Phase
  released   : Bool                -- `_enough_room.release()` was executed for it
  isMap      : Bool                -- created by a map request (end callback releases a map slot)
  mapHeld    : Bool                -- still holds its map slot
  fut        : FutSt               -- the future it is suspended on (meaningful in inWorker/inCancelCb/inEndCb)
  mustCancel : Bool
  sched      : Bool
  outcome    : Option Outcome      -- `some` = the asyncio Task is done
  pendingExc : Option Err          -- exception that will leave the wrapper
  sawCancel  : Bool
  unstarted  : Bool                -- in `_tasks_unstarted`: the wrapper has not taken its first step
  cancelledEarly : Bool            -- in `_tasks_cancelled_early`: cancelled through the pool while unstarted
  doneCbs    : List (Nat × Nat)    -- gather child slots registered on this task
  endCb      : CbSpec              -- the end callback bound into the wrapper when the task was created
  cancelCb   : CbSpec              -- the cancel callback likewise
  nEC        : Nat                 -- ghost: how often the end callback was entered
  nCC        : Nat                 -- ghost: how often the cancel callback was entered
  wasCancelled : Bool              -- ghost: the coroutine ended by cancellation (`except CancelledError` was taken)
  nSaw       : Nat                 -- ghost: how many `CancelledError`s the worker has observed
  awaitsLeft : Nat := 0            -- suspension points the worker still has ahead of it after the current one (set at its
                                   -- first suspension from `WSpec.awaits`; behaviour, not ghost)
deriving Repr, Inhabited

structure Item where
  bad : Bool                       -- building the coroutine for this element raises
  raises : Bool := false           -- the argument iterator raises instead of yielding this element
deriving DecidableEq, Repr, Inhabited

inductive ReqKind | apply | map
deriving DecidableEq, Repr, Inhabited

inductive MFrame | notStarted | waitMapSem | waitRoom | running | done
deriving DecidableEq, Repr, Inhabited

/-- a request together with its spawner ("meta") task -/
structure Req where
  kind       : ReqKind
  stars      : Nat                 -- map: 0 = map, 1 = starmap, 2 = doublestarmap
  group      : String
  wspec      : WSpec
  endCb      : CbSpec
  cancelCb   : CbSpec
  badCall    : Bool                -- apply: `func(*args, **kwargs)` raises
  hooks      : Hooks
  remaining  : Nat                 -- apply: invocations still to start
  items      : List Item           -- map: elements not yet pulled
  mapSem     : Sem
  nc         : Nat                 -- ghost: `num_concurrent`, the initial value of `mapSem`
  n0         : Nat                 -- ghost: invocations requested (apply/start) resp. length of the iterable (map)
  acquired   : Bool                -- map: `semaphore_acquired`
  pulled     : Nat
  created    : Nat
  skipped    : Nat
  frame      : MFrame
  mustCancel : Bool
  sched      : Bool
  outcome    : Option Outcome
  inRunning  : Bool                -- filed in `_group_meta_tasks_running`
  inCancelled : Bool               -- filed in `_meta_tasks_cancelled`
  doneCbs    : List (Nat × Nat)
  /-- ghost (read by no step function): `(created, pulled)` at the moment the spawner was first cancelled while it was
  suspended or had not begun (not from inside its own handle, i.e. not re-entrantly from its own argument iterator) -/
  cancelSnap : Option (Nat × Nat) := none
  /-- ghost (read by no step function): `Task.cancel()` was called on the spawner at least once before it was done -/
  everCancelled : Bool := false
deriving Repr, Inhabited

inductive Child | task (t : Nat) | spawner (m : Nat)
deriving DecidableEq, Repr, Inhabited

structure Gather where
  children  : List Child
  nfinished : Nat
  outer     : Option Outcome
  owner     : Nat
  retExc    : Bool
deriving Repr, Inhabited

inductive ApiKind | flush (re : Bool) | gac (re : Bool) | untilClosed
deriving DecidableEq, Repr, Inhabited

inductive AFrame | notStarted | gather1 (g : Nat) | gather2 (g : Nat) | waitClosed | done
deriving DecidableEq, Repr, Inhabited

structure Api where
  kind    : ApiKind
  frame   : AFrame
  sched   : Bool
  outcome : Option Outcome
  snapE   : List Nat := []        -- flush: the ended registry as snapshotted before its second gather
  snapC   : List Nat := []        -- flush: the cancelled registry likewise
deriving Repr, Inhabited

inductive Ref | task (t : Nat) | spawner (m : Nat) | api (a : Nat) | gchild (g i : Nat)
deriving DecidableEq, Repr, Inhabited

end Taskpool
