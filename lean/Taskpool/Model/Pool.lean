import Taskpool.Model.Basic
/-! The pool machine (M1): `BaseTaskPool`/`TaskPool`/`SimpleTaskPool` over the asyncio fragment.
AS-IS semantics of the pinned commit. Written as small named pieces (one level of branching each)
so that every piece gets its own frame lemma. -/
namespace Taskpool

inductive Res | none | name (s : String) | err (e : Err) | ids (l : List Nat) | idset (l : List Nat) | badOrder | noop
deriving DecidableEq, Repr, Inhabited

inductive Ev
  | started (t : Nat) (a : ArgD) | sawCancel (t : Nat) | returned (t : Nat) | raised (t : Nat)
  | resumed (t : Nat)                 -- the worker caught a `CancelledError` and went on (awaits a fresh future)
  | next (t : Nat)                    -- the future the worker awaited completed; the worker went on to its next await
  | cancelCb (t r c e : Nat) (k : Option Err) | cancelCbDone (t : Nat) | cancelCbRaised (t : Nat) | cancelCbKilled (t : Nat)
  | endCb (t r c e : Nat) (k : Option Err) | endCbDone (t : Nat) | endCbRaised (t : Nat) | endCbKilled (t : Nat)
  | pull (m k : Nat)
  | hook (r : Res)
deriving DecidableEq, Repr, Inhabited

structure Pool where
  simple        : Option SpawnSpec            -- `some` = a SimpleTaskPool with this fixed function/callbacks
  startCalls    : Nat
  sem           : Sem
  locked        : Bool
  closed        : Bool
  tasks         : List PTask
  reqs          : List Req
  groups        : List (String × List Nat)   -- `_task_groups`, insertion order
  running       : List Nat                    -- `_tasks_running` keys, insertion order
  cancelledR    : List Nat                    -- `_tasks_cancelled`
  ended         : List Nat                    -- `_tasks_ended`
  metaCancelled : List Nat                    -- `_meta_tasks_cancelled` (a set in the code)
  apis          : List Api
  gathers       : List Gather
  closedWaiters : List Nat
  emit          : List Ref                    -- handles queued by the current step, in order
  log           : List Ev                     -- events of the current step, in order
  names         : List String                 -- ghost: every group name ever returned
  orders        : List (List Nat)             -- cancel orders observed on the implementation (see DESIGN §3.5)
  ambiguous     : Bool                        -- behaviour depended on the iteration order of a Python set
  lost          : Bool                        -- ghost: a task hit `KeyError` in its wrapper, or `flush`/`gather_and_close`
                                              -- dropped a task from the registries that had not handed back its slot
  resized       : Bool                        -- ghost: `pool_size` was assigned at least once
deriving Repr, Inhabited

def Pool.init (size : Cap) (simple : Option SpawnSpec) : Pool :=
  { simple := simple, startCalls := 0,
    sem := { value := size, waiters := [] }, locked := false, closed := false, tasks := [], reqs := [],
    groups := [], running := [], cancelledR := [], ended := [], metaCancelled := [], apis := [],
    gathers := [], closedWaiters := [], emit := [], log := [], names := [], orders := [], ambiguous := false,
    lost := false, resized := false }

namespace Pool

/-! ### plumbing -/

def modTask (p : Pool) (t : Nat) (f : PTask → PTask) : Pool := { p with tasks := p.tasks.modify t f }
def modReq (p : Pool) (m : Nat) (f : Req → Req) : Pool := { p with reqs := p.reqs.modify m f }
def modApi (p : Pool) (a : Nat) (f : Api → Api) : Pool := { p with apis := p.apis.modify a f }
def modGather (p : Pool) (g : Nat) (f : Gather → Gather) : Pool := { p with gathers := p.gathers.modify g f }
def emitRef (p : Pool) (r : Ref) : Pool := { p with emit := p.emit ++ [r] }
def logEv (p : Pool) (e : Ev) : Pool := { p with log := p.log ++ [e] }

def schedTask (p : Pool) (t : Nat) : Pool := (p.modTask t fun x => { x with sched := true }).emitRef (.task t)
def schedMeta (p : Pool) (m : Nat) : Pool := (p.modReq m fun x => { x with sched := true }).emitRef (.spawner m)
def schedApi (p : Pool) (a : Nat) : Pool := (p.modApi a fun x => { x with sched := true }).emitRef (.api a)

def schedOpt (p : Pool) : Option Nat → Pool
  | none => p
  | some m => p.schedMeta m

def emitChildren (p : Pool) (cbs : List (Nat × Nat)) : Pool :=
  cbs.foldl (fun p gi => p.emitRef (.gchild gi.1 gi.2)) p

/-- `_enough_room.release()` -/
def releasePool (p : Pool) : Pool :=
  let r := p.sem.release
  ({ p with sem := r.1 } : Pool).schedOpt r.2

/-- release of a map request's own semaphore -/
def releaseMap (p : Pool) (m : Nat) : Pool :=
  match p.reqs[m]? with
  | none => p
  | some r =>
    let s := r.mapSem.release
    (p.modReq m fun x => { x with mapSem := s.1 }).schedOpt s.2

/-- task `t` has not handed back its slot -/
def heldB (p : Pool) (t : Nat) : Bool := match p.tasks[t]? with | some tk => !tk.released | none => false

def counters (p : Pool) : Nat × Nat × Nat := (p.running.length, p.cancelledR.length, p.ended.length)

def groupIds (p : Pool) (g : String) : Option (List Nat) := (p.groups.find? (·.1 == g)).map (·.2)

def indicesWhere (l : List Req) (f : Req → Bool) : List Nat :=
  (l.zipIdx.filter fun ri => f ri.1).map (·.2)

/-! ### asyncio `Task.cancel()` -/

/-- a `Task.cancel()` on `t` would cancel a pending future and so queue a wake-up handle -/
def wakesOnCancel (p : Pool) (t : Nat) : Bool :=
  match p.tasks[t]? with
  | some tk => tk.outcome.isNone &&
      (tk.phase == .inWorker || tk.phase == .inCancelCb || tk.phase == .inEndCb) && tk.fut == .pending
  | none => false

def taskCancel (p : Pool) (t : Nat) : Pool :=
  match p.tasks[t]? with
  | none => p
  | some tk =>
    if tk.outcome.isSome then p
    else if p.wakesOnCancel t then (p.modTask t fun k => { k with fut := .cancelled }).schedTask t
    else p.modTask t fun k => { k with mustCancel := true }

/-- `_cancel_task`: the cancellation of a task that has not taken its first step is deferred to that step -/
def cancelTask (p : Pool) (t : Nat) : Pool :=
  match p.tasks[t]? with
  | none => p
  | some tk =>
    if tk.unstarted then p.modTask t fun k => { k with cancelledEarly := true }
    else p.taskCancel t

/-- ghost: remember the progress counters at the first cancellation of a spawner that is not running its own handle -/
def snapReq (x : Req) : Req :=
  if x.frame != .running && x.frame != .done && x.cancelSnap.isNone then { x with cancelSnap := some (x.created, x.pulled) } else x

def metaCancel (p : Pool) (m : Nat) : Pool :=
  match p.reqs[m]? with
  | none => p
  | some r =>
    if r.outcome.isSome then p
    else if r.frame == .waitRoom && firstIsPending m p.sem.waiters then
      (({ p with sem := { p.sem with waiters := cancelWaiterL m p.sem.waiters } } : Pool).modReq m snapReq).schedMeta m
    else if r.frame == .waitMapSem && firstIsPending m r.mapSem.waiters then
      (p.modReq m fun x => snapReq { x with mapSem := { x.mapSem with waiters := cancelWaiterL m x.mapSem.waiters } }).schedMeta m
    else p.modReq m fun x => snapReq { x with mustCancel := true }

/-! ### synchronous API -/

def genName (p : Pool) (pre : String) : String :=
  let base := pre ++ "-worker-group-"
  match (List.range (p.groups.length + 1)).find? (fun i => (p.groupIds (base ++ toString i)).isNone) with
  | some i => base ++ toString i
  | none => base ++ toString (p.groups.length + 1)

/-- `_check_start(function=...)` -/
def checkStart (p : Pool) (isCoro : Bool) : Option Err :=
  if !isCoro then some .notCoroutineFunction
  else if p.closed then some .poolIsClosed
  else if p.locked then some .poolIsLocked
  else none

def newReq (kind : ReqKind) (stars : Nat) (group : String) (sp : SpawnSpec) (remaining : Nat) (items : List Item) (nc : Nat) : Req :=
  { kind := kind, stars := stars, group := group, wspec := sp.ws, endCb := sp.endCb, cancelCb := sp.cancelCb, badCall := sp.badCall,
    hooks := sp.hooks, remaining := remaining, items := items, mapSem := { value := .fin nc, waiters := [] },
    nc := nc, n0 := remaining + items.length, acquired := false, pulled := 0, created := 0, skipped := 0, frame := .notStarted, mustCancel := false,
    sched := true, outcome := none, inRunning := true, inCancelled := false, doneCbs := [] }

def addGroupIfMissing (gs : List (String × List Nat)) (g : String) : List (String × List Nat) :=
  if (gs.find? (·.1 == g)).isSome then gs else gs ++ [(g, [])]

/-- registers the group, the request and its spawner task -/
def register (p : Pool) (r : Req) : Pool :=
  let m := p.reqs.length
  let p : Pool := { p with reqs := p.reqs ++ [r], groups := addGroupIfMissing p.groups r.group,
                           names := if p.names.contains r.group then p.names else p.names ++ [r.group] }
  p.emitRef (.spawner m)

def doApply (p : Pool) (num : Int) (group : Option String) (sp : SpawnSpec) : Pool × Res :=
  match p.checkStart sp.isCoro with
  | some e => (p, .err e)
  | none =>
    let g := match group with | some g => g | none => p.genName "apply"
    if (p.groupIds g).isSome then (p, .err .groupExists)
    else (p.register (newReq .apply 0 g sp num.toNat [] 0), .name g)

def mapPrefix (stars : Nat) : String :=
  if stars == 0 then "map" else if stars == 1 then "starmap" else "doublestarmap"

def doMap (p : Pool) (stars : Nat) (items : List Item) (nc : Int) (group : Option String) (sp : SpawnSpec) : Pool × Res :=
  let g := match group with | some g => g | none => p.genName (mapPrefix stars)
  match p.checkStart sp.isCoro with
  | some e => (p, .err e)
  | none =>
    if nc < 1 then (p, .err .valueError)
    else if (p.groupIds g).isSome then (p, .err .groupExists)
    else (p.register (newReq .map stars g sp 0 items nc.toNat), .name g)

/-- `SimpleTaskPool.start` -/
def doStart (p : Pool) (num : Int) : Pool × Res :=
  match p.simple with
  | none => (p, .noop)
  | some sp =>
    match p.checkStart sp.isCoro with
    | some e => (p, .err e)
    | none =>
      let g := "start-group-" ++ toString p.startCalls
      let p : Pool := { p with startCalls := p.startCalls + 1 }
      (p.register (newReq .apply 0 g sp num.toNat [] 0), .name g)

/-- `_get_running_task` -/
def lookupRunning (p : Pool) (id : Int) : Option Err :=
  if id < 0 then some .taskNotFound else
  let t := id.toNat
  if p.running.contains t then none
  else if p.cancelledR.contains t then some .alreadyCancelled
  else if p.ended.contains t then some .alreadyEnded
  else some .taskNotFound

def firstErr (p : Pool) : List Int → Option Err
  | [] => none
  | id :: rest => match p.lookupRunning id with | some e => some e | none => firstErr p rest

def doCancel (p : Pool) (ids : List Int) : Pool × Res :=
  match p.firstErr ids with
  | some e => (p, .err e)
  | none => (ids.foldl (fun p id => p.cancelTask id.toNat) p, .none)

/-- `SimpleTaskPool.stop` -/
def doStop (p : Pool) (n : Int) : Pool × Res :=
  if p.simple.isNone then (p, .noop) else
  let ids := p.running.reverse.take n.toNat
  ((p.doCancel (ids.map Int.ofNat)).1, .ids ids)

def isPerm (a b : List Nat) : Bool := a.length == b.length && a.all b.contains && b.all a.contains

def popOrder (p : Pool) : Pool × List Nat :=
  match p.orders with
  | [] => (p, [])
  | o :: rest => ({ p with orders := rest }, o)

/-- `_cancel_group_meta_tasks` -/
def cancelGroupMetas (p : Pool) (g : String) : Pool :=
  let ms := indicesWhere p.reqs fun r => r.inRunning && r.group == g
  let p := ms.foldl (fun p m => p.metaCancel m) p
  let reqs' := p.reqs.map fun (r : Req) =>
    if r.inRunning && r.group == g then { r with inRunning := false, inCancelled := true, everCancelled := true } else r
  { p with reqs := reqs', metaCancelled := p.metaCancelled ++ ms }

/-- `_cancel_and_remove_all_from_group` for a registry already popped; `none` = the observed order is impossible -/
def cancelGroupBody (p : Pool) (g : String) (ids : List Nat) (order : List Nat) : Option Pool :=
  let p := p.cancelGroupMetas g
  let targets := ids.filter p.running.contains
  let wakers := targets.filter p.wakesOnCancel
  let mine := order.filter wakers.contains
  if !isPerm mine wakers then none else
  let rest := targets.filter fun t => !wakers.contains t
  some ((mine ++ rest).foldl (fun p t => p.cancelTask t) p)

def doCancelGroup (p : Pool) (g : String) : Pool × Res :=
  match p.groupIds g with
  | none => (p, .err .groupNotFound)
  | some ids =>
    let po := p.popOrder
    let p1 : Pool := { po.1 with groups := po.1.groups.filter (·.1 != g) }
    match p1.cancelGroupBody g ids po.2 with
    | none => (p, .badOrder)
    | some p2 => (p2, .none)

def cancelAllLoop : List (String × List Nat) → List Nat → Pool → Option Pool
  | [], _, p => some p
  | (g, ids) :: rest, order, p =>
    match p.cancelGroupBody g ids order with
    | none => none
    | some p => cancelAllLoop rest order p

def doCancelAll (p : Pool) : Pool × Res :=
  let po := p.popOrder
  let gs := po.1.groups.reverse                 -- `popitem()` is LIFO
  let p1 : Pool := { po.1 with groups := [] }
  match cancelAllLoop gs po.2 p1 with
  | none => (p, .badOrder)
  | some p2 => (p2, .none)

def doSetSize (p : Pool) (v : Int) : Pool × Res :=
  if v < 0 then (p, .err .valueError)
  else ({ p with sem := { p.sem with value := .fin v.toNat }, resized := true }, .none)

def gatedSpec : SpawnSpec :=
  { ws := { mode := .gated, swallow := false }, endCb := .none, cancelCb := .none, badCall := false,
    isCoro := true, hooks := {} }

/-- a pool call made from inside user code of request `ctx` -/
def doHook (p : Pool) (ctx : Nat) : HookOp → Pool × Res
  | .cancel ids => p.doCancel ids
  | .cancelGroup g => p.doCancelGroup g
  | .cancelOwn => match p.reqs[ctx]? with | some r => p.doCancelGroup r.group | none => (p, .noop)
  | .cancelAll => p.doCancelAll
  | .lock => ({ p with locked := true }, .none)
  | .unlock => ({ p with locked := false }, .none)
  | .stop n => p.doStop n
  | .applyG num => if p.simple.isSome then (p, .noop) else p.doApply num none gatedSpec

def runHooks (p : Pool) (ctx : Nat) (hs : List HookOp) : Pool :=
  hs.foldl (fun p h => let r := p.doHook ctx h; r.1.logEv (.hook r.2)) p

/-! ### the wrapper of a pool task -/

/-- the asyncio Task of pool task `t` is done -/
def completeTask (p : Pool) (t : Nat) (o : Outcome) : Pool :=
  match p.tasks[t]? with
  | none => p
  | some tk =>
    -- the done-callbacks of a future are scheduled once, when it completes (a future cannot complete twice)
    (p.modTask t fun x => { x with phase := .finished, outcome := some o, sched := false, mustCancel := false }).emitChildren
      (if tk.outcome.isSome then [] else tk.doneCbs)

def finishTask (p : Pool) (t : Nat) : Pool :=
  match p.tasks[t]? with
  | none => p
  | some tk =>
    p.completeTask t (match tk.pendingExc with
      | some .cancelledError => .cancelled        -- the coroutine ended with a CancelledError
      | some e => .exc e
      | none => if tk.mustCancel then .cancelled else .ok)

/-- the coroutine of task `t` awaits a fresh harness future; a pending `must_cancel` cancels it at once -/
def suspendTask (p : Pool) (t : Nat) (ph : Phase) : Pool :=
  match p.tasks[t]? with
  | none => p
  | some tk =>
    if tk.mustCancel then
      (p.modTask t fun k => { k with phase := ph, fut := .cancelled, mustCancel := false }).schedTask t
    else p.modTask t fun k => { k with phase := ph, fut := .pending }

def reqOf (p : Pool) (tk : PTask) : Req := p.reqs[tk.req]?.getD default

/-- ghost: one more entry into the end / the cancel callback -/
def cbCount (isEnd : Bool) (k : PTask) : PTask :=
  if isEnd then { k with nEC := k.nEC + 1 } else { k with nCC := k.nCC + 1 }

/-- entering a user callback: the log entry (with the counters and the registry that files the task at that very
moment) and the callback's own user code -/
def cbBegin (p : Pool) (t : Nat) (tk : PTask) (isEnd : Bool) : Pool :=
  let r := p.reqOf tk
  let c := p.counters
  let k := p.lookupRunning (Int.ofNat t)
  let ev := if isEnd then Ev.endCb t c.1 c.2.1 c.2.2 k else Ev.cancelCb t c.1 c.2.1 c.2.2 k
  ((p.modTask t (cbCount isEnd)).logEv ev).runHooks tk.req (if isEnd then r.hooks.endCb else r.hooks.cancelCb)

def evCbDone (t : Nat) (isEnd : Bool) : Ev := if isEnd then .endCbDone t else .cancelCbDone t
def evCbRaised (t : Nat) (isEnd : Bool) : Ev := if isEnd then .endCbRaised t else .cancelCbRaised t

/-- run a user callback; `true` = the wrapper is now suspended inside a coroutine callback -/
def runCb (p : Pool) (t : Nat) (tk : PTask) (isEnd : Bool) : Pool × Bool :=
  match (if isEnd then tk.endCb else tk.cancelCb) with
  | .none => (p, false)
  | .plain => ((p.cbBegin t tk isEnd).logEv (evCbDone t isEnd), false)
  | .raises x => (((p.cbBegin t tk isEnd).logEv (evCbRaised t isEnd)).modTask t fun k => { k with pendingExc := some x }, false)
  | .coro => ((p.cbBegin t tk isEnd).suspendTask t (if isEnd then .inEndCb else .inCancelCb), true)

/-- `self._tasks_ended[id] = self._tasks_running.pop(id)`, falling back to `_tasks_cancelled`; `none` = KeyError -/
def moveToEnded (p : Pool) (t : Nat) : Option Pool :=
  if p.running.contains t then
    some { p with running := p.running.erase t, ended := p.ended ++ [t] }
  else if p.cancelledR.contains t then
    some { p with cancelledR := p.cancelledR.erase t, ended := p.ended ++ [t] }
  else none

/-- for a map task the wrapped end callback first releases the map slot -/
def releaseMapSlot (p : Pool) (t : Nat) (tk : PTask) : Pool :=
  if tk.isMap then (p.releaseMap tk.req).modTask t fun k => { k with mapHeld := false } else p

/-- the end callback, then the end of the wrapper unless it is suspended in a coroutine callback -/
def endCallback (p : Pool) (t : Nat) (tk : PTask) : Pool :=
  let r := (p.releaseMapSlot t tk).runCb t tk true
  if r.2 then r.1 else r.1.finishTask t

/-- `_task_ending` after the registry move: release the slot, then the callback -/
def endingTail (p : Pool) (t : Nat) (tk : PTask) : Pool :=
  ((p.releasePool).modTask t fun k => { k with released := true }).endCallback t tk

def keyErrorFinish (p : Pool) (t : Nat) : Pool :=
  (({ p with lost := true } : Pool).modTask t fun k => { k with pendingExc := some .keyError }).finishTask t

/-- `_task_ending` (from the wrapper's `finally`) -/
def taskEnding (p : Pool) (t : Nat) : Pool :=
  match p.tasks[t]? with
  | none => p
  | some tk =>
    match p.moveToEnded t with
    | none => p.keyErrorFinish t
    | some p1 => p1.endingTail t tk

/-- the cancel callback, then the `finally` unless suspended -/
def cancelCallback (p : Pool) (t : Nat) (tk : PTask) : Pool :=
  let r := p.runCb t tk false
  if r.2 then r.1 else r.1.taskEnding t

/-- `except CancelledError: await self._task_cancellation(...)`, then the `finally` -/
def taskCancellation (p : Pool) (t : Nat) (tk : PTask) : Pool :=
  if p.running.contains t then
    (({ p with running := p.running.erase t, cancelledR := p.cancelledR ++ [t] } : Pool).modTask t
      fun k => { k with wasCancelled := true }).cancelCallback t tk
  else
    (({ p with lost := true } : Pool).modTask t fun k => { k with pendingExc := some .keyError }).taskEnding t

/-- the awaited coroutine finished (normally or with `e`) without cancellation -/
def afterWorker (p : Pool) (t : Nat) (e : Option Err) : Pool :=
  match e with
  | none => ((p.logEv (.returned t)).modTask t fun k => { k with phase := .wrapUp }).taskEnding t
  | some x => ((p.logEv (.raised t)).modTask t fun k => { k with phase := .wrapUp, pendingExc := some x }).taskEnding t

/-- first step of the wrapper: the worker body starts, unless the task was cancelled through the pool before -/
def stepCreated (p : Pool) (t : Nat) (tk : PTask) : Pool :=
  if tk.cancelledEarly then
    -- the coroutine is closed unstarted, `CancelledError` is raised inside the wrapper's own `try`
    (p.modTask t fun k => { k with phase := .wrapUp, unstarted := false, cancelledEarly := false }).taskCancellation t tk
  else
    let r := p.reqOf tk
    -- `fut := .ok`: the task is running, not suspended on a pending future
    let p := ((p.logEv (.started t tk.arg)).modTask t fun k => { k with phase := .inWorker, fut := .ok, unstarted := false }).runHooks tk.req r.hooks.start
    match r.wspec.mode with
    | .retNow => p.afterWorker t none
    | .raiseNow e => p.afterWorker t (some e)
    -- the worker reaches its first suspension point; `awaits` more are to come
    | .gated => (p.modTask t fun k => { k with awaitsLeft := r.wspec.awaits }).suspendTask t .inWorker

/-- the worker sees a `CancelledError` at its suspension point -/
def workerCancelled (p : Pool) (t : Nat) (tk : PTask) : Pool :=
  if (p.reqOf tk).wspec.resume && !tk.sawCancel then
    -- the worker catches this first `CancelledError` and awaits a fresh future: for the pool the task is running as
    -- before (its wrapper has seen nothing)
    ((p.logEv (.resumed t)).modTask t fun k => { k with sawCancel := true }).suspendTask t .inWorker
  else
  let p := (p.logEv (.sawCancel t)).modTask t fun k => { k with sawCancel := true, phase := .wrapUp, nSaw := k.nSaw + 1 }
  if (p.reqOf tk).wspec.swallow then p.afterWorker t none else p.taskCancellation t tk

/-- the future the worker awaited completed normally and the worker has a further suspension point: it runs on — the
user code between the two awaits may call the pool (`hooks.next`) — and awaits a fresh future. For the pool the task is
running as before (its wrapper has seen nothing) -/
def workerNext (p : Pool) (t : Nat) (tk : PTask) : Pool :=
  (((p.logEv (.next t)).modTask t fun k => { k with awaitsLeft := k.awaitsLeft - 1 }).runHooks tk.req
    (p.reqOf tk).hooks.next).suspendTask t .inWorker

def stepInWorker (p : Pool) (t : Nat) (tk : PTask) : Pool :=
  if tk.fut == .cancelled || tk.mustCancel then
    (p.modTask t fun k => { k with mustCancel := false }).workerCancelled t tk
  else match tk.fut with
    | .ok => if tk.awaitsLeft > 0 then p.workerNext t tk else p.afterWorker t none
    | .exc e => p.afterWorker t (some e)
    | _ => p

def stepInCancelCb (p : Pool) (t : Nat) (tk : PTask) : Pool :=
  match tk.fut with
  | .ok => ((p.logEv (.cancelCbDone t)).modTask t fun k => { k with phase := .wrapUp }).taskEnding t
  | .exc e => ((p.logEv (.cancelCbRaised t)).modTask t fun k => { k with phase := .wrapUp, pendingExc := some e }).taskEnding t
  | .cancelled => ((p.logEv (.cancelCbKilled t)).modTask t fun k => { k with phase := .wrapUp, pendingExc := some .cancelledError }).taskEnding t
  | .pending => p

def stepInEndCb (p : Pool) (t : Nat) (tk : PTask) : Pool :=
  match tk.fut with
  | .ok => (p.logEv (.endCbDone t)).finishTask t
  | .exc e => ((p.logEv (.endCbRaised t)).modTask t fun k => { k with pendingExc := some e }).finishTask t
  | .cancelled => ((p.logEv (.endCbKilled t)).modTask t fun k => { k with pendingExc := some .cancelledError }).finishTask t
  | .pending => p

def stepTask (p : Pool) (t : Nat) : Pool :=
  match p.tasks[t]? with
  | none => p
  | some tk =>
    if !tk.sched then p else
    let p := p.modTask t fun k => { k with sched := false }
    match tk.phase with
    | .created => p.stepCreated t tk
    | .wrapUp => p
    | .inWorker => p.stepInWorker t tk
    | .inCancelCb => p.stepInCancelCb t tk
    | .inEndCb => p.stepInEndCb t tk
    | .finished => p

/-! ### spawners -/

def finishMeta (p : Pool) (m : Nat) (o : Outcome) : Pool :=
  match p.reqs[m]? with
  | none => p
  | some r =>
    -- asyncio: a coroutine that returns while `must_cancel` is still set leaves a *cancelled* Task
    let o := if o == .ok && r.mustCancel then .cancelled else o
    (p.modReq m fun x => { x with frame := .done, outcome := some o, sched := false, mustCancel := false }).emitChildren
      (if r.outcome.isSome then [] else r.doneCbs)

def addToGroup : List (String × List Nat) → String → Nat → List (String × List Nat)
  | [], g, id => [(g, [id])]
  | (n, ids) :: rest, g, id => if n = g then (n, ids ++ [id]) :: rest else (n, ids) :: addToGroup rest g id

def newTask (m : Nat) (isMap : Bool) (arg : ArgD) (ecb ccb : CbSpec) : PTask :=
  { req := m, arg := arg, endCb := ecb, cancelCb := ccb, nEC := 0, nCC := 0, wasCancelled := false, nSaw := 0, phase := .created, released := false, isMap := isMap, mapHeld := isMap, fut := .pending,
    mustCancel := false, sched := true, outcome := none, pendingExc := none, sawCancel := false,
    unstarted := true, cancelledEarly := false, doneCbs := [] }

/-- the synchronous tail of `_start_task` once a slot is held -/
def createTask (p : Pool) (m : Nat) (isMap : Bool) : Pool :=
  let id := p.tasks.length
  let r := p.reqs[m]?.getD default
  let g := r.group
  let arg := if isMap then ArgD.elem r.stars (r.pulled - 1) else ArgD.apply
  let p : Pool := { p with tasks := p.tasks ++ [newTask m isMap arg r.endCb r.cancelCb], groups := addToGroup p.groups g id,
                           running := p.running ++ [id] }
  (p.modReq m fun x => { x with created := x.created + 1 }).emitRef (.task id)

/-- take a pool slot on the fast path and create the task -/
def takeSlotAndCreate (p : Pool) (m : Nat) (isMap : Bool) : Pool :=
  ({ p with sem := { p.sem with value := p.sem.value.dec } } : Pool).createTask m isMap

/-- the spawner waits for room in the pool; a pending `must_cancel` cancels the waiter at once -/
def waitRoom (p : Pool) (m : Nat) : Pool :=
  let mc := (p.reqs[m]?.getD default).mustCancel
  let w : Waiter := { owner := m, st := if mc then .cancelled else .pending }
  let p : Pool := { p with sem := { p.sem with waiters := p.sem.waiters ++ [w] } }
  let p := p.modReq m fun x => { x with frame := .waitRoom, mustCancel := false }
  if mc then p.schedMeta m else p

def waitMapSem (p : Pool) (m : Nat) : Pool :=
  let mc := (p.reqs[m]?.getD default).mustCancel
  let w : Waiter := { owner := m, st := if mc then .cancelled else .pending }
  let p := p.modReq m fun x => { x with frame := .waitMapSem, mustCancel := false, acquired := false,
                                        mapSem := { x.mapSem with waiters := x.mapSem.waiters ++ [w] } }
  if mc then p.schedMeta m else p

/-- `group_name in self._group_meta_tasks_running` for the group of spawner `m`: some spawner of a group with that
name is filed as running (a cancelled spawner is not), in which case `_start_task` ignores the lock -/
def groupHasRunningMeta (p : Pool) (m : Nat) : Bool :=
  let g := (p.reqs[m]?.getD default).group
  p.reqs.any fun r => r.inRunning && r.group == g

/-- `_apply_spawner`/`_start_num` loop from the current position until it suspends or ends -/
def applyLoop (m : Nat) : Nat → Pool → Pool
  | 0, p => (p.modReq m fun x => { x with remaining := 0 }).finishMeta m .ok
  | n+1, p =>
    let p := p.modReq m fun x => { x with remaining := n+1 }
    if (p.reqs[m]?.getD default).badCall then applyLoop m n (p.modReq m fun x => { x with skipped := x.skipped + 1 })
    else if p.closed then p.finishMeta m (.exc .poolIsClosed)
    else if p.locked && !p.groupHasRunningMeta m then p.finishMeta m (.exc .poolIsLocked)
    else if p.sem.locked then p.waitRoom m
    else applyLoop m n (p.takeSlotAndCreate m false)

/-- `_start_task(ignore_lock=True)` for a map element whose map slot is held; `true` = task created -/
def mapStartTask (p : Pool) (m : Nat) : Pool × Bool :=
  if p.closed then (p.finishMeta m (.exc .poolIsClosed), false)
  else if p.sem.locked then (p.waitRoom m, false)
  else (p.takeSlotAndCreate m true, true)

/-- one pull from the argument iterator (user code) -/
def pullItem (p : Pool) (m : Nat) (rest : List Item) : Pool :=
  let r := p.reqs[m]?.getD default
  ((p.modReq m fun x => { x with items := rest, pulled := x.pulled + 1, acquired := false, frame := .running }).logEv (.pull m r.pulled)).runHooks m r.hooks.pull

def takeMapSlot (p : Pool) (m : Nat) : Pool :=
  p.modReq m fun x => { x with acquired := true, frame := .running, mapSem := { x.mapSem with value := x.mapSem.value.dec } }

/-- `_arg_consumer`'s loop from the next pull until it suspends or ends -/
def mapLoop (m : Nat) : List Item → Pool → Pool
  | [], p => (p.modReq m fun x => { x with items := [] }).finishMeta m .ok
  | it :: rest, p =>
    let p := p.pullItem m rest
    -- the iterator itself raises: the exception leaves `_arg_consumer`, the meta task ends with it
    if it.raises then p.finishMeta m (.exc (.user 4))
    else if it.bad then mapLoop m rest (p.modReq m fun x => { x with skipped := x.skipped + 1 })
    else if (p.reqs[m]?.getD default).mapSem.locked then p.waitMapSem m
    else
      let r := (p.takeMapSlot m).mapStartTask m
      if r.2 then mapLoop m rest r.1 else r.1

def continueSpawner (p : Pool) (m : Nat) : Pool :=
  let r := p.reqs[m]?.getD default
  match r.kind with
  | .apply => applyLoop m (r.remaining - 1) p
  | .map => mapLoop m r.items p

def stepMetaNotStarted (p : Pool) (m : Nat) (r : Req) : Pool :=
  if r.mustCancel then p.finishMeta m .cancelled      -- a *cancelled* Task (R2)
  else match r.kind with
    | .apply => applyLoop m r.remaining p
    | .map => mapLoop m r.items p

/-- `CancelledError` inside `_enough_room.acquire()` -/
def roomWaitCancelled (p : Pool) (m : Nat) (r : Req) (st : Option WaitSt) : Pool :=
  let p := if st == some .granted then p.releasePool else p
  let p := if r.kind == .map && r.acquired then p.releaseMap m else p
  p.finishMeta m .ok

/-- `acquire()` returned: `if self._value > 0: self._wake_up_next()`, then the task is created -/
def roomGranted (p : Pool) (m : Nat) (r : Req) : Pool :=
  -- the spawner is no longer suspended in `acquire()`: it runs on (ghost frame, read by nobody)
  let p := p.modReq m fun x => { x with frame := .running }
  let p := if !p.sem.value.isZero then
             let s := p.sem.wakeNext; ({ p with sem := s.1 } : Pool).schedOpt s.2
           else p
  (p.createTask m (r.kind == .map)).continueSpawner m

def wakeWaitRoomCore (p : Pool) (m : Nat) (r : Req) : Pool :=
  let rw := removeWaiterL m p.sem.waiters
  let p : Pool := { p with sem := { p.sem with waiters := rw.2 } }
  let p := p.modReq m fun x => { x with mustCancel := false }
  if rw.1 == some .cancelled || r.mustCancel then p.roomWaitCancelled m r rw.1
  else if rw.1 == some .granted then p.roomGranted m r
  else p

/-- a wake-up of a spawner whose waiter future is still pending (or that has none) and that was not cancelled cannot
happen on a run of the real loop — a future schedules its waiter when it completes, `Task.cancel()` when it cancels the
future; should the handle be run all the same, the coroutine is not resumed: nothing changes (totalisation) -/
def wakeWaitRoom (p : Pool) (m : Nat) (r : Req) : Pool :=
  if (removeWaiterL m p.sem.waiters).1 == some .cancelled || r.mustCancel || (removeWaiterL m p.sem.waiters).1 == some .granted
  then p.wakeWaitRoomCore m r else p

def mapSemGranted (p : Pool) (m : Nat) (r : Req) : Pool :=
  let q := (p.modReq m fun x => { x with acquired := true, frame := .running }).mapStartTask m
  if q.2 then mapLoop m r.items q.1 else q.1

/-- the spawner wakes up inside `acquire()` of the call's own semaphore (CPython 3.12.1): its waiter entry is removed;
cancelled while the slot had already been granted: `_value += 1; _wake_up_next()`; granted: `if _value > 0:
_wake_up_next()` — both still inside `acquire()`, before `_arg_consumer` runs on -/
def wakeWaitMapSemCore (p : Pool) (m : Nat) (r : Req) : Pool :=
  let rw := removeWaiterL m r.mapSem.waiters
  let s1 : Sem := { r.mapSem with waiters := rw.2 }
  let cancelled := rw.1 == some .cancelled || r.mustCancel
  let granted := rw.1 == some .granted
  let s2 : Sem × Option Nat :=
    if granted then
      if cancelled then s1.release
      else if !s1.value.isZero then s1.wakeNext else (s1, none)
    else (s1, none)
  let p := (p.modReq m fun x => { x with mapSem := s2.1, mustCancel := false }).schedOpt s2.2
  if cancelled then p.finishMeta m .ok
  else if granted then p.mapSemGranted m r
  else p

/-- as `wakeWaitRoom`: a spurious wake-up does not resume the coroutine -/
def wakeWaitMapSem (p : Pool) (m : Nat) (r : Req) : Pool :=
  if (removeWaiterL m r.mapSem.waiters).1 == some .cancelled || r.mustCancel || (removeWaiterL m r.mapSem.waiters).1 == some .granted
  then p.wakeWaitMapSemCore m r else p

def stepMeta (p : Pool) (m : Nat) : Pool :=
  match p.reqs[m]? with
  | none => p
  | some r =>
    if !r.sched then p else
    let p := p.modReq m fun x => { x with sched := false }
    match r.frame with
    | .done => p
    | .running => p
    | .notStarted => p.stepMetaNotStarted m r
    | .waitRoom => p.wakeWaitRoom m r
    | .waitMapSem => p.wakeWaitMapSem m r

/-! ### gather -/

def childOutcome (p : Pool) : Child → Option Outcome
  | .task t => match p.tasks[t]? with | some k => k.outcome | none => none
  | .spawner m => match p.reqs[m]? with | some r => r.outcome | none => none

/-- a child task has finished (spawners: not constrained) -/
def childFinished (p : Pool) : Child → Bool
  | .task t => match p.tasks[t]? with | some k => k.phase == .finished | none => false
  | .spawner _ => true

/-- what `_done_callback` decides for the outer future -/
def gatherVerdict (G : Gather) (co : Option Outcome) : Option Outcome :=
  if !G.retExc && co == some .cancelled then some .cancelled
  else match (G.retExc, co) with
    | (false, some (.exc e)) => some (.exc e)
    | _ => if G.nfinished + 1 == G.children.length then some .ok else none

/-- `_done_callback` of gather `g` for child slot `i`; `viaHandle` = the owner is awaiting the outer future -/
def gatherChildDone (p : Pool) (g i : Nat) (viaHandle : Bool) : Pool :=
  match p.gathers[g]? with
  | none => p
  | some G =>
    match G.children[i]? with
    | none => p
    | some c =>
      let p1 := p.modGather g fun x => { x with nfinished := x.nfinished + 1 }
      if G.outer.isSome then p1 else
      match gatherVerdict G (p.childOutcome c) with
      | none => p1
      | some o =>
        -- defensive (the step functions are total over arbitrary handles): a gather completes *normally* only when
        -- every child task has finished — which is the case whenever the count says so on a run of the real loop
        if o == .ok && !(G.children.all p.childFinished) then p1 else
        let p2 := p1.modGather g fun x => { x with outer := some o }
        if viaHandle then p2.schedApi G.owner else p2

def registerChild (p : Pool) (c : Child) (g i : Nat) : Pool :=
  match c with
  | .task t => p.modTask t fun k => { k with doneCbs := k.doneCbs ++ [(g, i)] }
  | .spawner m => p.modReq m fun r => { r with doneCbs := r.doneCbs ++ [(g, i)] }

def gatherScan (g : Nat) : List Child → Nat → Pool → Pool
  | [], _, p => p
  | c :: cs, i, p =>
    gatherScan g cs (i+1) (if (p.childOutcome c).isSome then p.gatherChildDone g i false else p.registerChild c g i)

/-- the distinct failing outcomes among the already-done children of a set-ordered prefix -/
def failKinds (p : Pool) (cs : List Child) : List Outcome :=
  (cs.filterMap fun c => match p.childOutcome c with
    | some .ok => none | some o => some o | none => none).eraseDups

/-- the distinct exceptions among the already-done children of a set-ordered prefix -/
def failKindsExc (p : Pool) (cs : List Child) : List Err :=
  (cs.filterMap fun c => match p.childOutcome c with
    | some (.exc e) => some e | _ => none).eraseDups

def gatherStart (p : Pool) (children : List Child) (re : Bool) (owner : Nat) (setPrefix : Nat) : Pool × Nat :=
  let g := p.gathers.length
  let amb := !re && (failKinds p (children.take setPrefix)).length > 1
  let G : Gather := { children := children, nfinished := 0, owner := owner, retExc := re,
                      outer := (if children.isEmpty then some .ok else none) }
  let p : Pool := { p with gathers := p.gathers ++ [G], ambiguous := p.ambiguous || amb }
  (gatherScan g children 0 p, g)

def gatherOuter (p : Pool) (g : Nat) : Option Outcome :=
  match p.gathers[g]? with | some G => G.outer | none => none

/-! ### flush / gather_and_close / until_closed -/

def finishApi (p : Pool) (a : Nat) (o : Outcome) : Pool :=
  p.modApi a fun x => { x with frame := .done, outcome := some o, sched := false }

/-- only the ids that were awaited are forgotten -/
def flushAfter2 (p : Pool) (a : Nat) (o : Outcome) : Pool :=
  match o with
  | .ok =>
    let A := p.apis[a]?.getD default
    ({ p with ended := p.ended.filter (fun t => !(A.snapE.contains t || A.snapC.contains t)),
              cancelledR := p.cancelledR.filter (fun t => !A.snapC.contains t),
              lost := p.lost || p.cancelledR.any (fun t => A.snapC.contains t && p.heldB t) } : Pool).finishApi a .ok
  | o => p.finishApi a o

def flushAfter1 (p : Pool) (a : Nat) (re : Bool) (o : Outcome) : Pool :=
  match o with
  | .exc e => p.finishApi a (.exc e)
  | _ =>
    let p : Pool := { p with metaCancelled := [], reqs := p.reqs.map fun (r : Req) => { r with inCancelled := false } }
    let p := p.modApi a fun x => { x with snapE := p.ended, snapC := p.cancelledR }
    let q := p.gatherStart (p.ended.map Child.task ++ p.cancelledR.map Child.task) re a 0
    match q.1.gatherOuter q.2 with
    | some o => q.1.flushAfter2 a o
    | none => q.1.modApi a fun x => { x with frame := .gather2 q.2 }

def flushStage1 (p : Pool) (a : Nat) (re : Bool) : Pool :=
  let endedMetas := indicesWhere p.reqs fun r => r.inRunning && r.outcome.isSome
  let p : Pool := { p with reqs := p.reqs.map fun (r : Req) => if r.inRunning && r.outcome.isSome then { r with inRunning := false } else r }
  let children := p.metaCancelled.map Child.spawner ++ endedMetas.map Child.spawner
  let q := p.gatherStart children re a children.length
  match q.1.gatherOuter q.2 with
  | some o => q.1.flushAfter1 a re o
  | none => q.1.modApi a fun x => { x with frame := .gather1 q.2 }

def gacAfter2 (p : Pool) (a : Nat) (o : Outcome) : Pool :=
  match o with
  | .ok =>
    let ws := p.closedWaiters
    let p : Pool := { p with ended := [], cancelledR := [], running := [], closed := true, closedWaiters := [],
                             lost := p.lost || (p.running ++ p.cancelledR).any p.heldB }
    (ws.foldl (fun p w => p.schedApi w) p).finishApi a .ok
  | o => p.finishApi a o

/-- the first exception among the results of the meta-task gather (`return_exceptions=True` inside) -/
def firstExc (p : Pool) : List Child → Option Err
  | [] => none
  | c :: cs => match p.childOutcome c with
    | some (.exc e) => some e
    | _ => firstExc p cs

def gacAfter1 (p : Pool) (a : Nat) (re : Bool) (g : Nat) : Pool :=
  let children := match p.gathers[g]? with | some G => G.children | none => []
  match (if re then none else p.firstExc children) with
  | some e => p.finishApi a (.exc e)
  | none =>
    let p : Pool := { p with metaCancelled := [], reqs := p.reqs.map fun (r : Req) => { r with inCancelled := false, inRunning := false } }
    let q := p.gatherStart (p.ended.map Child.task ++ p.cancelledR.map Child.task ++ p.running.map Child.task) re a 0
    match q.1.gatherOuter q.2 with
    | some o => q.1.gacAfter2 a o
    | none => q.1.modApi a fun x => { x with frame := .gather2 q.2 }

/-- `gather_and_close`: lock, then wait for *every* meta task (the inner gather never raises) -/
def gacStage1 (p : Pool) (a : Nat) (re : Bool) : Pool :=
  let p : Pool := { p with locked := true }
  let runningMetas := indicesWhere p.reqs fun r => r.inRunning
  let children := p.metaCancelled.map Child.spawner ++ runningMetas.map Child.spawner
  let amb := !re && (failKindsExc p (children.take p.metaCancelled.length)).length > 1
  let p : Pool := { p with ambiguous := p.ambiguous || amb }
  let q := p.gatherStart children true a 0
  match q.1.gatherOuter q.2 with
  | some _ => q.1.gacAfter1 a re q.2
  | none => q.1.modApi a fun x => { x with frame := .gather1 q.2 }

def untilClosedStart (p : Pool) (a : Nat) : Pool :=
  if p.closed then p.finishApi a .ok
  else ({ p with closedWaiters := p.closedWaiters ++ [a] } : Pool).modApi a fun x => { x with frame := .waitClosed }

def stepApi (p : Pool) (a : Nat) : Pool :=
  match p.apis[a]? with
  | none => p
  | some A =>
    if !A.sched then p else
    let p := p.modApi a fun x => { x with sched := false }
    match A.frame, A.kind with
    | .done, _ => p
    | .notStarted, .flush re => p.flushStage1 a re
    | .notStarted, .gac re => p.gacStage1 a re
    | .notStarted, .untilClosed => p.untilClosedStart a
    | .waitClosed, _ => p.finishApi a .ok
    | .gather1 g, .flush re => match p.gatherOuter g with | some o => p.flushAfter1 a re o | none => p
    | .gather1 g, .gac re => match p.gatherOuter g with | some _ => p.gacAfter1 a re g | none => p
    | .gather2 g, .flush _ => match p.gatherOuter g with | some o => p.flushAfter2 a o | none => p
    | .gather2 g, .gac _ => match p.gatherOuter g with | some o => p.gacAfter2 a o | none => p
    | _, _ => p

def runRef (p : Pool) : Ref → Pool
  | .task t => p.stepTask t
  | .spawner m => p.stepMeta m
  | .api a => p.stepApi a
  | .gchild g i => p.gatherChildDone g i true

def addApi (p : Pool) (k : ApiKind) : Pool :=
  let a := p.apis.length
  ({ p with apis := p.apis ++ [{ kind := k, frame := .notStarted, sched := true, outcome := none }] } : Pool).emitRef (.api a)

/-- the environment completes the future task `t` is suspended on -/
def doGate (p : Pool) (t : Nat) (o : FutSt) : Pool × Res :=
  if p.wakesOnCancel t then ((p.modTask t fun k => { k with fut := o }).schedTask t, .none) else (p, .noop)

def isFull (p : Pool) : Bool := p.sem.locked

end Pool
end Taskpool
