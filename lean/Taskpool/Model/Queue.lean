/-! M2: `asyncio.Queue` (unbounded) with the `async with queue as item` context manager of
`asyncio_taskpool.queue_context.Queue`. Import-free. -/
namespace Taskpool.QueueM

inductive FSt | pending | woken | cancelled
deriving DecidableEq, Repr, Inhabited

/-- how the block of a consumer ends -/
inductive Exit | ok | exc | cancelled
deriving DecidableEq, Repr, Inhabited

inductive CPhase
  | notStarted
  | waiting                    -- inside `__aenter__`, suspended in `get()`
  | inBlock (item : Nat)       -- the body runs / is suspended on its gate
  | done (e : Exit)
deriving DecidableEq, Repr, Inhabited

structure Consumer where
  phase      : CPhase
  gate       : FSt              -- the future the body awaits (meaningful in `inBlock`)
  gateExc    : Bool             -- the gate was resolved with an exception
  suspended  : Bool             -- really suspended on a pending future
  mustCancel : Bool
  sched      : Bool
deriving Repr, Inhabited

inductive JPhase | notStarted | waiting | done
deriving DecidableEq, Repr, Inhabited

structure Joiner where
  phase : JPhase
  fut   : FSt
  sched : Bool
deriving Repr, Inhabited

inductive Ref | consumer (c : Nat) | joiner (j : Nat)
deriving DecidableEq, Repr, Inhabited

inductive Ev
  | got (c item : Nat) | exited (c : Nat) | taskDone (u : Nat) | valueError | sawCancel (c : Nat) | joined (j : Nat)
deriving DecidableEq, Repr, Inhabited

structure Q where
  items      : List Nat
  unfinished : Nat
  finished   : Bool                    -- the `_finished` event
  getters    : List Nat                -- `_getters`: consumer ids; the state of each future is the consumer's `gate`
  evWaiters  : List Nat                -- waiters of `_finished`: joiner ids with pending futures
  consumers  : List Consumer
  joiners    : List Joiner
  puts       : Nat                     -- ghost: number of puts
  exits      : Nat                     -- ghost: number of block exits
  emit       : List Ref
  log        : List Ev
deriving Repr, Inhabited

def Q.init : Q :=
  { items := [], unfinished := 0, finished := true, getters := [], evWaiters := [], consumers := [], joiners := [],
    puts := 0, exits := 0, emit := [], log := [] }

namespace Q

def modC (q : Q) (c : Nat) (f : Consumer → Consumer) : Q := { q with consumers := q.consumers.modify c f }
def modJ (q : Q) (j : Nat) (f : Joiner → Joiner) : Q := { q with joiners := q.joiners.modify j f }
def logEv (q : Q) (e : Ev) : Q := { q with log := q.log ++ [e] }
def schedC (q : Q) (c : Nat) : Q := { (q.modC c fun x => { x with sched := true }) with emit := q.emit ++ [.consumer c] }
def schedJ (q : Q) (j : Nat) : Q := { (q.modJ j fun x => { x with sched := true }) with emit := q.emit ++ [.joiner j] }

def gateOf (q : Q) (c : Nat) : FSt := (q.consumers[c]?.map (·.gate)).getD .cancelled

/-- `_wakeup_next(self._getters)`: pop getters until one that is not done is found and resolve it -/
def wakeupNext (q : Q) : List Nat → List Nat × Option Nat
  | [] => ([], none)
  | c :: rest => if q.gateOf c = .pending then (rest, some c) else wakeupNext q rest

def wakeGetter (q : Q) : Q :=
  let r := wakeupNext q q.getters
  let q : Q := { q with getters := r.1 }
  match r.2 with
  | none => q
  | some c => (q.modC c fun x => { x with gate := .woken, suspended := false }).schedC c

/-- `put_nowait` -/
def put (q : Q) (x : Nat) : Q :=
  ({ q with items := q.items ++ [x], unfinished := q.unfinished + 1, finished := false, puts := q.puts + 1 } : Q).wakeGetter

/-- `_finished.set()`: every waiting joiner's future is resolved -/
def setFinished (q : Q) : Q :=
  q.evWaiters.foldl (fun q j => (q.modJ j fun x => { x with fut := .woken }).schedJ j) { q with finished := true }

/-- `task_done()` when the counter is positive -/
def taskDoneOk (q : Q) : Q :=
  let q1 : Q := ({ q with unfinished := q.unfinished - 1 } : Q).logEv (.taskDone (q.unfinished - 1))
  if q1.unfinished = 0 then q1.setFinished else q1

/-- `task_done()` via `item_processed()` -/
def taskDone (q : Q) : Q :=
  if q.unfinished = 0 then q.logEv .valueError else q.taskDoneOk

/-- the body of the block is suspended on its gate; a pending `must_cancel` cancels it at once -/
def enterBlock (q : Q) (c : Nat) (item : Nat) : Q :=
  let q := q.logEv (.got c item)
  match q.consumers[c]? with
  | none => q
  | some k =>
    if k.mustCancel then
      (q.modC c fun x => { x with phase := .inBlock item, gate := .cancelled, suspended := false, mustCancel := false }).schedC c
    else q.modC c fun x => { x with phase := .inBlock item, gate := .pending, gateExc := false, suspended := true }

/-- `get()`: loop while empty -/
def tryGet (q : Q) (c : Nat) : Q :=
  match q.items with
  | [] =>
    -- wait: a new getter future
    match q.consumers[c]? with
    | none => q
    | some k =>
      if k.mustCancel then
        -- the future is cancelled at once; the wake-up will run the `except` clause
        ({ q with getters := q.getters ++ [c] } : Q).modC c
          (fun x => { x with phase := .waiting, gate := .cancelled, suspended := false, mustCancel := false }) |>.schedC c
      else
        ({ q with getters := q.getters ++ [c] } : Q).modC c fun x => { x with phase := .waiting, gate := .pending, suspended := true }
  | x :: rest => ({ q with items := rest } : Q).enterBlock c x

/-- the block is left: `__aexit__` calls `item_processed()` -/
def exitBlock (q : Q) (c : Nat) (e : Exit) : Q :=
  ((({ q with exits := q.exits + 1 } : Q).logEv (.exited c)).taskDone).modC c fun x => { x with phase := .done e, suspended := false }

/-- a consumer wakes up inside `get()` -/
def wakeWaiting (q : Q) (c : Nat) (k : Consumer) : Q :=
  let cancelP := k.gate == .cancelled || k.mustCancel
  let q := q.modC c fun x => { x with mustCancel := false, suspended := false }
  if cancelP then
    -- `except: getter.cancel(); remove from _getters; if not empty and not getter.cancelled(): wake next; raise`
    let wasResolved := k.gate == .woken
    let q : Q := { q with getters := q.getters.erase c }
    let q := if !q.items.isEmpty && wasResolved then q.wakeGetter else q
    (q.logEv (.sawCancel c)).modC c fun x => { x with phase := .done .cancelled }
  else q.tryGet c

def stepConsumer (q : Q) (c : Nat) : Q :=
  match q.consumers[c]? with
  | none => q
  | some k =>
    if !k.sched then q else
    let q := q.modC c fun x => { x with sched := false }
    match k.phase with
    | .notStarted =>
      if k.mustCancel then q.modC c fun x => { x with phase := .done .cancelled, mustCancel := false }
      else q.tryGet c
    | .waiting => q.wakeWaiting c k
    | .inBlock _ =>
      let q := q.modC c fun x => { x with mustCancel := false }
      if k.gate == .cancelled || k.mustCancel then (q.logEv (.sawCancel c)).exitBlock c .cancelled
      else if k.gateExc then q.exitBlock c .exc
      else q.exitBlock c .ok
    | .done _ => q

/-- `Task.cancel()` on a consumer -/
def cancelConsumer (q : Q) (c : Nat) : Q :=
  match q.consumers[c]? with
  | none => q
  | some k =>
    match k.phase with
    | .done _ => q
    | .waiting =>
      if k.suspended && k.gate == .pending then
        (q.modC c fun x => { x with gate := .cancelled, suspended := false }).schedC c
      else q.modC c fun x => { x with mustCancel := true }
    | .inBlock _ =>
      if k.suspended && k.gate == .pending then
        (q.modC c fun x => { x with gate := .cancelled, suspended := false }).schedC c
      else q.modC c fun x => { x with mustCancel := true }
    | .notStarted => q.modC c fun x => { x with mustCancel := true }

def gate (q : Q) (c : Nat) (exc : Bool) : Q × Bool :=
  match q.consumers[c]? with
  | none => (q, false)
  | some k =>
    match k.phase with
    | .inBlock _ =>
      if k.suspended && k.gate == .pending then
        ((q.modC c fun x => { x with gate := .woken, gateExc := exc, suspended := false }).schedC c, true)
      else (q, false)
    | _ => (q, false)

def spawn (q : Q) : Q :=
  let c := q.consumers.length
  { q with consumers := q.consumers ++ [{ phase := .notStarted, gate := .pending, gateExc := false, suspended := false,
                                          mustCancel := false, sched := true }],
           emit := q.emit ++ [.consumer c] }

def join (q : Q) : Q :=
  let j := q.joiners.length
  { q with joiners := q.joiners ++ [{ phase := .notStarted, fut := .pending, sched := true }], emit := q.emit ++ [.joiner j] }

def stepJoiner (q : Q) (j : Nat) : Q :=
  match q.joiners[j]? with
  | none => q
  | some k =>
    if !k.sched then q else
    let q := q.modJ j fun x => { x with sched := false }
    match k.phase with
    | .notStarted =>
      if q.unfinished > 0 && !q.finished then
        ({ q with evWaiters := q.evWaiters ++ [j] } : Q).modJ j fun x => { x with phase := .waiting }
      else (q.logEv (.joined j)).modJ j fun x => { x with phase := .done }
    | .waiting =>
      (({ q with evWaiters := q.evWaiters.erase j } : Q).logEv (.joined j)).modJ j fun x => { x with phase := .done }
    | .done => q

def runRef (q : Q) : Ref → Q
  | .consumer c => q.stepConsumer c
  | .joiner j => q.stepJoiner j

end Q
end Taskpool.QueueM
