/-! M2: `asyncio.Queue` (unbounded, or bounded by `maxsize`) with the `async with queue as item` context manager of
`asyncio_taskpool.queue_context.Queue`. Import-free.

The state has two layers.
* `K`, the *accounting core*: the item deque, `_unfinished_tasks`, the `_finished` event with its waiters, the
  join tasks, what every consumer is doing (`CPhase`) and the ghost counters of C20.  Everything C20 talks about.
* the *asyncio shell* around it (`Q`): the `_getters` deque, the per-task bookkeeping of the event loop
  (`Aux`: state of the awaited future, `must_cancel`, scheduled), the ready queue and the observation log.
  The shell decides *which* core operation happens; it never edits the core by hand.

A queue is created with a `maxsize` (`K.initN n`; `0` = unbounded, `K.init`).  On a bounded queue the synchronous
`put_nowait` of non-task code raises `QueueFull` when the queue is full (nothing changes), and *producer tasks*
(`await queue.put(x)`) wait in the `_putters` deque while it is full; `get_nowait()` wakes the next putter.  An item counts
as *put* when it enters the queue (`_put` + `_unfinished_tasks += 1` inside `put_nowait`). -/
namespace Taskpool.QueueM

inductive FSt | pending | woken | cancelled
deriving DecidableEq, Repr, Inhabited

/-- how the block of a consumer ends -/
inductive Exit | ok | exc | cancelled
deriving DecidableEq, Repr, Inhabited

inductive CPhase
  | notStarted
  | waiting                        -- inside `__aenter__`, suspended in `get()`
  | inBlock (item : Nat)           -- the body runs / is suspended on its gate
  | done (e : Exit) (took : Bool)  -- `took`: an item had been handed to its block
deriving DecidableEq, Repr, Inhabited

/-- what a producer task (`await queue.put(item)`) is doing -/
inductive PPhase
  | notStarted
  | waiting                        -- inside `put()`, suspended on a putter future (the queue was full)
  | done (put : Bool)              -- `put`: the item entered the queue; `false`: cancelled before it did
deriving DecidableEq, Repr, Inhabited

/-- the part of a producer C20 talks about -/
structure Prod where
  item  : Nat
  phase : PPhase
deriving DecidableEq, Repr, Inhabited

/-- the item of this producer has entered the queue -/
def putDone : PPhase → Bool
  | .done true => true
  | _ => false

/-- not yet through `put()`: not started, or waiting for a free slot -/
def prePut : PPhase → Bool
  | .notStarted => true
  | .waiting => true
  | _ => false

def isPDone : PPhase → Bool
  | .done _ => true
  | _ => false

def Prod.putDone (p : Prod) : Bool := QueueM.putDone p.phase

/-- the part of a consumer C20 talks about -/
structure Core where
  phase : CPhase
  marks : Nat                      -- ghost: `task_done()` calls made by this consumer's `__aexit__`
deriving DecidableEq, Repr, Inhabited

/-! vocabulary of the C20 statements -/

def isInBlock : CPhase → Bool
  | .inBlock _ => true
  | _ => false

/-- not yet handed an item: not started, or waiting inside `get()` -/
def preBlock : CPhase → Bool
  | .notStarted => true
  | .waiting => true
  | _ => false

/-- the consumer was handed an item and has left its block -/
def tookDone : CPhase → Bool
  | .done _ true => true
  | _ => false

def Core.inBlock (x : Core) : Bool := isInBlock x.phase
def Core.tookDone (x : Core) : Bool := QueueM.tookDone x.phase

/-- event-loop bookkeeping of a consumer task -/
structure Aux where
  gate       : FSt                 -- the future the task awaits (the getter in `waiting`, the body's gate in `inBlock`)
  gateExc    : Bool                -- the gate was resolved with an exception
  suspended  : Bool                -- really suspended on a pending future
  mustCancel : Bool
  sched      : Bool
deriving Repr, Inhabited

inductive JPhase | notStarted | waiting | done
deriving DecidableEq, Repr, Inhabited

structure Joiner where
  phase : JPhase
  fut   : FSt                      -- its waiter future of the `_finished` event
  sched : Bool
deriving DecidableEq, Repr, Inhabited

inductive Ref | consumer (c : Nat) | joiner (j : Nat) | producer (p : Nat)
deriving DecidableEq, Repr, Inhabited

inductive Ev
  | got (c item : Nat) | exited (c : Nat) | taskDone (u : Nat) | valueError | sawCancel (c : Nat) | joined (j : Nat)
  | handTook (item : Nat)          -- non-task code took `item` with `get_nowait()` (it marks it by hand at once)
  | putDone (p item : Nat)         -- `await queue.put(item)` of producer `p` returned
  | pCancel (p : Nat)              -- `CancelledError` left `put()` of producer `p`
deriving DecidableEq, Repr, Inhabited

/-! ## the accounting core -/

structure K where
  items       : List Nat
  unfinished  : Nat                -- `_unfinished_tasks`
  finished    : Bool               -- the `_finished` event
  evWaiters   : List Nat           -- waiters of `_finished`: joiner ids (their futures may be resolved already)
  cores       : List Core
  joiners     : List Joiner
  puts        : Nat                -- ghost: number of items that entered the queue
  exits       : Nat                -- ghost: number of block exits
  takes       : Nat                -- ghost: number of items taken with `get_nowait()` and marked by hand
  tdCalls     : Nat                -- ghost: number of `task_done()` calls
  valueErrors : Nat                -- ghost: how many of them raised `ValueError`
  maxsize     : Nat                -- `_maxsize`; 0 = unbounded.  No operation changes it
  prods       : List Prod          -- the producer tasks
  hputs       : Nat                -- ghost: number of successful `put_nowait` calls by non-task code
deriving Repr, Inhabited

/-- `Queue(maxsize=n)` -/
def K.initN (n : Nat) : K :=
  { items := [], unfinished := 0, finished := true, evWaiters := [], cores := [], joiners := [],
    puts := 0, exits := 0, takes := 0, tdCalls := 0, valueErrors := 0, maxsize := n, prods := [], hputs := 0 }

/-- `Queue()` -/
def K.init : K := K.initN 0

namespace K

def setPhase (k : K) (c : Nat) (p : CPhase) : K := { k with cores := k.cores.modify c fun x => { x with phase := p } }
def addMark (k : K) (c : Nat) : K := { k with cores := k.cores.modify c fun x => { x with marks := x.marks + 1 } }

/-- `full()` -/
def full (k : K) : Bool := decide (0 < k.maxsize) && decide (k.maxsize ≤ k.items.length)

/-- `put_nowait` by non-task code, on a queue that is not full: append, count, clear the event -/
def put (k : K) (x : Nat) : K :=
  { k with items := k.items ++ [x], unfinished := k.unfinished + 1, finished := false, puts := k.puts + 1,
           hputs := k.hputs + 1 }

def setPP (k : K) (j : Nat) (p : PPhase) : K := { k with prods := k.prods.modify j fun x => { x with phase := p } }

/-- a new producer task `await queue.put(x)` -/
def produce (k : K) (x : Nat) : K := { k with prods := k.prods ++ [{ item := x, phase := .notStarted }] }

/-- `put()` finds the queue full: a putter future is awaited -/
def pwait (k : K) (j : Nat) : K := k.setPP j .waiting

/-- `put()` finds the queue not full: `put_nowait(item)` of producer `j` — append, count, clear the event -/
def pput (k : K) (j : Nat) : K :=
  match k.prods[j]? with
  | none => k
  | some p =>
    ({ k with items := k.items ++ [p.item], unfinished := k.unfinished + 1, finished := false, puts := k.puts + 1 } : K).setPP j
      (.done true)

/-- `CancelledError` leaves `put()`: nothing was put -/
def pabort (k : K) (j : Nat) : K := k.setPP j (.done false)

def spawn (k : K) : K := { k with cores := k.cores ++ [{ phase := .notStarted, marks := 0 }] }
def join (k : K) : K := { k with joiners := k.joiners ++ [{ phase := .notStarted, fut := .pending, sched := true }] }

/-- `get()` finds the queue empty: a getter future is awaited -/
def wait (k : K) (c : Nat) : K := k.setPhase c .waiting

/-- `get_nowait()` + `__aenter__` returns: the item is handed to the block -/
def take (k : K) (c : Nat) : K :=
  match k.items with
  | [] => k
  | x :: rest => ({ k with items := rest } : K).setPhase c (.inBlock x)

/-- `CancelledError` leaves `get()`: nothing was taken -/
def abort (k : K) (c : Nat) : K := k.setPhase c (.done .cancelled false)

/-- would `_finished.set()` resolve the future of joiner `j`? -/
def wakes (k : K) (j : Nat) (x : Joiner) : Bool := k.evWaiters.contains j && x.fut == .pending

/-- the wake-up handles `_finished.set()` queues, in waiter order -/
def wokenRefs (k : K) : List Ref :=
  (k.evWaiters.filter fun j => match k.joiners[j]? with | some x => x.fut == .pending | none => false).map .joiner

/-- `_finished.set()`: every waiter future that is still pending is resolved -/
def setFinished (k : K) : K :=
  { k with finished := true,
           joiners := k.joiners.mapIdx fun j x => if k.wakes j x then { x with fut := .woken, sched := true } else x }

/-- `task_done()` when the counter is positive -/
def taskDoneOk (k : K) : K :=
  let k1 : K := { k with unfinished := k.unfinished - 1 }
  if k1.unfinished = 0 then k1.setFinished else k1

/-- `task_done()` -/
def taskDone (k : K) : K :=
  let k : K := { k with tdCalls := k.tdCalls + 1 }
  if k.unfinished = 0 then { k with valueErrors := k.valueErrors + 1 } else k.taskDoneOk

/-- the block of consumer `c` is left: `__aexit__` calls `item_processed()` -/
def exit (k : K) (c : Nat) (e : Exit) : K :=
  ((({ k with exits := k.exits + 1 } : K).taskDone).addMark c).setPhase c (.done e true)

/-- a *hand mark*: code outside every consumer task calls `get_nowait()` — `QueueEmpty` on an empty queue, nothing
changes — and marks the item it got with `item_processed()`, i.e. `task_done()`, at once.  One step. -/
def handTake (k : K) : K :=
  match k.items with
  | [] => k
  | _ :: rest => ({ k with items := rest, takes := k.takes + 1 } : K).taskDone

/-- does this step of joiner `j` make `join()` return? -/
def joins (k : K) (j : Nat) : Bool :=
  match k.joiners[j]? with
  | none => false
  | some x => x.sched && (match x.phase with
      | .notStarted => !(k.unfinished > 0 && !k.finished)
      | .waiting => true
      | .done => false)

def modJ (k : K) (j : Nat) (f : Joiner → Joiner) : K := { k with joiners := k.joiners.modify j f }

/-- first step of `join()`: `if self._unfinished_tasks > 0: await self._finished.wait()` -/
def joinStart (k : K) (j : Nat) : K :=
  if k.unfinished > 0 && !k.finished then
    ({ k with evWaiters := k.evWaiters ++ [j] } : K).modJ j fun x => { x with phase := .waiting, sched := false }
  else k.modJ j fun x => { x with phase := .done, sched := false }

/-- wake-up inside `Event.wait()`: the waiter removes itself, `join()` returns -/
def joinWake (k : K) (j : Nat) : K :=
  ({ k with evWaiters := k.evWaiters.erase j } : K).modJ j fun x => { x with phase := .done, sched := false }

def stepJoiner (k : K) (j : Nat) : K :=
  match k.joiners[j]? with
  | none => k
  | some x =>
    if !x.sched then k else
    match x.phase with
    | .notStarted => k.joinStart j
    | .waiting => k.joinWake j
    | .done => k.modJ j fun x => { x with sched := false }

end K

/-! ## the asyncio shell -/

structure Q where
  k       : K
  getters : List Nat               -- `_getters`: consumer ids; the state of each future is the consumer's `gate`
  aux     : List Aux
  ready   : List Ref               -- the loop's ready queue
  log     : List Ev                -- cumulative observation log
  putters : List Nat               -- `_putters`: producer ids; the state of each future is the producer's `gate`
  paux    : List Aux               -- event-loop bookkeeping of the producer tasks (`gate` = the putter future)
deriving Repr, Inhabited

/-- the world around `Queue(maxsize=n)` -/
def Q.initN (n : Nat) : Q := { k := K.initN n, getters := [], aux := [], ready := [], log := [], putters := [], paux := [] }

/-- the world around `Queue()` -/
def Q.init : Q := Q.initN 0

inductive Input
  | put (x : Nat)                  -- non-task code: `put_nowait(x)` (`QueueFull` on a full queue: nothing changes)
  | spawn                          -- a new consumer task `async with queue as item: await gate`
  | join                           -- a new task awaiting `queue.join()`
  | cancel (c : Nat)               -- `Task.cancel()` on consumer `c`
  | gate (c : Nat) (exc : Bool)    -- the body of consumer `c` finishes normally / raises
  | take                           -- non-task code: `get_nowait()`, then `item_processed()` for the item it got
  | run (i : Nat)                  -- the loop executes the `i`-th ready handle
  | produce (x : Nat)              -- a new producer task `await queue.put(x)`
  | cancelp (p : Nat)              -- `Task.cancel()` on producer `p`
deriving DecidableEq, Repr, Inhabited

namespace Q

def setK (q : Q) (k : K) : Q := { q with k := k }
def modA (q : Q) (c : Nat) (f : Aux → Aux) : Q := { q with aux := q.aux.modify c f }
def logEv (q : Q) (e : Ev) : Q := { q with log := q.log ++ [e] }
def schedC (q : Q) (c : Nat) : Q := { (q.modA c fun x => { x with sched := true }) with ready := q.ready ++ [.consumer c] }

def modP (q : Q) (j : Nat) (f : Aux → Aux) : Q := { q with paux := q.paux.modify j f }
def schedP (q : Q) (j : Nat) : Q := { (q.modP j fun x => { x with sched := true }) with ready := q.ready ++ [.producer j] }

def gateOf (q : Q) (c : Nat) : FSt := (q.aux[c]?.map (·.gate)).getD .cancelled
def pgateOf (q : Q) (j : Nat) : FSt := (q.paux[j]?.map (·.gate)).getD .cancelled

/-- `_wakeup_next(waiters)`: pop waiters until one that is not done is found (it is resolved by the caller); `g` = the
state of the future of each waiter -/
def wakeupNextBy (g : Nat → FSt) : List Nat → List Nat × Option Nat
  | [] => ([], none)
  | c :: rest => if g c = .pending then (rest, some c) else wakeupNextBy g rest

/-- `_wakeup_next(self._getters)`: pop getters until one that is not done is found and resolve it -/
def wakeupNext (q : Q) : List Nat → List Nat × Option Nat := wakeupNextBy q.gateOf

def wakeGetter (q : Q) : Q :=
  let r := wakeupNext q q.getters
  let q : Q := { q with getters := r.1 }
  match r.2 with
  | none => q
  | some c => (q.modA c fun x => { x with gate := .woken, suspended := false }).schedC c

/-- `_wakeup_next(self._putters)` -/
def wakePutter (q : Q) : Q :=
  let r := wakeupNextBy q.pgateOf q.putters
  let q : Q := { q with putters := r.1 }
  match r.2 with
  | none => q
  | some j => (q.modP j fun x => { x with gate := .woken, suspended := false }).schedP j

/-- `put_nowait` by non-task code: `QueueFull` on a full queue (nothing changes) -/
def put (q : Q) (x : Nat) : Q := if q.k.full then q else (q.setK (q.k.put x)).wakeGetter

/-- the body of the block is suspended on its gate; a pending `must_cancel` cancels it at once -/
def armGate (q : Q) (c : Nat) : Q :=
  match q.aux[c]? with
  | none => q
  | some a =>
    if a.mustCancel then
      (q.modA c fun x => { x with gate := .cancelled, suspended := false, mustCancel := false }).schedC c
    else q.modA c fun x => { x with gate := .pending, gateExc := false, suspended := true }

/-- wait in `get()`: a new getter future; a pending `must_cancel` cancels it at once (the wake-up will run the
`except` clause) -/
def waitGetter (q : Q) (c : Nat) : Q :=
  let q : Q := { q with getters := q.getters ++ [c] }
  match q.aux[c]? with
  | none => q
  | some a =>
    if a.mustCancel then
      (q.modA c fun x => { x with gate := .cancelled, suspended := false, mustCancel := false }).schedC c
    else q.modA c fun x => { x with gate := .pending, suspended := true }

/-- `get()`: loop while empty -/
def tryGet (q : Q) (c : Nat) : Q :=
  match q.k.items with
  | [] => (q.setK (q.k.wait c)).waitGetter c
  | x :: _ => (((q.setK (q.k.take c)).wakePutter).logEv (.got c x)).armGate c

/-- the block is left: `__aexit__` calls `item_processed()`, i.e. `task_done()` -/
def exitBlock (q : Q) (c : Nat) (e : Exit) : Q :=
  ({ q with k := q.k.exit c e,
            ready := q.ready ++ (if q.k.unfinished = 1 then q.k.wokenRefs else []),
            log := q.log ++ [.exited c, if q.k.unfinished = 0 then .valueError else .taskDone (q.k.unfinished - 1)] } : Q).modA c
    fun x => { x with suspended := false }

/-- `take`: `item = q.get_nowait()` (pops the head and wakes the next putter; the getters are not touched) followed by
`q.item_processed()`; on an empty queue `QueueEmpty` is raised and nothing changes -/
def handTake (q : Q) : Q :=
  match q.k.items with
  | [] => q
  | x :: _ =>
    let q1 := q.wakePutter
    { q1 with k := q.k.handTake,
              ready := q1.ready ++ (if q.k.unfinished = 1 then q.k.wokenRefs else []),
              log := q.log ++ [.handTook x, if q.k.unfinished = 0 then .valueError else .taskDone (q.k.unfinished - 1)] }

/-- `except: getter.cancel(); remove from _getters; if not empty and not getter.cancelled(): wake next; raise` -/
def abortGet (q : Q) (c : Nat) (wasResolved : Bool) : Q :=
  let q : Q := { q with getters := q.getters.erase c }
  let q := if !q.k.items.isEmpty && wasResolved then q.wakeGetter else q
  (q.logEv (.sawCancel c)).setK (q.k.abort c)

/-- a consumer wakes up inside `get()` -/
def wakeWaiting (q : Q) (c : Nat) (a : Aux) : Q :=
  let q' := q.modA c fun x => { x with mustCancel := false, suspended := false }
  if a.gate == .cancelled || a.mustCancel then q'.abortGet c (a.gate == .woken) else q'.tryGet c

/-- a consumer wakes up inside its block -/
def leaveBlock (q : Q) (c : Nat) (a : Aux) : Q :=
  let q := q.modA c fun x => { x with mustCancel := false }
  if a.gate == .cancelled || a.mustCancel then (q.logEv (.sawCancel c)).exitBlock c .cancelled
  else if a.gateExc then q.exitBlock c .exc
  else q.exitBlock c .ok

/-- first step of a consumer task; a task cancelled before it never runs its body -/
def startConsumer (q : Q) (c : Nat) (a : Aux) : Q :=
  if a.mustCancel then (q.modA c fun x => { x with mustCancel := false }).setK (q.k.abort c)
  else q.tryGet c

def stepConsumer (q : Q) (c : Nat) : Q :=
  match q.k.cores[c]?, q.aux[c]? with
  | some kc, some a =>
    if !a.sched then q else
    let q := q.modA c fun x => { x with sched := false }
    match kc.phase with
    | .notStarted => q.startConsumer c a
    | .waiting => q.wakeWaiting c a
    | .inBlock _ => q.leaveBlock c a
    | .done _ _ => q
  | _, _ => q

def isDone : CPhase → Bool
  | .done _ _ => true
  | _ => false

/-- `Task.cancel()` on a consumer -/
def cancelConsumer (q : Q) (c : Nat) : Q :=
  match q.k.cores[c]?, q.aux[c]? with
  | some kc, some a =>
    if isDone kc.phase then q
    else if a.suspended && a.gate == .pending then
      (q.modA c fun x => { x with gate := .cancelled, suspended := false }).schedC c
    else q.modA c fun x => { x with mustCancel := true }
  | _, _ => q

/-- can the harness resolve the gate of consumer `c`? -/
def canGate (q : Q) (c : Nat) : Bool :=
  match q.k.cores[c]?, q.aux[c]? with
  | some kc, some a => (match kc.phase with | .inBlock _ => true | _ => false) && a.suspended && a.gate == .pending
  | _, _ => false

def gate (q : Q) (c : Nat) (exc : Bool) : Q :=
  if q.canGate c then (q.modA c fun x => { x with gate := .woken, gateExc := exc, suspended := false }).schedC c else q

/-! ### producer tasks: `await queue.put(x)` -/

/-- wait in `put()`: a new putter future -/
def waitPutter (q : Q) (j : Nat) : Q :=
  ({ q with putters := q.putters ++ [j] } : Q).modP j fun x => { x with gate := .pending, suspended := true }

/-- `put()`: loop while full, then `put_nowait` (which wakes the next getter) -/
def tryPut (q : Q) (j x : Nat) : Q :=
  if q.k.full then (q.setK (q.k.pwait j)).waitPutter j
  else ((q.setK (q.k.pput j)).wakeGetter).logEv (.putDone j x)

/-- `except: putter.cancel(); remove from _putters; if not full and not putter.cancelled(): wake next; raise` -/
def abortPut (q : Q) (j : Nat) (wasResolved : Bool) : Q :=
  let q : Q := ({ q with putters := q.putters.erase j } : Q).setK (q.k.pabort j)
  let q := if !q.k.full && wasResolved then q.wakePutter else q
  q.logEv (.pCancel j)

/-- a producer wakes up inside `put()` -/
def wakeProducer (q : Q) (j : Nat) (a : Aux) (x : Nat) : Q :=
  let q' := q.modP j fun y => { y with mustCancel := false, suspended := false }
  if a.gate == .cancelled || a.mustCancel then q'.abortPut j (a.gate == .woken) else q'.tryPut j x

/-- first step of a producer task; a task cancelled before it never runs its body -/
def startProducer (q : Q) (j : Nat) (a : Aux) (x : Nat) : Q :=
  if a.mustCancel then (q.modP j fun y => { y with mustCancel := false }).setK (q.k.pabort j)
  else q.tryPut j x

def stepProducer (q : Q) (j : Nat) : Q :=
  match q.k.prods[j]?, q.paux[j]? with
  | some p, some a =>
    if !a.sched then q else
    let q := q.modP j fun x => { x with sched := false }
    match p.phase with
    | .notStarted => q.startProducer j a p.item
    | .waiting => q.wakeProducer j a p.item
    | .done _ => q
  | _, _ => q

/-- `Task.cancel()` on a producer -/
def cancelProducer (q : Q) (j : Nat) : Q :=
  match q.k.prods[j]?, q.paux[j]? with
  | some p, some a =>
    if isPDone p.phase then q
    else if a.suspended && a.gate == .pending then
      (q.modP j fun x => { x with gate := .cancelled, suspended := false }).schedP j
    else q.modP j fun x => { x with mustCancel := true }
  | _, _ => q

def produce (q : Q) (x : Nat) : Q :=
  { q with k := q.k.produce x,
           paux := q.paux ++ [{ gate := .pending, gateExc := false, suspended := false, mustCancel := false, sched := true }],
           ready := q.ready ++ [.producer q.paux.length] }

def spawn (q : Q) : Q :=
  { q with k := q.k.spawn,
           aux := q.aux ++ [{ gate := .pending, gateExc := false, suspended := false, mustCancel := false, sched := true }],
           ready := q.ready ++ [.consumer q.aux.length] }

def join (q : Q) : Q := { q with k := q.k.join, ready := q.ready ++ [.joiner q.k.joiners.length] }

def stepJoiner (q : Q) (j : Nat) : Q :=
  { q with k := q.k.stepJoiner j, log := q.log ++ (if q.k.joins j then [.joined j] else []) }

def runRef (q : Q) : Ref → Q
  | .consumer c => q.stepConsumer c
  | .joiner j => q.stepJoiner j
  | .producer j => q.stepProducer j

def step (q : Q) : Input → Q
  | .put x => q.put x
  | .spawn => q.spawn
  | .join => q.join
  | .cancel c => q.cancelConsumer c
  | .gate c exc => q.gate c exc
  | .take => q.handTake
  | .produce x => q.produce x
  | .cancelp j => q.cancelProducer j
  | .run i =>
    match q.ready[i]? with
    | none => q
    | some r => ({ q with ready := q.ready.eraseIdx i } : Q).runRef r

/-- the state after a history -/
def run (q : Q) (ins : List Input) : Q := ins.foldl step q

end Q
end Taskpool.QueueM
