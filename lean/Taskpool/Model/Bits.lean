import Taskpool.Model.World
/-! Boolean versions of the invariants used in the theorems, evaluated by the driver on the model state the
implementation was just shown to agree with (DESIGN §3.2 "invariant bits"). -/
namespace Taskpool

/-- slot conservation for one pool, against the size it was constructed with -/
def Pool.slotBit (p : Pool) (size0 : Cap) : Bool :=
  match size0, p.sem.value with
  | .fin n, .fin v =>
    v + p.tasks.countP (fun t => !t.released) + p.sem.waiters.countP (fun w => w.st = .granted) == n
  | .inf, .inf => true
  | _, _ => false

def Pool.phaseBit (p : Pool) : Bool :=
  p.tasks.all fun t => !(t.phase == .created || t.phase == .inWorker || t.phase == .inCancelCb) || !t.released

def invBits (w : World) : String :=
  String.join (w.pools.zipIdx.map fun (p, i) =>
    (if p.slotBit ((w.cfgs[i]?.map (·.size0)).getD .inf) then "1" else "0") ++ (if p.phaseBit then "1" else "0") ++
    (if p.lost then "0" else "1"))

end Taskpool
