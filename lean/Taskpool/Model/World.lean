import Taskpool.Model.Pool
/-! External operations, several pools in one event loop, the ready queue, and the observation function. -/
namespace Taskpool

/-- an operation addressed to one pool -/
inductive Op
  | apply (num : Int) (group : Option String) (sp : SpawnSpec)
  | map (stars : Nat) (items : List Item) (nc : Int) (group : Option String) (sp : SpawnSpec)
  | start (num : Int)
  | stop (n : Int)
  | stopAll
  | cancel (ids : List Int)
  | cancelGroup (g : String)
  | cancelAll
  | lock | unlock
  | setSize (v : Int)
  | getIds (names : List String)
  | flush (re : Bool) | gac (re : Bool) | untilClosed
  | gate (t : Nat) (o : FutSt)
deriving Repr

namespace Pool

/-- `get_group_ids(*names)` -/
def getGroupIds (p : Pool) : List String → Option (List Nat)
  | [] => some []
  | n :: rest =>
    match p.groupIds n with
    | none => none
    | some ids => match getGroupIds p rest with | none => none | some more => some (ids ++ more)

def doLock (p : Pool) : Pool := { p with locked := true }
def doUnlock (p : Pool) : Pool := { p with locked := false }

/-- one external (non-handle) operation on a pool -/
def applyOp (p : Pool) : Op → Pool × Res
  | .apply num group sp => p.doApply num group sp
  | .map stars items nc group sp => p.doMap stars items nc group sp
  | .start num => p.doStart num
  | .stop n => p.doStop n
  | .stopAll => p.doStop p.running.length
  | .cancel ids => p.doCancel ids
  | .cancelGroup g => p.doCancelGroup g
  | .cancelAll => p.doCancelAll
  | .lock => (p.doLock, .none)
  | .unlock => (p.doUnlock, .none)
  | .setSize v => p.doSetSize v
  | .getIds names => (p, match p.getGroupIds names with | some ids => .idset ids | none => .err .groupNotFound)
  | .flush re => (p.addApi (.flush re), .none)
  | .gac re => (p.addApi (.gac re), .none)
  | .untilClosed => (p.addApi .untilClosed, .none)
  | .gate t o => p.doGate t o

end Pool

/-- an input of the whole system: a constructor call, an operation on pool `i` (with the cancel orders the
implementation exhibited during it, DESIGN §3.5), or the execution of the `k`-th ready handle of the loop -/
inductive WOp
  | mkpool (size : Option Int) (simple : Option SpawnSpec) (name : Option String)   -- `none` = unbounded
  | on (i : Nat) (orders : List (List Nat)) (op : Op)
  | run (k : Nat) (orders : List (List Nat))
deriving Repr

/-- what a pool was constructed with; never changes afterwards (kept beside the pool, not inside it, so that no
step function can touch it) -/
structure Cfg where
  size0    : Cap                     -- the `pool_size` argument
  isSimple : Bool                    -- `SimpleTaskPool` rather than `TaskPool`
  name     : Option String           -- the `name` argument
  idx      : Nat                     -- index in the class-level list of pools
deriving Repr, DecidableEq

/-- `str(pool)` -/
def Cfg.str (c : Cfg) : String :=
  (if c.isSimple then "SimpleTaskPool-" else "TaskPool-") ++
    (match c.name with
     | some n => if n.isEmpty then toString c.idx else n
     | none => toString c.idx)

structure World where
  pools   : List Pool
  cfgs    : List Cfg                 -- parallel to `pools`
  ready   : List (Nat × Ref)
  counter : Nat                      -- length of the class-level list of pools
deriving Repr

def World.init (base : Nat := 0) : World := { pools := [], cfgs := [], ready := [], counter := base }

/-- move the handles a pool queued during the last step to the loop's ready queue -/
def World.drain (w : World) : World :=
  let new := (w.pools.zipIdx.map fun (p, i) => p.emit.map fun r => (i, r)).flatten
  { w with ready := w.ready ++ new, pools := w.pools.map fun p => { p with emit := [] } }

def mkCap : Option Int → Cap
  | none => .inf
  | some v => .fin v.toNat

def notCoroFn : Option SpawnSpec → Bool
  | some sp => !sp.isCoro
  | none => false

def negSize : Option Int → Bool
  | some v => decide (v < 0)
  | none => false

/-- the constructors: `SimpleTaskPool` checks its function first; the pool is registered in the class-level
list *before* the size is validated -/
def World.mkpool (w : World) (size : Option Int) (simple : Option SpawnSpec) (name : Option String) : World × Res :=
  if notCoroFn simple then (w, .err .notCoroutineFunction)
  else if negSize size then ({ w with counter := w.counter + 1 }, .err .valueError)
  else
    let c : Cfg := { size0 := mkCap size, isSimple := simple.isSome, name := name, idx := w.counter }
    ({ w with pools := w.pools ++ [Pool.init (mkCap size) simple], cfgs := w.cfgs ++ [c], counter := w.counter + 1 },
     .name c.str)

def World.step (w : World) : WOp → World × Res
  | .mkpool size simple name => w.mkpool size simple name
  | .on i orders op =>
    match w.pools[i]? with
    | none => (w, .noop)
    | some p =>
      let r := ({ p with orders := orders } : Pool).applyOp op
      ({ w with pools := w.pools.set i r.1 }, r.2)
  | .run k orders =>
    match w.ready[k]? with
    | none => (w, .noop)
    | some (i, r) =>
      match w.pools[i]? with
      | none => ({ w with ready := w.ready.eraseIdx k }, .none)
      | some p =>
        ({ w with ready := w.ready.eraseIdx k, pools := w.pools.set i (({ p with orders := orders } : Pool).runRef r) }, .none)

def World.next (w : World) (x : WOp) : World := (w.step x).1.drain

/-- a history: the inputs of the system in order -/
abbrev History := List WOp

def World.run (w : World) (h : History) : World := h.foldl World.next w

/-! ### observation -/

def sortNat (l : List Nat) : List Nat := (l.toArray.qsort (· < ·)).toList

def Res.show : Res → String
  | .none => "ok" | .name s => "name:" ++ s | .err e => "err:" ++ e.name
  | .ids l => "ids:" ++ "/".intercalate (l.map toString)
  | .idset l => "set:" ++ "/".intercalate ((sortNat l).eraseDups.map toString)
  | .badOrder => "bad-order" | .noop => "noop"

def ArgD.show : ArgD → String
  | .apply => "a"
  | .elem 0 i => toString i
  | .elem 1 i => "*" ++ toString i
  | .elem _ i => "**" ++ toString i

/-- which registry files a task, as `cancel(id)` classifies it: R(unning), C(ancelled), E(nded), N(ot known) -/
def regTag : Option Err → String
  | none => "R" | some .alreadyCancelled => "C" | some .alreadyEnded => "E" | _ => "N"

def Ev.show : Ev → String
  | .started t a => s!"S{t}({a.show})" | .sawCancel t => s!"X{t}" | .resumed t => s!"Y{t}" | .next t => s!"N{t}" | .returned t => s!"R{t}" | .raised t => s!"E{t}"
  | .cancelCb t r c e k => s!"cc{t}:{r}/{c}/{e}/{regTag k}" | .cancelCbDone t => s!"cd{t}"
  | .cancelCbRaised t => s!"cr{t}" | .cancelCbKilled t => s!"ck{t}"
  | .endCb t r c e k => s!"ec{t}:{r}/{c}/{e}/{regTag k}" | .endCbDone t => s!"ed{t}"
  | .endCbRaised t => s!"er{t}" | .endCbKilled t => s!"ek{t}"
  | .pull m k => s!"P{m}:{k}"
  | .hook r => "h[" ++ r.show ++ "]"

def b01 (b : Bool) : String := if b then "1" else "0"

def orDash (s : String) : String := if s.isEmpty then "-" else s

/-- the observation of one pool; `seen` = how many entries of its event log were already printed -/
def Pool.obs (p : Pool) (c : Cfg) (seen : Nat) : String :=
  let gs := p.names.map fun n => match p.groupIds n with
    | some ids => n ++ ":" ++ "/".intercalate ((sortNat ids).map toString)
    | none => n ++ ":-"
  let evs := (p.log.drop seen).map Ev.show
  let apis := p.apis.zipIdx.map fun (a, i) => s!"{i}:" ++ (match a.outcome with | some o => o.show | none => "pending")
  s!"nm={c.str} n={p.running.length} c={p.cancelledR.length} e={p.ended.length} f={b01 p.isFull} l={b01 p.locked} s={p.sem.value.show} z={b01 p.closed} g={orDash (";".intercalate gs)} ev={orDash (",".intercalate evs)} api={orDash (",".intercalate apis)} amb={b01 p.ambiguous}"

def World.obs (w : World) (r : Res) (seen : List Nat) : String :=
  s!"r={r.show} q={w.ready.length}" ++
    String.join (w.pools.zipIdx.map fun (p, i) => " ## " ++ p.obs (w.cfgs.getD i ⟨.inf, false, none, 0⟩) (seen.getD i 0))

/-- one input, then the observation line (the event logs are ghost history and only ever grow) -/
def World.apply (w : World) (x : WOp) : World × String :=
  let seen := w.pools.map fun p => p.log.length
  let r := (w.step x).2
  let w' := w.next x
  (w', w'.obs r seen)

end Taskpool
