/-! M3 (part): command table, parsing of the canonical command fragment, dispatch. Import-free.
The table is *data extracted from the served pool class on every run*; every definition and theorem
here is for an arbitrary table. -/
namespace Taskpool.Control

/-- how an argument string is converted (what the real parser's `type=` does) -/
inductive Conv | int | str | float | literal | dotted
deriving DecidableEq, Repr, Inhabited

inductive PKind
  | positional            -- no default: required positional
  | varPositional         -- `*args`: nargs='*'
  | optional              -- has a default: `-x/--long VALUE`
  | flag                  -- bool with default: store_true
deriving DecidableEq, Repr, Inhabited

structure Param where
  name    : String
  kind    : PKind
  conv    : Conv
  default : String         -- repr of the default (for optional/flag), "" otherwise
deriving DecidableEq, Repr, Inhabited

inductive Target
  | method (params : List Param)
  | propRO
  | propRW (conv : Conv)
deriving Repr, Inhabited

structure Cmd where
  member : String          -- python identifier
  target : Target
deriving Repr, Inhabited

abbrev Table := List Cmd

/-- `name.replace("_", "-")` -/
def dash (s : String) : String := s.map fun c => if c = '_' then '-' else c

def Cmd.name (c : Cmd) : String := dash c.member

/-! ### short flags: first letter, else its upper case, else none (`add_function_arg`) -/

def assignFlags : List Param → List Char → List (Param × Option Char)
  | [], _ => []
  | p :: ps, used =>
    if p.kind = .optional ∨ p.kind = .flag then
      let l := p.name.front
      if ¬ used.contains l then (p, some l) :: assignFlags ps (l :: used)
      else if ¬ used.contains l.toUpper then (p, some l.toUpper) :: assignFlags ps (l.toUpper :: used)
      else (p, none) :: assignFlags ps used
    else (p, none) :: assignFlags ps used

/-! ### values -/

inductive Val
  | int (i : Int) | str (s : String) | raw (s : String)     -- raw: literal / dotted path / float text, converted outside the model
  | bool (b : Bool) | default (repr : String) | list (l : List Val)
deriving Repr, Inhabited

def isIntTok (s : String) : Bool :=
  let t := if s.startsWith "-" then (s.drop 1).toString else s
  !t.isEmpty && t.all Char.isDigit

def convert (c : Conv) (s : String) : Option Val :=
  match c with
  | .int => if isIntTok s then s.toInt?.map Val.int else none
  | .str => some (.str s)
  | _ => some (.raw s)

inductive Parsed
  | call (member : String) (args : List (String × Val))
  | get (member : String)
  | set (member : String) (v : Val)
  | help
  | error
  | outside          -- the line is outside the modelled fragment
deriving Repr, Inhabited

def looksOptional (s : String) : Bool := s.startsWith "-" && !isIntTok s

structure PState where
  opts : List (String × Val)          -- options seen
  pos  : List String                   -- positional tokens in order
  posEnded : Bool                      -- a positional run has ended (an option came after positionals)
  bad  : Option Parsed

/-- scan the tokens after the command name -/
def scan (fl : List (Param × Option Char)) : List String → PState → PState
  | [], st => st
  | tok :: rest, st =>
    if st.bad.isSome then st
    else if tok == "-h" || tok == "--help" then { st with bad := some .help }
    else if tok.isEmpty || tok.contains '=' || tok == "--" then { st with bad := some .outside }
    else if looksOptional tok then
      let hit := fl.find? fun pf =>
        (tok == "--" ++ dash pf.1.name) || (match pf.2 with | some c => tok == "-" ++ c.toString | none => false)
      match hit with
      | none => { st with bad := some (if tok.startsWith "--" then .outside else .error) }   -- abbreviations are argparse's business
      | some (p, _) =>
        let st := if st.pos.isEmpty then st else { st with posEnded := true }
        if p.kind = .flag then scan fl rest { st with opts := st.opts ++ [(p.name, .bool true)] }
        else match rest with
          | [] => { st with bad := some .error }
          | v :: rest' =>
            if looksOptional v then { st with bad := some .error }
            else match convert p.conv v with
              | none => { st with bad := some .error }
              | some x => scan fl rest' { st with opts := st.opts ++ [(p.name, x)] }
    else
      if st.posEnded then { st with bad := some .outside }        -- interleaved positionals: argparse's chunking
      else scan fl rest { st with pos := st.pos ++ [tok] }

/-- bind positional tokens to the positional parameters -/
def bindPos : List Param → List String → Option (List (String × Val))
  | [], [] => some []
  | [], _ :: _ => none
  | p :: ps, toks =>
    match p.kind with
    | .positional =>
      match toks with
      | [] => none
      | t :: ts => do
        let v ← convert p.conv t
        let r ← bindPos ps ts
        pure ((p.name, v) :: r)
    | .varPositional => do
      let vs ← toks.mapM (convert p.conv)
      let r ← bindPos ps []
      pure ((p.name, .list vs) :: r)
    | _ => bindPos ps toks

def dupOpts : List (String × Val) → Bool
  | [] => false
  | (n, _) :: rest => rest.any (·.1 == n) || dupOpts rest

def parseMethod (member : String) (params : List Param) (toks : List String) : Parsed :=
  let fl := assignFlags params []
  let st := scan fl toks { opts := [], pos := [], posEnded := false, bad := none }
  match st.bad with
  | some b => b
  | none =>
    if dupOpts st.opts then .outside else
    match bindPos params st.pos with
    | none => .error
    | some posArgs =>
      let optArgs := params.filterMap fun p =>
        if p.kind = .optional ∨ p.kind = .flag then
          some (p.name, match st.opts.find? (·.1 == p.name) with
            | some (_, v) => v
            | none => if p.kind = .flag then .bool false else .default p.default)
        else none
      .call member (posArgs ++ optArgs)

def parseLine (t : Table) (toks : List String) : Parsed :=
  match toks with
  | [] => .outside
  | c :: rest =>
    if c == "-h" || c == "--help" then .help
    else match t.find? (fun cmd => cmd.name == c) with
    | none => if looksOptional c then .outside else .error
    | some cmd =>
      match cmd.target with
      | .method ps => parseMethod cmd.member ps rest
      | .propRO => match rest with
        | [] => .get cmd.member
        | r => if r.contains "-h" || r.contains "--help" then .help else .error
      | .propRW conv => match rest with
        | [] => .get cmd.member
        | [v] => if v == "-h" || v == "--help" then .help
                 else if looksOptional v then .error
                 else match convert conv v with | some x => .set cmd.member x | none => .error
        | r => if r.contains "-h" || r.contains "--help" then .help else .error

/-! ### rendering (for the round-trip theorem and for the generator) -/

def Val.render : Val → String
  | .int i => toString i | .str s => s | .raw s => s | .bool _ => "" | .default r => r
  | .list l => " ".intercalate (l.map Val.render)

end Taskpool.Control
