/-! M3, part 1: the command table of a served pool class, the parse of a command line (canonical
fragment), dispatch and the reply rule.  Import-free.

The *member table* is data extracted from the served pool class with `inspect` on every run; every definition
and theorem is for an arbitrary table.  All text is `List Char`; a command line arrives already *lexed* into
structured tokens (the lexer — what argparse regards as option-like, what `int()`, `float()`, `literal_eval`
and `resolve_dotted_path` accept — is Python's and is validated by the differential run, not proved). -/
namespace Taskpool.Control

abbrev Str := List Char

/-- what the real parser's `type=` does with an argument string -/
inductive Conv | int | str | float | literal | dotted | bool
deriving DecidableEq, Repr, Inhabited

/-- parser side of a parameter (`ControlParser.add_function_arg`) -/
inductive PKind
  | positional            -- no default: required positional
  | varPositional         -- `*args`: nargs='*'
  | optional              -- has a default: `-x VALUE` or `--long VALUE`
  | flag                  -- annotated bool, has a default: store_true
deriving DecidableEq, Repr, Inhabited

/-- session side of a parameter (`ControlSession._exec_method_and_respond`) -/
inductive Pass | byPosition | byStar | byKeyword
deriving DecidableEq, Repr, Inhabited

structure Param where
  name : Str
  kind : PKind
  pass : Pass
  conv : Conv
deriving DecidableEq, Repr, Inhabited

inductive MKind | function | propRO | propRW | other
deriving DecidableEq, Repr, Inhabited

/-- one entry of `inspect.getmembers(cls)`; `params` = the parameters without `self` (a read-write
property: the one parameter of its setter) -/
structure Member where
  name   : Str
  kind   : MKind
  params : List Param
deriving DecidableEq, Repr, Inhabited

/-! ### the command surface (`add_class_commands`) -/

def dashChar (c : Char) : Char := if c = '_' then '-' else c
/-- `name.replace("_", "-")` -/
def dash (s : Str) : Str := s.map dashChar

/-- `not name.startswith("_")` -/
def isPublic (n : Str) : Bool := n.head? != some '_'

def Member.isCommand (m : Member) : Bool :=
  match m.kind with
  | .other => false
  | _ => true

def Member.exposed (m : Member) : Bool := isPublic m.name && m.isCommand

structure Cmd where
  name   : Str
  member : Member
deriving DecidableEq, Repr, Inhabited

abbrev Table := List Cmd

def toCmd (m : Member) : Cmd := { name := dash m.name, member := m }

def commandTable (ms : List Member) : Table := (ms.filter Member.exposed).map toCmd

def lookupCmd (t : Table) (n : Str) : Option Cmd := t.find? fun c => c.name == n

/-! ### short flags: first letter unless it is `h` or taken, else its upper case, else long form only -/

def Param.isOpt (p : Param) : Bool := p.kind == .optional || p.kind == .flag

def pickFlag (used : List Char) (l : Char) : Option Char :=
  if l ≠ 'h' ∧ l ∉ used then some l
  else if l.toUpper ∉ used then some l.toUpper
  else none

def assignFlags : List Param → List Char → List (Param × Option Char)
  | [], _ => []
  | p :: ps, used =>
    if p.isOpt then
      match p.name.head? with
      | none => (p, none) :: assignFlags ps used
      | some l =>
        match pickFlag used l with
        | some f => (p, some f) :: assignFlags ps (f :: used)
        | none => (p, none) :: assignFlags ps used
    else (p, none) :: assignFlags ps used

/-- an option of a (sub-)parser; `param = none` is the `-h` / `--help` action every parser starts with -/
structure OptSpec where
  param : Option Param
  short : Option Char
  long  : Str
deriving DecidableEq, Repr, Inhabited

def helpName : Str := ['h', 'e', 'l', 'p']
def helpOpt : OptSpec := { param := none, short := some 'h', long := helpName }

def paramOpt (pf : Param × Option Char) : Option OptSpec :=
  if pf.1.isOpt then some { param := some pf.1, short := pf.2, long := dash pf.1.name } else none

def paramOpts (ps : List Param) : List OptSpec := (assignFlags ps []).filterMap paramOpt

def optTable (ps : List Param) : List OptSpec := helpOpt :: paramOpts ps

def findShort (tbl : List OptSpec) (c : Char) : Option OptSpec := tbl.find? fun o => o.short == some c
def findLong (tbl : List OptSpec) (n : Str) : Option OptSpec := tbl.find? fun o => o.long == n

/-- the long options of which `--n` is an abbreviation (argparse's `_get_option_tuples`: `option_string.startswith`) -/
def longMatches (tbl : List OptSpec) (n : Str) : List OptSpec := tbl.filter fun o => n.isPrefixOf o.long

/-- what argparse's `_parse_optional` (`allow_abbrev`, the default) makes of the name of a long option -/
inductive Resolved
  | one (o : OptSpec)       -- an exact option string, or else the prefix of exactly one
  | ambiguous               -- no exact option string, and the prefix of two or more: `ambiguous option`
  | unknown                 -- neither: the string goes to the left-overs
deriving DecidableEq, Repr, Inhabited

/-- an exact match always wins; otherwise the name must be the prefix of exactly one long option string -/
def resolveLong (tbl : List OptSpec) (n : Str) : Resolved :=
  match findLong tbl n with
  | some o => .one o
  | none =>
    match longMatches tbl n with
    | [] => .unknown
    | [o] => .one o
    | _ :: _ :: _ => .ambiguous

def Resolved.isAmbiguous : Resolved → Bool
  | .ambiguous => true
  | _ => false

/-- pairwise different (Boolean, executable) -/
def distinctB {α} [BEq α] : List α → Bool
  | [] => true
  | a :: l => !l.contains a && distinctB l

/-- argparse refuses (`conflicting option string`) a parser in which two actions share an option string;
sub-commands must have different names.  `buildOk` = the parser of the handshake can be built. -/
def optsOk (tbl : List OptSpec) : Bool :=
  distinctB (tbl.filterMap (·.short)) && distinctB (tbl.map (·.long))

def buildOk (t : Table) : Bool :=
  distinctB (t.map (·.name)) && t.all fun c => optsOk (optTable c.member.params)

/-! ### tokens and values -/

/-- a positional-looking argument string together with what Python's converters make of it -/
structure Word where
  text    : Str
  int?    : Option Int      -- `int(text)` when that succeeds
  floatOk : Bool
  litOk   : Bool            -- `ast.literal_eval(text)` succeeds
  dotOk   : Bool            -- `resolve_dotted_path(text)` succeeds
deriving DecidableEq, Repr, Inhabited

inductive Tok
  | word (w : Word)
  | short (c : Char)        -- `-c`
  | long (n : Str)          -- `--name` (an exact option string or an abbreviation; `n` is not empty)
  | eq (n : Str) (v : Word) -- `--name=value`, split at the FIRST `=`; the value (possibly empty) with what the converters make of it
  /-- a single-dash string with more than one character behind the dash: `-cREST`, or `-c=REST` (`eq`; the lexer takes
  ONE `=` directly behind the first letter away, as argparse does when `-c` is an option string of the parser — when it
  is not, the whole string is left over and what was taken away plays no part).  `v` = REST with what the converters make
  of it: the *explicit argument* of `-c` (empty only in `-c=`).  `more` = REST read as further option letters, each with
  what stands behind it in the string (`none`: nothing — the last letter). -/
  | attached (c : Char) (eq : Bool) (v : Word) (more : List (Char × Option Word))
  | sep                     -- the FIRST `--` of the line: every string behind it is a `word`, whatever it looks like
  | other                   -- everything else (a second `--`, the empty string, invalid UTF-8 …): outside the fragment
deriving DecidableEq, Repr, Inhabited

/-- `--` is not an abbreviation of anything (argparse: "everything after it is positional" — the lexer renders the
first one as `sep`): a long token without a name is outside the fragment -/
def Tok.isOther : Tok → Bool
  | .other => true
  | .long [] => true
  | _ => false

inductive Atom
  | int (i : Int)
  | str (s : Str)
  | raw (s : Str)           -- float / literal / dotted path: text that Python converts (known to succeed)
  | bool (b : Bool)
deriving DecidableEq, Repr, Inhabited

def convert : Conv → Word → Option Atom
  | .int, w => w.int?.map Atom.int
  | .str, w => some (.str w.text)
  | .float, w => if w.floatOk then some (.raw w.text) else none
  | .literal, w => if w.litOk then some (.raw w.text) else none
  | .dotted, w => if w.dotOk then some (.raw w.text) else none
  | .bool, w => some (.bool (!w.text.isEmpty))

inductive ArgVal
  | one (a : Atom)
  | many (l : List Atom)
  | flag (b : Bool)
  | dflt                    -- the method's own default value
deriving DecidableEq, Repr, Inhabited

inductive ErrKind
  | unknownCommand          -- invalid choice
  | badValue                -- a converter rejected an argument
  | needsValue              -- an option that takes a value is not followed by one
  | missing                 -- a required positional is absent
  | unrecognized            -- left-over arguments
  | ambiguous               -- `--abc` / `--abc=v` is the prefix of two or more long options and equal to none
  | explicitArg             -- `--flag=v`, `--help=v`, `-f=`, `-fx` (`x` no option letter): an option that takes no value was given one (`ignored explicit argument`)
deriving DecidableEq, Repr, Inhabited

inductive Action
  | call (member : Str) (args : List (Str × ArgVal))
  | get (member : Str)
  | set (member : Str) (v : Atom)
deriving DecidableEq, Repr, Inhabited

inductive Verdict
  | act (a : Action)
  | help (of : Option Str)  -- `none`: the top-level help
  | error (k : ErrKind)
deriving DecidableEq, Repr, Inhabited

/-! ### parsing what follows the command name

argparse works from left to right and the first error wins: options up to the first positional-looking
string, then one run of such strings bound to the positional parameters, then options again.  A second run
is outside the fragment (argparse's chunking of interleaved positionals is not modelled). -/

structure PState where
  posLeft : List Param                 -- positional parameters not yet bound
  bound   : List (Str × ArgVal)        -- bound single positionals, in order
  star    : List Atom                  -- values of the var-positional parameter
  opts    : List (Str × ArgVal)        -- options seen, latest first
  extras  : Bool                       -- something was left over (`unrecognized arguments`)
deriving DecidableEq, Repr, Inhabited

inductive Scan
  | stop (v : Option Verdict)          -- `none` = outside the fragment
  | cont (st : PState) (rest : List Tok)
deriving Repr, Inhabited

def PState.addOpt (st : PState) (n : Str) (v : ArgVal) : PState := { st with opts := (n, v) :: st.opts }

def dashdash : Str := ['-', '-']

/-- the parameter of an option that takes a value (`nargs=None`); a flag (`store_true`) and the help action take none -/
def OptSpec.valued (o : OptSpec) : Option Param :=
  match o.param with
  | some p => if p.kind = .flag then none else some p
  | none => none

def OptSpec.isHelp (o : OptSpec) : Bool := o.param.isNone

/-- what argparse's loop over ONE single-dash string (`consume_optional`, Python 3.12.1) arrives at before it takes any
action -/
inductive Walk
  | refused                            -- `ignored explicit argument`: behind an option that takes no value stands a
                                       -- character that is no option letter of the command, or (`-f=`) an empty explicit argument
  | done (noval : List OptSpec) (fin : Option (Param × Option Word))
                                       -- the options without a value met, in order (flags, help); then possibly an option
                                       -- with a value: `some w` = the rest of the string is its value, `none` = the next string is
deriving Repr, Inhabited

/-- `o` is the action of the letter just read, `arg` what stands behind that letter in the string (`none`: nothing) and
`more` the same text read as letters.  An option that takes a value ends the walk — the rest of the string is its
value (`-abgG` = `-a -b -g G`), or the next string is (`-abg G`).  Behind an option that takes none, the next character must
again be an option letter (`-ab` = `-a -b`; `-h` counts). -/
def walk (tbl : List OptSpec) : List (Char × Option Word) → OptSpec → Option Word → List OptSpec → Walk
  | more, o, arg, acc =>
    match o.valued with
    | some p => .done acc (some (p, arg))
    | none =>
      match arg with
      | none => .done (acc ++ [o]) none
      | some _ =>
        match more with
        | [] => .refused
        | (c, a) :: more' =>
          match findShort tbl c with
          | none => .refused
          | some o' => walk tbl more' o' a (acc ++ [o])

/-- `store_true` for every flag of the list -/
def PState.addFlags (st : PState) (os : List OptSpec) : PState :=
  os.foldl (fun st o => match o.param with
    | some p => st.addOpt p.name (.flag true)
    | none => st) st

/-- options up to the next positional-looking string.  A long option may be abbreviated (`resolveLong`); an
ambiguous abbreviation never gets here (`parseCmd` rejects the whole line first, as argparse's pre-pass does).
A string that is no option of the command is left over (`unrecognized arguments`, reported when all else is fine).
`--name=value` binds like `--name value`; an option that takes no value (`store_true`, help) answers
`ignored explicit argument`; the value `--` is outside the fragment (argparse strips it and stores an empty list).
A single-dash string with more behind its first letter (`attached`): a first letter that is no option of the command
leaves the whole string over; otherwise `walk` — its errors (`refused`; the option with a value that ends the string is
not followed by a value) come before any action is taken, then the actions in order: a help action among them is the
command's help, flags are set, the value is converted.  The separator `--` ends the options. -/
def scanOpts (me : Str) (tbl : List OptSpec) : List Tok → PState → Scan
  | [], st => .cont st []
  | .other :: _, _ => .stop none
  | .word w :: rest, st => .cont st (.word w :: rest)
  | .sep :: rest, st => .cont st (.sep :: rest)
  | .attached c _ v more :: rest, st =>
    match findShort tbl c with
    | none => scanOpts me tbl rest { st with extras := true }
    | some o =>
      match walk tbl more o (some v) [] with
      | .refused => .stop (some (.error .explicitArg))
      | .done os none =>
        if os.any OptSpec.isHelp then .stop (some (.help (some me))) else scanOpts me tbl rest (st.addFlags os)
      | .done os (some (p, some w)) =>
        if os.any OptSpec.isHelp then .stop (some (.help (some me)))
        else if w.text = dashdash then .stop none
        else match convert p.conv w with
          | none => .stop (some (.error .badValue))
          | some a => scanOpts me tbl rest ((st.addFlags os).addOpt p.name (.one a))
      | .done os (some (p, none)) =>
        match rest with
        | .word w :: rest' =>
          if os.any OptSpec.isHelp then .stop (some (.help (some me)))
          else match convert p.conv w with
            | none => .stop (some (.error .badValue))
            | some a => scanOpts me tbl rest' ((st.addFlags os).addOpt p.name (.one a))
        | _ => .stop (some (.error .needsValue))
  | .short c :: rest, st =>
    match findShort tbl c with
    | none => scanOpts me tbl rest { st with extras := true }
    | some o =>
      match o.param with
      | none => .stop (some (.help (some me)))
      | some p =>
        if p.kind = .flag then scanOpts me tbl rest (st.addOpt p.name (.flag true))
        else match rest with
          | .word v :: rest' =>
            match convert p.conv v with
            | none => .stop (some (.error .badValue))
            | some a => scanOpts me tbl rest' (st.addOpt p.name (.one a))
          | _ => .stop (some (.error .needsValue))
  | .long [] :: _, _ => .stop none
  | .long n :: rest, st =>
    match resolveLong tbl n with
    | .unknown => scanOpts me tbl rest { st with extras := true }
    | .ambiguous => .stop (some (.error .ambiguous))
    | .one o =>
      match o.param with
      | none => .stop (some (.help (some me)))
      | some p =>
        if p.kind = .flag then scanOpts me tbl rest (st.addOpt p.name (.flag true))
        else match rest with
          | .word v :: rest' =>
            match convert p.conv v with
            | none => .stop (some (.error .badValue))
            | some a => scanOpts me tbl rest' (st.addOpt p.name (.one a))
          | _ => .stop (some (.error .needsValue))
  | .eq n v :: rest, st =>
    match resolveLong tbl n with
    | .unknown => scanOpts me tbl rest { st with extras := true }
    | .ambiguous => .stop (some (.error .ambiguous))
    | .one o =>
      match o.param with
      | none => .stop (some (.error .explicitArg))
      | some p =>
        if p.kind = .flag then .stop (some (.error .explicitArg))
        else if v.text = dashdash then .stop none
        else match convert p.conv v with
          | none => .stop (some (.error .badValue))
          | some a => scanOpts me tbl rest (st.addOpt p.name (.one a))

/-- one run of positional-looking strings.  A separator inside the run is taken in by the positional action in front
of it (argparse 3.12.1: the pattern of a positional allows `--` around its strings, and the first `--` among the strings
of an action is removed). -/
def bindWords : List Tok → PState → Scan
  | .sep :: rest, st => bindWords rest st
  | .word w :: rest, st =>
    match st.posLeft with
    | [] => bindWords rest { st with extras := true }
    | p :: ps =>
      match convert p.conv w with
      | none => .stop (some (.error .badValue))
      | some a =>
        if p.kind = .varPositional then bindWords rest { st with star := st.star ++ [a] }
        else bindWords rest { st with posLeft := ps, bound := st.bound ++ [(p.name, .one a)] }
  | toks, st => .cont st toks

def Param.isPos (p : Param) : Bool := p.kind == .positional || p.kind == .varPositional

def lookupArg (l : List (Str × ArgVal)) (n : Str) : Option ArgVal := (l.find? fun a => a.1 == n).map (·.2)

/-- the namespace entry of a parameter once parsing is over -/
def argFor (st : PState) (p : Param) : ArgVal :=
  match p.kind with
  | .positional => (lookupArg st.bound p.name).getD .dflt
  | .varPositional => .many st.star
  | .optional => (lookupArg st.opts p.name).getD .dflt
  | .flag => (lookupArg st.opts p.name).getD (.flag false)

def finish (m : Member) (st : PState) : Option Verdict :=
  match m.kind with
  | .function =>
    if st.posLeft.any (fun p => p.kind == .positional) then some (.error .missing)
    else if st.extras then some (.error .unrecognized)
    else some (.act (.call m.name (m.params.map fun p => (p.name, argFor st p))))
  | .propRW =>
    if st.extras then some (.error .unrecognized)
    else match st.bound with
      | (_, .one a) :: _ => some (.act (.set m.name a))
      | _ => some (.act (.get m.name))
  | .propRO => if st.extras then some (.error .unrecognized) else some (.act (.get m.name))
  | .other => none

/-- a var-positional parameter must be the last positional one (argparse's regex matching of a `*`
followed by further positionals is not modelled) -/
def canonicalPos : List Param → Bool
  | [] => true
  | p :: ps => if p.kind == .varPositional then ps.isEmpty else canonicalPos ps

def initState (m : Member) : PState :=
  { posLeft := m.params.filter Param.isPos, bound := [], star := [], opts := [], extras := false }

/-- argparse classifies every argument string before it consumes the first one; an ambiguous abbreviation anywhere
behind the command word ends the parse there and then -/
def ambiguousTok (tbl : List OptSpec) : Tok → Bool
  | .long n => (resolveLong tbl n).isAmbiguous
  | .eq n _ => (resolveLong tbl n).isAmbiguous
  | _ => false

def startsWithWord : List Tok → Bool
  | .word _ :: _ => true
  | _ => false

/-- the run of positional strings begins here: a positional-looking string or the separator -/
def startsRun : List Tok → Bool
  | .word _ :: _ => true
  | .sep :: _ => true
  | _ => false

def Tok.isWord : Tok → Bool
  | .word _ => true
  | _ => false

/-- what the lexer guarantees: behind the (first) separator there are only words -/
def sepOk : List Tok → Bool
  | [] => true
  | .sep :: rest => rest.all Tok.isWord
  | _ :: rest => sepOk rest

/-- a separator with no positional string in front of it is taken in by the first positional action — if there is one;
a command without positional parameters leaves it over (`unrecognized arguments: --`) -/
def sepLeads (r : List Tok) (st : PState) : PState :=
  match r with
  | .sep :: _ => if st.posLeft.isEmpty then { st with extras := true } else st
  | _ => st

/-- `--` behind the options that follow the positional strings: every positional parameter that got its string (and a
var-positional one with it) is done with, so the separator and all behind it are left over; with a single positional
still unbound argparse would go on binding (a second run: outside the fragment) -/
def afterOpts (m : Member) (st : PState) : List Tok → Option Verdict
  | [] => finish m st
  | .sep :: _ => if st.posLeft.any (fun p => p.kind == .positional) then none else finish m { st with extras := true }
  | _ => none

def parseCmd (c : Cmd) (toks : List Tok) : Option Verdict :=
  let m := c.member
  let tbl := optTable m.params
  if toks.any (ambiguousTok tbl) then some (.error .ambiguous) else
  if !sepOk toks then none else
  match scanOpts m.name tbl toks (initState m) with
  | .stop v => v
  | .cont st1 r1 =>
    if startsRun r1 && !canonicalPos st1.posLeft then none else
    match bindWords r1 (sepLeads r1 st1) with
    | .stop v => v
    | .cont st2 r2 =>
      match scanOpts m.name tbl r2 st2 with
      | .stop v => v
      | .cont st3 r3 => afterOpts m st3 r3

/-- `none`: the line is outside the modelled fragment -/
def parseLine (t : Table) (toks : List Tok) : Option Verdict :=
  if toks.any Tok.isOther then none else
  match toks with
  | [] => none
  | .word w :: rest =>
    match lookupCmd t w.text with
    | none => some (.error .unknownCommand)
    | some c => parseCmd c rest
  | .short c :: _ => if c = 'h' then some (.help none) else none
  | .long n :: _ => if n.isPrefixOf helpName then some (.help none) else none       -- `--h`, `--he`, `--hel`, `--help`
  | .eq n _ :: _ => if n.isPrefixOf helpName then some (.error .explicitArg) else none
  | .attached c _ v more :: _ =>                    -- `-hh`, `-h=h`: help; `-hx`, `-h=`: `ignored explicit argument`
    if c = 'h' then
      match walk [helpOpt] more helpOpt (some v) [] with
      | .refused => some (.error .explicitArg)
      | .done _ _ => some (.help none)
    else none
  | .sep :: _ => none
  | .other :: _ => none

/-! ### dispatch (`_exec_method_and_respond`) and the reply rule -/

structure Invocation where
  pos  : List ArgVal                   -- `*normal_pos`
  star : List Atom                     -- `*var_pos`
  kw   : List (Str × ArgVal)           -- `**kwargs`
deriving DecidableEq, Repr, Inhabited

def starOf : ArgVal → List Atom
  | .many l => l
  | _ => []

/-- the namespace `args` is aligned with the signature `ps` -/
def dispatch (ps : List Param) (args : List (Str × ArgVal)) : Invocation :=
  let z := ps.zip args
  { pos := (z.filter fun pa => pa.1.pass == .byPosition).map (·.2.2),
    star := ((z.filter fun pa => pa.1.pass == .byStar).map (fun pa => starOf pa.2.2)).flatten,
    kw := (z.filter fun pa => pa.1.pass == .byKeyword).map (·.2) }

/-- what executing the method / property did -/
inductive Outcome
  | none                    -- returned `None`
  | value (s : Str)         -- returned something else; `s` = `str(result)`
  | raised (s : Str)        -- raised an `Exception`; `s` = `str(exception)`
deriving DecidableEq, Repr, Inhabited

def okText : Str := ['o', 'k']
def noneText : Str := ['N', 'o', 'n', 'e']

def Action.isGet : Action → Bool
  | .get _ => true
  | _ => false

/-- methods and setters: `ok` for `None`, else the text; a getter always writes `str(result)` -/
def replyText (a : Action) : Outcome → Str
  | .none => if a.isGet then noneText else okText
  | .value s => s
  | .raised s => s

/-! ### writing a command line (specification side of the round trip) -/

/-- one option on the command line -/
structure Choice where
  p     : Param
  short : Option Char        -- write `-c` (must be the flag assigned to `p`); `none`: write the long form
  w     : Word               -- its value (a flag has none)
  a     : Atom               -- what the value converts to
  abbr  : Option Str := none -- long form only: write `--abbr` instead of the full `--long-name`
  eq    : Bool := false      -- long form of an option with a value only: write `--name=value` (one string)
  glued : Option Bool := none -- short form of an option with a value only: ONE string, `-cVALUE` (`some false`) or `-c=VALUE` (`some true`)
  tail  : List (Char × Option Word) := [] -- glued only: VALUE as the lexer reads it letter by letter (plays no part)
deriving Repr, Inhabited

/-- the name written behind `--` -/
def Choice.longName (c : Choice) : Str := c.abbr.getD (dash c.p.name)

def Choice.tok (c : Choice) : Tok :=
  match c.short with
  | some f => .short f
  | none => .long c.longName

def Choice.val (c : Choice) : ArgVal := if c.p.kind = .flag then .flag true else .one c.a

def Choice.render (c : Choice) : List Tok :=
  if c.p.kind = .flag then [c.tok]
  else match c.short with
    | some f =>
      match c.glued with
      | some e => [.attached f e c.w c.tail]
      | none => [.short f, .word c.w]
    | none => if c.eq then [.eq c.longName c.w] else [.long c.longName, .word c.w]

/-- `n` abbreviates the long option `full` of a parser with the options `tbl`: a non-empty prefix of it and of no
other long option string (hence, unless it is `full` itself, equal to none either) -/
def abbrevOk (tbl : List OptSpec) (n full : Str) : Prop :=
  n ≠ [] ∧ n <+: full ∧ ∀ o ∈ tbl, n <+: o.long → o.long = full

def renderOpts (cs : List Choice) : List Tok := cs.flatMap Choice.render

/-- the choice names an option of the method, in a form the parser built for it (short flag — the value in the next
string or in the same one, directly behind the letter or behind `=` —, long option string, an unambiguous abbreviation of
it, each of the long ones with the value behind a blank or behind `=`), with a value its converter accepts -/
def Choice.ok (ps : List Param) (c : Choice) : Prop :=
  c.p ∈ ps ∧ c.p.isOpt = true ∧ (∀ f, c.short = some f → (c.p, some f) ∈ assignFlags ps [])
    ∧ (c.p.kind ≠ .flag → convert c.p.conv c.w = some c.a)
    ∧ (∀ n, c.abbr = some n → abbrevOk (optTable ps) n (dash c.p.name))
    ∧ (c.eq = true → c.w.text ≠ dashdash)
    ∧ (c.glued.isSome = true → c.w.text ≠ dashdash)

/-- options as they stand on the command line: one on its own (`one`), or several in ONE single-dash string
(`cluster`): the flag `f`, further flags `fs`, and last `c` — a flag, or an option with a value: the rest of the string
(`c.glued ≠ none`) or the next string.  Every flag of a cluster comes with what the lexer makes of the text behind its
letter (a `Word`; plays no part). -/
inductive Item
  | one (c : Choice)
  | cluster (f : Choice) (jf : Word) (fs : List (Choice × Word)) (c : Choice)
deriving Repr, Inhabited

def Choice.letter (c : Choice) : Char := c.short.getD '-'

/-- the options an item writes, in the order in which they take effect -/
def Item.choices : Item → List Choice
  | .one c => [c]
  | .cluster f _ fs c => f :: (fs.map (·.1) ++ [c])

/-- what stands behind the last letter of a cluster: nothing (a flag; an option whose value is the next string) or the
value -/
def Choice.lastArg (c : Choice) : Option Word :=
  if c.p.kind = .flag then none else if c.glued.isSome then some c.w else none

def Item.render : Item → List Tok
  | .one c => c.render
  | .cluster f jf fs c =>
    .attached f.letter false jf (fs.map (fun x => (x.1.letter, some x.2)) ++ ((c.letter, c.lastArg) :: c.tail))
      :: (if c.p.kind = .flag ∨ c.glued.isSome then [] else [.word c.w])

/-- a flag of the method written by its letter -/
def Choice.okFlag (ps : List Param) (c : Choice) : Prop := c.ok ps ∧ c.p.kind = .flag ∧ c.short.isSome = true

def Item.ok (ps : List Param) : Item → Prop
  | .one c => c.ok ps
  | .cluster f _ fs c => f.okFlag ps ∧ (∀ x ∈ fs, x.1.okFlag ps) ∧ c.ok ps ∧ c.short.isSome = true

def renderItems (l : List Item) : List Tok := l.flatMap Item.render

def itemChoices (l : List Item) : List Choice := l.flatMap Item.choices

/-- a positional argument string and what it converts to -/
structure PosArg where
  w : Word
  a : Atom
deriving Repr, Inhabited

def PosArg.ok (p : Param) (x : PosArg) : Prop := convert p.conv x.w = some x.a

/-- one value per single positional parameter, each accepted by its converter -/
def posOk : List Param → List PosArg → Prop
  | [], [] => True
  | p :: ps, x :: xs => x.ok p ∧ posOk ps xs
  | _, _ => False

def renderPos (xs : List PosArg) : List Tok := xs.map fun x => .word x.w

def optEntries (cs : List Choice) : List (Str × ArgVal) := (cs.map fun c => (c.p.name, c.val)).reverse

/-- the namespace the round trip must end in: every single positional bound to its value, the var-positional to
all of its values, every written option to its value -/
def finalState (singles starL : List Param) (pargs sargs : List PosArg) (cs : List Choice) : PState :=
  { posLeft := starL, bound := (singles.zip pargs).map (fun x => (x.1.name, .one x.2.a)),
    star := sargs.map (·.a), opts := optEntries cs, extras := false }

/-! ### well-formed member tables (what `inspect` delivers for a class whose code compiles) -/

def isIdentChar (c : Char) : Bool := c.isAlphanum || c == '_'
def isIdent (n : Str) : Bool := !n.isEmpty && n.all isIdentChar

def commandName : Str := ['c', 'o', 'm', 'm', 'a', 'n', 'd']

/-- What a member table must satisfy for the theorems (and for the real parser / session to work at all):
parameter names are distinct identifiers (ASCII), and
* no option is called `help` — its long form would be `--help`, which every parser already owns (finding F1);
* no option starts with an underscore — argparse derives the dest `x` from `--_x`, the session looks for `_x` (F2);
* no parameter is called `command` — the namespace attribute under which the parser stores the member itself (F4).
Python guarantees the first part for ASCII source; the three exclusions are exactly the ways in which a subclass of a
pool class can add a public member that the control interface cannot serve (known findings; both pool classes satisfy
them, which the check confirms on every run by evaluating `wellFormed` on the table extracted from the real classes). -/
def paramsOk (ps : List Param) : Bool :=
  ps.all (fun p => isIdent p.name) && distinctB (ps.map (·.name))
  && ps.all (fun p => !(p.isOpt && (dash p.name == helpName)))
  && ps.all (fun p => !(p.isOpt && !isPublic p.name))
  && ps.all (fun p => p.name != commandName)

def Member.ok (m : Member) : Bool := isIdent m.name && (!m.exposed || paramsOk m.params)

def wellFormed (ms : List Member) : Bool := ms.all Member.ok && distinctB (ms.map (·.name))

end Taskpool.Control
