import Taskpool.Model.World
import Taskpool.Model.Bits
import Taskpool.Inv.Bits2
open Taskpool

def parseCb : String → CbSpec
  | "p" => .plain | "x" => .raises (.user 1) | "c" => .coro | _ => .none

/-- worker mode: `r` returns at once, `x` raises at once, `g` gated (one suspension point), `g1` / `g2` / … gated with
that many *further* suspension points (absent = 0, so older op lines keep their meaning) -/
def parseWs (m sw : String) : WSpec :=
  { mode := match m with | "r" => .retNow | "x" => .raiseNow (.user 2) | _ => .gated, swallow := sw == "1", resume := sw == "2",
    awaits := if m.startsWith "g" then (m.drop 1).toString.toNat?.getD 0 else 0 }

/-- op lines are blank-separated: the empty string (a legal group name) travels as `''` -/
def decName (s : String) : String := if s == "''" then "" else s

def parseGroup (s : String) : Option String := if s == "-" then none else some (decName s)

def parseItems (s : String) : List Item :=
  if s == "-" then [] else s.toList.map fun c => { bad := c == '1', raises := c == '2' }

def parseNats (l : List String) : List Nat := l.filterMap String.toNat?
def parseInts (l : List String) : List Int := l.filterMap String.toInt?

def parseHookOp (s : String) : Option HookOp :=
  let rest := (s.drop 1).toString
  match s.toList.head? with
  | some 'c' => some (.cancel (parseInts ((rest.splitOn ",").filter (· ≠ ""))))
  | some 'g' => some (.cancelGroup rest)
  | some 'o' => some .cancelOwn
  | some 'a' => some .cancelAll
  | some 'l' => some .lock
  | some 'u' => some .unlock
  | some 't' => some (.stop (rest.toInt?.getD 0))
  | some 'A' => some (.applyG (rest.toInt?.getD 0))
  | _ => none

def parseHooks (s : String) : Hooks :=
  if s == "-" then {} else
  (s.splitOn "|").foldl (fun h part =>
    match part.splitOn ":" with
    | [pt, ops] =>
      let l := (ops.splitOn ";").filterMap parseHookOp
      match pt with
      | "s" => { h with start := l } | "e" => { h with endCb := l }
      | "c" => { h with cancelCb := l } | "p" => { h with pull := l } | "n" => { h with next := l } | _ => h
    | _ => h) {}

def parseSpec (wm sw ecb ccb bad coro hooks : String) : SpawnSpec :=
  { ws := parseWs wm sw, endCb := parseCb ecb, cancelCb := parseCb ccb, badCall := bad == "1",
    isCoro := coro == "1", hooks := parseHooks hooks }

def parseOp (toks : List String) : Option Op :=
  match toks with
  | ["apply", num, g, wm, sw, ecb, ccb, bad, coro, hooks] =>
    some (.apply (num.toInt?.getD 0) (parseGroup g) (parseSpec wm sw ecb ccb bad coro hooks))
  | ["map", stars, items, nc, g, wm, sw, ecb, ccb, coro, hooks] =>
    some (.map (stars.toNat?.getD 0) (parseItems items) (nc.toInt?.getD 1) (parseGroup g) (parseSpec wm sw ecb ccb "0" coro hooks))
  | ["start", n] => some (.start (n.toInt?.getD 0))
  | ["stop", n] => some (.stop (n.toInt?.getD 0))
  | ["stop_all"] => some .stopAll
  | "cancel" :: ids => some (.cancel (parseInts ids))
  | ["cancel_group", g] => some (.cancelGroup (decName g))
  | ["cancel_all"] => some .cancelAll
  | ["lock"] => some .lock
  | ["unlock"] => some .unlock
  | ["set_size", n] => some (.setSize (n.toInt?.getD 0))
  | "get_ids" :: names => some (.getIds (names.map decName))
  | ["flush", re] => some (.flush (re == "1"))
  | ["gac", re] => some (.gac (re == "1"))
  | ["until_closed"] => some .untilClosed
  | ["gate", t, "ok"] => some (.gate (t.toNat?.getD 0) .ok)
  | ["gate", t, "exc"] => some (.gate (t.toNat?.getD 0) (.exc (.user 3)))
  | _ => none

/-- trailing token `@1,2;3` = the cancel orders observed on the implementation during this op -/
def splitOrders (toks : List String) : List String × List (List Nat) :=
  match toks.getLast? with
  | some last =>
    if last.startsWith "@" then
      let body := (last.drop 1).toString
      (toks.dropLast, (body.splitOn ";").map fun s => parseNats ((s.splitOn ",").filter (· ≠ "")))
    else (toks, [])
  | none => (toks, [])

def parseSize (s : String) : Option Int := if s == "inf" then none else some (s.toInt?.getD 0)

def parseWOp (toks : List String) : Option WOp :=
  match toks with
  | ["mkpool", "task", sz, nm] => some (.mkpool (parseSize sz) none (parseGroup nm))
  | ["mkpool", "simple", sz, nm, wm, sw, ecb, ccb, bad, coro, hooks] =>
    some (.mkpool (parseSize sz) (some (parseSpec wm sw ecb ccb bad coro hooks)) (parseGroup nm))
  | "run" :: rest =>
    let (rest, orders) := splitOrders rest
    match rest with
    | [] => some (.run 0 orders)
    | [k] => some (.run (k.toNat?.getD 0) orders)
    | _ => none
  | "on" :: i :: rest =>
    let (rest, orders) := splitOrders rest
    match parseOp rest with
    | some op => some (.on (i.toNat?.getD 0) orders op)
    | none => none
  | _ => none

def showRef : Nat × Ref → String
  | (i, .task t) => s!"{i}.T{t}" | (i, .spawner m) => s!"{i}.M{m}" | (i, .api a) => s!"{i}.A{a}"
  | (i, .gchild g k) => s!"{i}.G{g}.{k}"

partial def loop (h : IO.FS.Stream) (out : IO.FS.Stream) (w : World) : IO Unit := do
  let line ← h.getLine
  if line.isEmpty then return ()
  let toks := (line.trimAscii.toString.splitOn " ").filter (· ≠ "")
  match toks with
  | ["reset", base] =>
    out.putStrLn "reset"
    loop h out (World.init (base.toNat?.getD 0))
  | ["peek"] =>
    out.putStrLn (" ".intercalate (w.ready.map showRef))
    loop h out w
  | ["flush!"] => out.flush; loop h out w
  | "mark" :: _ => out.putStrLn "mark"; loop h out w
  | _ =>
    match parseWOp toks with
    | none => out.putStrLn "bad-op"; loop h out w
    | some op =>
      let (w', s) := w.apply op
      out.putStrLn (s ++ " ## ib=" ++ invBits3 w w' (match op with | .on _ _ _ => true | _ => false))
      loop h out w'

def main : IO Unit := do
  let out ← IO.getStdout
  loop (← IO.getStdin) out (World.init 0)
  out.flush
