import Taskpool.Model.Control
import Taskpool.Model.Control.Session
import Taskpool.Model.Control.Server
open Taskpool.Control

/-! Line-protocol driver of the control model (`cdriver`): exactly one output line per input line.
All free text is hex-encoded UTF-8, so a field never contains a blank. -/

def hexDigit (n : Nat) : Char := if n < 10 then Char.ofNat (48 + n) else Char.ofNat (87 + n)

def hexOfString (s : String) : String :=
  String.ofList (s.toUTF8.toList.flatMap fun b => [hexDigit (b.toNat / 16), hexDigit (b.toNat % 16)])

def hexOf (s : Str) : String := hexOfString (String.ofList s)

def hexVal (c : Char) : Nat :=
  if c.isDigit then c.toNat - 48 else if 'a' ≤ c ∧ c ≤ 'f' then c.toNat - 87 else 0

def bytesOfHex : List Char → List UInt8
  | a :: b :: rest => UInt8.ofNat (hexVal a * 16 + hexVal b) :: bytesOfHex rest
  | _ => []

def unhex (h : String) : Str :=
  match String.fromUTF8? (ByteArray.mk (bytesOfHex h.toList).toArray) with
  | some s => s.toList
  | none => []

def parseConv : String → Conv
  | "int" => .int | "float" => .float | "literal" => .literal | "dotted" => .dotted | "bool" => .bool | _ => .str
def parseKind : String → PKind
  | "pos" => .positional | "var" => .varPositional | "flag" => .flag | _ => .optional
def parsePass : String → Pass
  | "position" => .byPosition | "star" => .byStar | _ => .byKeyword
def parseMKind : String → MKind
  | "function" => .function | "propro" => .propRO | "proprw" => .propRW | _ => .other

def showConv : Conv → String
  | .int => "int" | .str => "str" | .float => "float" | .literal => "literal" | .dotted => "dotted" | .bool => "bool"

def decodeWord (h i bits : String) : Word :=
  let b := bits.toList
  { text := unhex h, int? := if i == "-" then none else i.toInt?,
    floatOk := b.getD 0 '0' == '1', litOk := b.getD 1 '0' == '1', dotOk := b.getD 2 '0' == '1' }

/-- one further letter of a single-dash string: `<letter>/~` (nothing behind it) or `<letter>/<text>/<int or ->/<bits>` -/
def decodePair (s : String) : Option (Char × Option Word) :=
  match s.splitOn "/" with
  | [hc, "~"] => match unhex hc with
    | [c] => some (c, none)
    | _ => none
  | [hc, hv, i, bits] => match unhex hc with
    | [c] => some (c, some (decodeWord hv i bits))
    | _ => none
  | _ => none

def decodeTok (s : String) : Tok :=
  match s.splitOn ":" with
  | ["w", h, i, bits] => .word (decodeWord h i bits)
  | ["s", h] => match unhex h with
    | [c] => .short c
    | _ => .other
  | ["l", h] => .long (unhex h)
  | ["e", hn, hv, i, bits] =>             -- `--name=value`: name, value text, and the value's converter bits as for a word
    .eq (unhex hn) (decodeWord hv i bits)
  | ["a", hc, e, hv, i, bits, ps] =>      -- `-cREST` / `-c=REST`: letter, `=` taken away?, REST as a word, REST letter by letter
    let pairs := (ps.splitOn ",").filter (· ≠ "") |>.map decodePair
    match unhex hc with
    | [c] => if pairs.all Option.isSome then .attached c (e == "1") (decodeWord hv i bits) (pairs.filterMap id) else .other
    | _ => .other
  | ["p"] => .sep                          -- the first `--` of the line
  | _ => .other

def showAtom : Atom → String
  | .int i => s!"i:{i}" | .str s => "s:" ++ hexOf s | .raw s => "r:" ++ hexOf s | .bool b => if b then "b:1" else "b:0"

def showVal : ArgVal → String
  | .one a => showAtom a
  | .many l => "[" ++ ",".intercalate (l.map showAtom) ++ "]"
  | .flag b => if b then "f:1" else "f:0"
  | .dflt => "d"

def showNamed (a : Str × ArgVal) : String := hexOf a.1 ++ "=" ++ showVal a.2

def showErr : ErrKind → String
  | .unknownCommand => "unknown-command" | .badValue => "bad-value" | .needsValue => "needs-value"
  | .missing => "missing" | .unrecognized => "unrecognized" | .ambiguous => "ambiguous" | .explicitArg => "explicit-arg"

def paramsOf (ms : List Member) (m : Str) : List Param :=
  match ms.find? (fun x => x.name == m) with
  | some x => x.params
  | none => []

def showVerdict (ms : List Member) : Option Verdict → String
  | none => "outside"
  | some (.help none) => "help -"
  | some (.help (some m)) => "help " ++ hexOf m
  | some (.error k) => "error " ++ showErr k
  | some (.act (.get m)) => "get " ++ hexOf m
  | some (.act (.set m v)) => "set " ++ hexOf m ++ " " ++ showAtom v
  | some (.act (.call m args)) =>
    let inv := dispatch (paramsOf ms m) args
    "call " ++ hexOf m ++ " " ++ ";".intercalate (args.map showNamed)
      ++ " # pos=" ++ ",".intercalate (inv.pos.map showVal)
      ++ " star=" ++ ",".intercalate (inv.star.map showAtom)
      ++ " kw=" ++ ";".intercalate (inv.kw.map showNamed)

def showOptChar : Option Char → String
  | some c => hexOfString c.toString
  | none => "-"

/-- the model's argparse spec of one command: per parameter `name:kind:short:long:conv` -/
def showSpec (m : Member) : String :=
  let fl := assignFlags m.params []
  " ".intercalate (fl.map fun pf =>
    let p := pf.1
    let k := match p.kind with | .positional => "pos" | .varPositional => "var" | .optional => "opt" | .flag => "flag"
    hexOf p.name ++ ":" ++ k ++ ":" ++ showOptChar pf.2 ++ ":" ++ (if p.isOpt then hexOf (dash p.name) else "-")
      ++ ":" ++ showConv p.conv)

def bit (b : Bool) : String := if b then "1" else "0"

structure DState where
  ms    : List Member := []
  world : World Unit := { pool := (), sess := fun _ => readySess [] }
  srv   : Srv := Srv.start false

def placeholder : Str := ['<', 'm', 's', 'g', '>']

/-- sessions in the driver: every action is left pending and its outcome is supplied by `sdone` -/
def drvCfg (ms : List Member) : Cfg Unit :=
  { table := commandTable ms,
    rt := { message := fun _ => placeholder, beyond := fun _ => .error .unrecognized },
    sem := { invoke := fun _ p => (p, .pending), complete := fun _ p => p, env := fun _ p => p },
    name := [] }

def showSess (before after : Sess) : String :=
  let new := after.replies.drop before.replies.length
  "replies=" ++ ",".intercalate (new.map fun r => "x" ++ hexOf r) ++ " waiting=" ++ bit after.waiting.isSome ++ " ended=" ++ bit after.ended
    ++ " inbox=" ++ toString after.inbox.length ++ " buf=" ++ toString after.buf.length

def showSrv (s : Srv) : String :=
  s!"listening={bit s.listening} stop={bit s.stopRequested} done={bit s.serveDone} file={bit s.socketFile} open={(s.conns.filter id).length} conns={s.conns.length} commands={s.commands}"

def addParam (ms : List Member) (p : Param) : List Member :=
  match ms.reverse with
  | m :: rest => ({ m with params := m.params ++ [p] } :: rest).reverse
  | [] => []

def handleLine (d : DState) (line : String) : DState × String :=
  let toks := line.splitOn " "
  match toks with
  | ["table"] => ({ d with ms := [] }, "ok")
  | ["member", n, k] => ({ d with ms := d.ms ++ [{ name := unhex n, kind := parseMKind k, params := [] }] }, "ok")
  | ["param", n, k, ps, c] =>
    ({ d with ms := addParam d.ms { name := unhex n, kind := parseKind k, pass := parsePass ps, conv := parseConv c } }, "ok")
  | ["wf"] => (d, s!"wf={bit (wellFormed d.ms)} build={bit (buildOk (commandTable d.ms))}")
  | ["names"] => (d, " ".intercalate ((commandTable d.ms).map fun c => hexOf c.name))
  | ["spec", m] =>
    match d.ms.find? (fun x => x.name == unhex m) with
    | some x => (d, showSpec x)
    | none => (d, "?")
  | "parse" :: rest =>
    let tk := (rest.filter (· ≠ "")).map decodeTok
    (d, showVerdict d.ms (parseLine (commandTable d.ms) tk))
  | ["sreset"] => ({ d with world := { pool := (), sess := fun _ => readySess [] } }, "ok")
  | "sline" :: i :: rest =>
    let i := i.toNat!
    let tk := (rest.filter (· ≠ "")).map decodeTok
    let w := step (drvCfg d.ms) d.world (.line i (some tk))
    ({ d with world := w }, showSess (d.world.sess i) (w.sess i))
  | ["sblank", i] =>
    let i := i.toNat!
    let w := step (drvCfg d.ms) d.world (.line i none)
    ({ d with world := w }, showSess (d.world.sess i) (w.sess i))
  | ["sdone", i, k, h] =>
    let i := i.toNat!
    let o : Outcome := match k with | "none" => .none | "value" => .value (unhex h) | _ => .raised (unhex h)
    let w := step (drvCfg d.ms) d.world (.done i o)
    ({ d with world := w }, showSess (d.world.sess i) (w.sess i))
  | ["vstart", k] => let s := Srv.start (k == "unix"); ({ d with srv := s }, showSrv s)
  | ["vin", "connect"] => let s := d.srv.step .connect; ({ d with srv := s }, s!"accepted={bit d.srv.accepts} " ++ showSrv s)
  | ["vin", "line", i] => let s := d.srv.step (.line i.toNat!); ({ d with srv := s }, s!"answered={bit (d.srv.answers i.toNat!)} " ++ showSrv s)
  | ["vin", "close", i] => let s := d.srv.step (.clientClose i.toNat!); ({ d with srv := s }, showSrv s)
  | ["vin", "exit", i] => let s := d.srv.step (.exitCmd i.toNat!); ({ d with srv := s }, showSrv s)
  | ["vin", "stop"] => let s := d.srv.step .stop; ({ d with srv := s }, showSrv s)
  | ["vin", "restart"] => let s := d.srv.step .restart; ({ d with srv := s }, showSrv s)
  | _ => (d, "bad")

partial def loop (h out : IO.FS.Stream) (d : DState) : IO Unit := do
  let line ← h.getLine
  if line.isEmpty then return ()
  let line := String.ofList (line.toList.filter (· ≠ '\n'))
  let (d', o) := handleLine d line
  out.putStrLn o
  loop h out d'

def main : IO Unit := do
  let out ← IO.getStdout
  loop (← IO.getStdin) out {}
  out.flush
