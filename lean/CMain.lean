import Taskpool.Model.Control
open Taskpool.Control

def parseConv : String → Conv
  | "int" => .int | "str" => .str | "float" => .float | "literal" => .literal | _ => .dotted
def parseKind : String → PKind
  | "pos" => .positional | "var" => .varPositional | "flag" => .flag | _ => .optional

partial def showVal : Val → String
  | .int i => s!"i:{i}" | .str s => s!"s:{s}" | .raw s => s!"r:{s}" | .bool b => if b then "b:1" else "b:0"
  | .default r => s!"d:{r}" | .list l => "[" ++ ",".intercalate (l.map showVal) ++ "]"

def showParsed : Parsed → String
  | .call m args => s!"call {m} " ++ ";".intercalate (args.map fun a => a.1 ++ "=" ++ showVal a.2)
  | .get m => s!"get {m}" | .set m v => s!"set {m} " ++ showVal v
  | .help => "help" | .error => "error" | .outside => "outside"

/-- table lines: `cmd <member> method|propro|proprw [conv]`, `param <name> <kind> <conv> <default|->`; then `parse tok...` -/
partial def loop (h out : IO.FS.Stream) (t : Table) : IO Unit := do
  let line ← h.getLine
  if line.isEmpty then return ()
  let toks := line.trimAscii.toString.splitOn " "
  match toks with
  | ["table"] => loop h out []
  | ["cmd", m, "method"] => loop h out (t ++ [{ member := m, target := .method [] }])
  | ["cmd", m, "propro"] => loop h out (t ++ [{ member := m, target := .propRO }])
  | ["cmd", m, "proprw", c] => loop h out (t ++ [{ member := m, target := .propRW (parseConv c) }])
  | ["param", n, k, c, d] =>
    let p : Param := { name := n, kind := parseKind k, conv := parseConv c, default := if d == "-" then "" else d }
    let t' := match t.reverse with
      | { member := m, target := .method ps } :: rest => (({ member := m, target := .method (ps ++ [p]) } : Cmd) :: rest).reverse
      | _ => t
    loop h out t'
  | ["names"] =>
    out.putStrLn (" ".intercalate (t.map Cmd.name)); loop h out t
  | "flags" :: [m] =>
    match t.find? (·.member == m) with
    | some { target := .method ps, .. } =>
      out.putStrLn (" ".intercalate ((assignFlags ps []).map fun pf => pf.1.name ++ ":" ++ (match pf.2 with | some c => c.toString | none => "-")))
    | _ => out.putStrLn "-"
    loop h out t
  | "parse" :: rest =>
    out.putStrLn (showParsed (parseLine t rest)); loop h out t
  | _ => out.putStrLn "bad"; loop h out t

def main : IO Unit := do
  let out ← IO.getStdout
  loop (← IO.getStdin) out []
  out.flush
