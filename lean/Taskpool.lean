import Taskpool.Model.Basic
import Taskpool.Model.Pool
import Taskpool.Model.World
import Taskpool.Inv.Tame
import Taskpool.Inv.Sync
import Taskpool.Inv.Task
import Taskpool.Inv.Spawner
import Taskpool.Inv.Steps
