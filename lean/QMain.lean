import Taskpool.Model.Queue
/-! Line-protocol driver of M2 (`qdriver`): one op line in, one observation line out; `reset` starts a new history.
Every op is `Q.step` of the model the C20 theorems are about. -/
open Taskpool.QueueM

def showPhase : CPhase → String
  | .notStarted => "N" | .waiting => "W" | .inBlock i => s!"B{i}"
  | .done .ok _ => "Dok" | .done .exc _ => "Dexc" | .done .cancelled _ => "Dcan"

def showEv : Ev → String
  | .got c i => s!"G{c}:{i}" | .exited c => s!"X{c}" | .taskDone u => s!"T{u}" | .valueError => "VE"
  | .sawCancel c => s!"C{c}" | .joined j => s!"J{j}" | .handTook i => s!"H{i}"

/-- observation after an op; `seen` = length of the log before it -/
def obs (q : Q) (seen : Nat) (r : String) : String :=
  let k := q.k
  let cs := ",".intercalate (k.cores.map fun c => showPhase c.phase)
  let js := ",".intercalate (k.joiners.map fun j => match j.phase with | .done => "D" | _ => "P")
  let ms := ",".intercalate (k.cores.map fun c => toString c.marks)
  s!"r={r} | n={k.items.length} u={k.unfinished} q={q.ready.length} | ev={",".intercalate ((q.log.drop seen).map showEv)} | c={cs} | j={js} | g={k.puts},{k.exits},{k.tdCalls},{k.valueErrors},{k.takes} m={ms}"

def parseInput (toks : List String) : Option Input :=
  match toks with
  | ["put", x] => x.toNat?.map .put
  | ["spawn"] => some .spawn
  | ["join"] => some .join
  | ["cancel", c] => c.toNat?.map .cancel
  | ["gate", c, "ok"] => c.toNat?.map (.gate · false)
  | ["gate", c, "exc"] => c.toNat?.map (.gate · true)
  | ["take"] => some .take
  | ["run"] => some (.run 0)
  | ["run", i] => i.toNat?.map .run
  | _ => none

/-- `ok`/`noop`/`empty` (= `get_nowait()` raised `QueueEmpty`) as the harness reports it for the real objects -/
def verdict (q : Q) : Input → String
  | .gate c _ => if q.canGate c then "ok" else "noop"
  | .run i => if i < q.ready.length then "ok" else "noop"
  | .take => if q.k.items.isEmpty then "empty" else "ok"
  | _ => "ok"

partial def loop (h out : IO.FS.Stream) (q : Q) : IO Unit := do
  let line ← h.getLine
  if line.isEmpty then return ()
  let toks := (line.trimAscii.toString.splitOn " ").filter (· ≠ "")
  if toks == ["reset"] then
    out.putStrLn "reset"; loop h out Q.init
  else
    match parseInput toks with
    | none => out.putStrLn "bad-op"; loop h out q
    | some i =>
      let q1 := q.step i
      out.putStrLn (obs q1 q.log.length (verdict q i))
      loop h out q1

def main : IO Unit := do
  let out ← IO.getStdout
  loop (← IO.getStdin) out Q.init
  out.flush
