import Taskpool.Model.Queue
open Taskpool.QueueM

structure W where
  q : Q
  ready : List Ref

def showPhase : CPhase → String
  | .notStarted => "N" | .waiting => "W" | .inBlock i => s!"B{i}" | .done .ok => "Dok" | .done .exc => "Dexc" | .done .cancelled => "Dcan"

def showEv : Ev → String
  | .got c i => s!"G{c}:{i}" | .exited c => s!"X{c}" | .taskDone u => s!"T{u}" | .valueError => "VE"
  | .sawCancel c => s!"C{c}" | .joined j => s!"J{j}"

def obs (w : W) (r : String) : String :=
  let q := w.q
  let cs := ",".intercalate (q.consumers.map fun c => showPhase c.phase)
  let js := ",".intercalate (q.joiners.map fun j => match j.phase with | .done => "D" | _ => "P")
  s!"r={r} | n={q.items.length} q={w.ready.length} | ev={",".intercalate (q.log.map showEv)} | c={cs} | j={js}"

def drain (w : W) : W := { q := { w.q with emit := [], log := [] }, ready := w.ready ++ w.q.emit }

def stepW (w : W) (toks : List String) : W × String :=
  match toks with
  | ["put", x] => ({ w with q := w.q.put (x.toNat?.getD 0) }, "ok")
  | ["spawn"] => ({ w with q := w.q.spawn }, "ok")
  | ["join"] => ({ w with q := w.q.join }, "ok")
  | ["cancel", c] => ({ w with q := w.q.cancelConsumer (c.toNat?.getD 0) }, "ok")
  | ["gate", c, how] =>
    let r := w.q.gate (c.toNat?.getD 0) (how == "exc")
    ({ w with q := r.1 }, if r.2 then "ok" else "noop")
  | "run" :: rest =>
    let k := match rest with | [s] => s.toNat?.getD 0 | _ => 0
    match w.ready[k]? with
    | none => (w, "noop")
    | some r => ({ ready := w.ready.eraseIdx k, q := w.q.runRef r }, "ok")
  | _ => (w, "bad-op")

partial def loop (h out : IO.FS.Stream) (w : W) : IO Unit := do
  let line ← h.getLine
  if line.isEmpty then return ()
  let toks := (line.trimAscii.toString.splitOn " ").filter (· ≠ "")
  if toks == ["reset"] then
    out.putStrLn "reset"; loop h out { q := Q.init, ready := [] }
  else
    let (w1, r) := stepW w toks
    let s := obs { w1 with ready := w1.ready ++ w1.q.emit } r
    out.putStrLn s
    loop h out (drain w1)

def main : IO Unit := do
  let out ← IO.getStdout
  loop (← IO.getStdin) out { q := Q.init, ready := [] }
  out.flush
