import Taskpool.Model.Queue
/-! Line-protocol driver of M2 (`qdriver`): one op line in, one observation line out; `reset` starts a new history.
Every op is `Q.step` of the model the C20 theorems are about; `mkq n` — only as the first line of a history — makes the
initial state `Q.initN n` (`Queue(maxsize=n)`) instead of `Q.init` (`Queue()`). -/
open Taskpool.QueueM

def showPhase : CPhase → String
  | .notStarted => "N" | .waiting => "W" | .inBlock i => s!"B{i}"
  | .done .ok _ => "Dok" | .done .exc _ => "Dexc" | .done .cancelled _ => "Dcan"

def showEv : Ev → String
  | .got c i => s!"G{c}:{i}" | .exited c => s!"X{c}" | .taskDone u => s!"T{u}" | .valueError => "VE"
  | .sawCancel c => s!"C{c}" | .joined j => s!"J{j}" | .handTook i => s!"H{i}"
  | .putDone p i => s!"P{p}:{i}" | .pCancel p => s!"K{p}"

def showPPhase : PPhase → String
  | .notStarted => "N" | .waiting => "W" | .done true => "Dput" | .done false => "Dcan"

/-- observation after an op; `seen` = length of the log before it -/
def obs (q : Q) (seen : Nat) (r : String) : String :=
  let k := q.k
  let cs := ",".intercalate (k.cores.map fun c => showPhase c.phase)
  let js := ",".intercalate (k.joiners.map fun j => match j.phase with | .done => "D" | _ => "P")
  let ms := ",".intercalate (k.cores.map fun c => toString c.marks)
  let ps := ",".intercalate (k.prods.map fun p => showPPhase p.phase)
  s!"r={r} | n={k.items.length} u={k.unfinished} q={q.ready.length} | ev={",".intercalate ((q.log.drop seen).map showEv)} | c={cs} | j={js} | g={k.puts},{k.exits},{k.tdCalls},{k.valueErrors},{k.takes},{k.hputs} m={ms} | p={ps}"

def parseInput (toks : List String) : Option Input :=
  match toks with
  | ["put", x] => x.toNat?.map .put
  | ["spawn"] => some .spawn
  | ["join"] => some .join
  | ["cancel", c] => c.toNat?.map .cancel
  | ["gate", c, "ok"] => c.toNat?.map (.gate · false)
  | ["gate", c, "exc"] => c.toNat?.map (.gate · true)
  | ["take"] => some .take
  | ["run"] => some (.run 0)
  | ["run", i] => i.toNat?.map .run
  | ["produce", x] => x.toNat?.map .produce
  | ["cancelp", j] => j.toNat?.map .cancelp
  | _ => none

/-- `ok`/`noop`/`empty` (= `get_nowait()` raised `QueueEmpty`)/`full` (= `put_nowait()` raised `QueueFull`) as the
harness reports it for the real objects -/
def verdict (q : Q) : Input → String
  | .gate c _ => if q.canGate c then "ok" else "noop"
  | .run i => if i < q.ready.length then "ok" else "noop"
  | .take => if q.k.items.isEmpty then "empty" else "ok"
  | .put _ => if q.k.full then "full" else "ok"
  | _ => "ok"

partial def loop (h out : IO.FS.Stream) (q : Q) : IO Unit := do
  let line ← h.getLine
  if line.isEmpty then return ()
  let toks := (line.trimAscii.toString.splitOn " ").filter (· ≠ "")
  if toks == ["reset"] then
    out.putStrLn "reset"; loop h out Q.init
  else if toks.length == 2 && toks.head? == some "mkq" then
    match (toks.getD 1 "").toNat? with
    | none => out.putStrLn "bad-op"; loop h out q
    | some n =>
      let q1 := Q.initN n
      out.putStrLn (obs q1 0 "ok")
      loop h out q1
  else
    match parseInput toks with
    | none => out.putStrLn "bad-op"; loop h out q
    | some i =>
      let q1 := q.step i
      out.putStrLn (obs q1 q.log.length (verdict q i))
      loop h out q1

def main : IO Unit := do
  let out ← IO.getStdout
  loop (← IO.getStdin) out Q.init
  out.flush
